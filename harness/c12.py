"""C12 — symbolic equations and Jacobian agree with the numeric model (DESIGN §6/C12).

R  real code: `to_symbolic_model(m)` (status; `.eqs` and `.jacobian()` lambdified and evaluated),
   `m(t, x)`, and the closure `Simulator(m, use_jacobian=True).integrator.jacobian(t, x)`;
   thorough tier: trajectories with / without the Jacobian for BDF, Radau, LSODA.
M  Lean model through the driver (op "c12"): `toSymbolic`, our own derivative `D`, `callJac`.
S  order-free oracle: conversion status from `should_convert` below (membership tests only, no order,
   no cache); values from the Lean specification `specEqs` (definitions unfolded by name) and `D` of it,
   and from the numeric core `callRhs`.

Models are built from the shipped rate-law library `mxlpy.fns` (bodies read from the current fns.py by
translate/c12.py).  Polynomial models are compared exactly at integer points, models with a division to
1e-12 (relative to the largest magnitude at the point).
"""
from __future__ import annotations

import copy
import multiprocessing as mp
import os
import re
import time
from fractions import Fraction

from translate import c12 as T
from vlib import driver
from vlib.content import num, rat_str
from vlib.framework import REPO

PROPS = ["MxlVerif.Props.C12"]
TOL = 1e-12
TRAJ_TOL = 2e-5
RHS_BUDGET = 20000  # right-hand-side evaluations per simulation (models that blow up in finite time are skipped)


class Budget(Exception):
    pass

_LIB = None


def lib():
    global _LIB
    if _LIB is None:
        _LIB, _ = T.library(REPO, strict=False)  # the strict run is the translator step (ctx.translate)
        # model names (v*, c*, d*, r*, q0, s0*) never coincide with a parameter name of a library function:
        # `fn_to_sympy` substitutes sequentially and would capture them (F-C06-4, C06's subject)
        for ent in _LIB.values():
            assert not any(re.fullmatch(r"[vcdr]\d+|q0|s0.*", a) for a in ent["args"]), ent
    return _LIB


# --------------------------------------------------------------------------- wire helpers


def fn_ref(name, args):
    ent = lib()[name]
    assert len(ent["args"]) == len(args), (name, args)
    return {"fn": name, "args": list(args), "e": ent["e"]}


def wire_content(content):
    """what the driver decodes: drop the library names"""
    def fn(d):
        return {"args": d["args"], "e": d["e"]}

    def val(v):
        return v if "v" in v else {"ia": fn(v["ia"])}

    def coef(c):
        return c if "c" in c else fn(c)

    return {
        "vars": [[k, val(v)] for k, v in content["vars"]],
        "pars": [[k, val(v)] for k, v in content["pars"]],
        "derived": [[k, fn(v)] for k, v in content["derived"]],
        "rxns": [[k, dict(fn(v), st=[[c, coef(cj)] for c, cj in v["st"]])] for k, v in content["rxns"]],
        "surs": content.get("surs", []),
    }


# --------------------------------------------------------------------------- order-free oracle


def should_convert(content) -> str:
    """'ok' | 'err' — by membership only.  Every derived quantity and every reaction must mention only
    names that have a symbolic form (variables, plain parameters, derived quantities); a coefficient
    that depends on the state must do so too; every variable needs at least one stoichiometric entry;
    a surrogate flux has no expression."""
    vars_ = dict(content["vars"])
    pars = dict(content["pars"])
    derived = dict(content["derived"])
    rxns = dict(content["rxns"])
    sigma = set(vars_) | {k for k, v in pars.items() if "v" in v} | set(derived)
    for f in list(derived.values()) + list(rxns.values()):
        if any(a not in sigma for a in f["args"]):
            return "err"
    # parameter-only closure (least fixed point, no order)
    ponly = set(pars)
    changed = True
    while changed:
        changed = False
        for k, f in derived.items():
            if k not in ponly and all(a in ponly for a in f["args"]):
                ponly.add(k)
                changed = True
    touched = set()
    for r in rxns.values():
        for cpd, cj in r["st"]:
            touched.add(cpd)
            if "c" not in cj and not all(a in ponly for a in cj["args"]):
                if any(a not in sigma for a in cj["args"]):
                    return "err"
    for _, s in content.get("surs", []):
        if any(st for _, st in s["st"]):
            return "err"
    if any(v not in touched for v in vars_):
        return "err"
    return "ok"


def is_poly(content) -> bool:
    fs = [v for _, v in content["derived"]] + [v for _, v in content["rxns"]]
    fs += [v["ia"] for _, v in content["vars"] + content["pars"] if "ia" in v]
    fs += [cj for _, r in content["rxns"] for _, cj in r["st"] if "c" not in cj]
    return all(T._poly(f["e"]) for f in fs)


# --------------------------------------------------------------------------- real code


def build_model(content):
    from mxlpy import Derived, InitialAssignment, Model, fns
    from mxlpy.surrogates import qss

    from vlib import fexpr

    def f(d):
        if "py" in d:  # a user-defined function of that Python name, compiled from the body (see local_fn)
            return local_fn(d["py"], lib()[d["fn"]]["args"], d["e"])
        return getattr(fns, d["fn"])

    def value(v):
        if "v" in v:
            return fexpr.to_float(Fraction(v["v"]))
        return InitialAssignment(fn=f(v["ia"]), args=list(v["ia"]["args"]))

    m = Model()
    for kind, k, v in content["decl"]:
        if kind == "var":
            m.add_variable(k, value(v))
        elif kind == "par":
            m.add_parameter(k, value(v))
        elif kind == "derived":
            m.add_derived(k, fn=f(v), args=list(v["args"]))
        elif kind == "rxn":
            st = {c: (fexpr.to_float(Fraction(cj["c"])) if "c" in cj else Derived(fn=f(cj), args=list(cj["args"])))
                  for c, cj in v["st"]}
            m.add_reaction(k, fn=f(v), args=list(v["args"]), stoichiometry=st)
        elif kind == "sur":
            m.add_surrogate(k, qss.Surrogate(
                model=fexpr.compile_multi(v["es"], len(v["args"])), args=list(v["args"]), outputs=list(v["outs"]),
                stoichiometries={fl: {c: fexpr.to_float(Fraction(cj["c"])) for c, cj in st} for fl, st in v["st"]}))
    return m


_local_counter = [0]


def _py_src(e, names):
    t = e[0]
    if t == "a":
        return names[e[1]]
    if t == "c":
        v = float(Fraction(e[1]))
        return repr(v) if v >= 0 else f"({v!r})"
    if t == "neg":
        return f"(-{_py_src(e[1], names)})"
    if t == "pow":
        return f"({_py_src(e[1], names)} ** {e[2]})"
    return f"({_py_src(e[1], names)} {t} {_py_src(e[2], names)})"


def local_fn(pyname, argnames, e):
    """a real Python function `def <pyname>(<argnames>): return <body>` as a user script would define it (module
    `__main__`, source registered with linecache so that inspect.getsource works).  Different bodies may share one
    name: factories and re-run notebook cells produce exactly that."""
    import linecache

    _local_counter[0] += 1
    src = f"def {pyname}({', '.join(argnames)}):\n    return {_py_src(e, argnames)}\n"
    filename = f"<mxlverif-c12-{pyname}-{_local_counter[0]}>"
    linecache.cache[filename] = (len(src), None, src.splitlines(True), filename)
    ns: dict = {}
    exec(compile(src, filename, "exec"), ns)  # noqa: S102
    fn = ns[pyname]
    fn.__module__ = "__main__"
    return fn


def with_decl(content):
    """declaration sequence = per-container order of the content, containers in the usual script order"""
    c = dict(content)
    c["decl"] = ([["var", k, v] for k, v in content["vars"]] + [["par", k, v] for k, v in content["pars"]]
                 + [["derived", k, v] for k, v in content["derived"]] + [["rxn", k, v] for k, v in content["rxns"]]
                 + [["sur", k, v] for k, v in content.get("surs", [])])
    return c


def _exc(e):
    cls = type(e).__name__
    if cls == "KeyError":
        return {"err": [cls, str(e.args[0]) if e.args else ""]}
    return {"err": [cls]}


def _vals(x):
    import numpy as np

    return [num(v) for v in np.asarray(x, dtype=float).reshape(-1)]


def _mat(x, n):
    import numpy as np

    a = np.asarray(x, dtype=float).reshape(n, -1) if n else np.zeros((0, 0))
    return [[num(v) for v in row] for row in a]


def real_worker(case):
    import logging
    import warnings

    warnings.filterwarnings("ignore")
    import sympy

    from mxlpy import Simulator
    from mxlpy.symbolic import to_symbolic_model

    content = with_decl(case["content"])
    try:
        m = build_model(content)
        m.get_initial_conditions()
    except Exception as e:  # noqa: BLE001
        return {"build": _exc(e)}
    pts = [(float(Fraction(p["t"])), [float(Fraction(v)) for v in p["x"]]) for p in case["points"]]
    out = observe(m, content, pts)
    if "then" in case:
        # session: the same Model object is edited and converted again (same process, same names)
        try:
            content2 = with_decl(apply_edit(case["content"], case["then"]))
            edit_model(m, case["then"])
            m.get_initial_conditions()  # same gate as at build time (e.g. division by zero at the initial state)
            out["then"] = observe(m, content2, pts)
        except Exception as e:  # noqa: BLE001
            out["then"] = {"build": _exc(e)}
    return out


def hist_worker(case):
    """a history on ONE Simulator(use_jacobian=True): parameter updates through every method that forwards to the
    model, re-initialisations, and calls of whatever the integrator currently holds as its Jacobian"""
    import logging
    import warnings

    warnings.filterwarnings("ignore")
    from mxlpy import Simulator

    content = with_decl(case["content"])
    try:
        m = build_model(content)
        m.get_initial_conditions()
    except Exception as e:  # noqa: BLE001
        return {"build": _exc(e)}
    nv = len(content["vars"])
    lg = logging.getLogger("mxlpy.simulator")
    old_level = lg.level
    lg.setLevel(logging.ERROR)
    # how often the closure converts the model again: counted at the name `_compile_jac` looks up
    import mxlpy.simulator as simmod

    conversions = [0]
    orig_convert = simmod.to_symbolic_model

    def counted(model_):
        conversions[0] += 1
        return orig_convert(model_)

    simmod.to_symbolic_model = counted
    try:
        try:
            sim = Simulator(m, use_jacobian=True)
        except ZeroDivisionError as e:
            return {"build": _exc(e)}
        except Exception as e:  # noqa: BLE001
            return {"init": _exc(e)}
        out = {"init": {"ok": sim.integrator.jacobian is not None}, "outs": []}
        for op in case["hist"]:
            try:
                if op[0] == "set":
                    _, k, v, api, arg = op
                    v = float(Fraction(v))
                    if api == "update_parameter":
                        sim.update_parameter(k, v)
                    elif api == "update_parameters":
                        sim.update_parameters({k: v})
                    elif api == "scale_parameter":
                        sim.scale_parameter(k, float(Fraction(arg)))
                    elif api == "scale_parameters":
                        sim.scale_parameters({k: float(Fraction(arg))})
                    else:
                        sim.model.update_parameter(k, v)
                    out["outs"].append(None)
                elif op[0] == "edit":
                    # a structural edit of the model the Simulator holds, NOT followed by a re-initialisation
                    edit_model(sim.model, op[1])
                    out["outs"].append(None)
                elif op[0] == "reinit":
                    if op[1] == "clear_results":
                        sim.clear_results()
                    else:
                        k0 = content["vars"][0][0]
                        sim.update_variable(k0, sim.y0[k0])
                    # division by zero is outside the model: when building the model's cache (the first thing the
                    # conversion does) divides by zero at the current parameter values, the Simulator falls back because
                    # of that, not because the model does not convert -- the history stops here and is counted
                    keep_ = sim.model._cache  # noqa: SLF001
                    try:
                        sim.model._create_cache()  # noqa: SLF001  (raises ZeroDivisionError -> handled below)
                    finally:
                        sim.model._cache = keep_  # noqa: SLF001  the closure watches this object: leave it in place
                    out["outs"].append(None)
                else:
                    jf = sim.integrator.jacobian
                    t, xs = float(Fraction(op[1])), [float(Fraction(v)) for v in op[2]]
                    if jf is None:
                        out["outs"].append({"ok": None})
                    else:
                        before = conversions[0]
                        try:
                            o_ = {"ok": _mat(jf(t, xs), nv)}
                        except ZeroDivisionError:
                            raise
                        except Exception as e:  # noqa: BLE001
                            # the exception would escape from the solver; the Simulator (and the closure) stay in use
                            o_ = {"raised": _exc(e)["err"]}
                        o_["conversions"] = conversions[0] - before
                        out["outs"].append(o_)
            except ZeroDivisionError:
                out["outs"].append("ZeroDivisionError")
                break
            except Exception as e:  # noqa: BLE001
                out["outs"].append(_exc(e))
                break
        return out
    finally:
        lg.setLevel(old_level)
        simmod.to_symbolic_model = orig_convert


def hist_contents(case):
    """the content of the model before every operation of the history (parameter values and edits applied)"""
    c = copy.deepcopy(case["content"])
    out = []
    for op in case["hist"]:
        out.append(c)
        if op[0] == "set":
            c = copy.deepcopy(c)
            for k, v in c["pars"]:
                if k == op[1]:
                    v.clear()
                    v["v"] = op[2]
        elif op[0] == "edit":
            c = apply_edit(c, op[1])
    return out


def edited_since_compile(case, i) -> int:
    """order-free oracle for the number of conversions during call `i`: 1 iff the model was updated / edited since the
    closure was last in step with it.  Walking back from the call: a `set` / `edit` means yes (each discards the model's
    cache object, also a `set` to the value the parameter already has); a re-initialisation or an earlier call on a
    model that converts means no (the closure was compiled for that model there); an earlier call on a model that does
    not convert raised and left nothing behind, so the search goes on."""
    cs = hist_contents(case)
    for j in range(i - 1, -1, -1):
        op = case["hist"][j]
        if op[0] in ("set", "edit"):
            return 1
        if op[0] == "reinit":
            return 0
        if op[0] == "call" and should_convert(cs[j]) == "ok":
            return 0
    return 0


def gen_hist(rng, content, n_ops):
    """operations on the plain parameters of `content` (values stay small positive dyadics, so that arithmetic is
    exact and denominators rarely vanish), re-initialisations and Jacobian calls"""
    cur = {k: Fraction(v["v"]) for k, v in content["pars"] if "v" in v}
    ia = [k for k, v in content["pars"] if "v" not in v]
    ops = []
    calls = 0
    cur_content = content
    # user-defined (localised) functions are left alone: an edit would need a function of the same Python name
    edits = all("py" not in f for f in _fns_of(content))
    for i in range(n_ops):
        r = rng.random()
        if (r < 0.45 and (cur or ia)) and i < n_ops - 1:
            if ia and rng.random() < 0.15:
                # a parameter given by an initial assignment gets a plain value: the value tuple grows
                k = rng.choice(ia)
                ia.remove(k)
                v = Fraction(rng.choice([1, 2, 3]))
                cur[k] = v
                ops.append(["set", k, num(v), rng.choice(["update_parameter", "update_parameters", "model"]), None])
                continue
            k = rng.choice(sorted(cur))
            api = rng.choice(["update_parameter", "update_parameters", "scale_parameter", "scale_parameters", "model"])
            if api.startswith("scale"):
                f = Fraction(rng.choice([2, 4, Fraction(1, 2), 3, 1]))
                v = cur[k] * f
                arg = num(f)
            else:
                # now and then back to a value it had before (the closure must not serve the matrix of another value)
                v = Fraction(rng.choice([1, 2, 3, 4, 5, Fraction(1, 2), cur[k]]))
                arg = None
            cur[k] = v
            ops.append(["set", k, num(v), api, arg])
        elif r < 0.57 and i < n_ops - 1 and edits:
            # another rate law for a reaction / another function for a derived quantity, over names that stay symbols
            base = [k for k, v in content["vars"]] + [k for k, v in content["pars"] if "v" in v]
            if rng.random() < 0.3:
                # the numeric model accepts `time`, the symbolic one has no such symbol: from now on the conversion raises
                base = base + ["time", "time"]
            rational = not is_poly(content)
            if cur_content["derived"] and rng.random() < 0.4:
                k, _old = rng.choice(cur_content["derived"])
                new = _mk(rng, rng.choice(DER_FNS_POLY + (DER_FNS_RAT if rational else [])), base)
                e = {"op": "update_derived", "name": k, "fn": new}
            else:
                k, _old = rng.choice(cur_content["rxns"])
                new = _mk(rng, rng.choice(RATE_FNS_POLY + (RATE_FNS_RAT if rational else [])), base)
                e = {"op": "update_reaction", "name": k, "fn": new}
            cur_content = apply_edit(cur_content, e)
            ops.append(["edit", e])
        elif r < 0.68 and i < n_ops - 1:
            ops.append(["reinit", rng.choice(["clear_results", "update_variable"])])
        else:
            ops.append(["call", str(rng.choice([0, 1, 2])), [str(rng.choice([1, 2, 3, 5])) for _ in content["vars"]]])
            calls += 1
    if not calls:
        ops.append(["call", "0", ["1" for _ in content["vars"]]])
    return ops


def hist_req(case):
    cs = hist_contents(case)
    ops = []
    for i, op in enumerate(case["hist"]):
        if op[0] == "set":
            ops.append(op[:3])
        elif op[0] == "reinit":
            ops.append(op[:1])
        elif op[0] == "edit":
            ops.append(["edit", wire_content(apply_edit(cs[i], op[1]))])
        else:
            ops.append(op)
    return {"op": "c12", "content": wire_content(case["content"]), "points": [], "hist": ops}


def judge_hist(ctx, case, R, M):
    """R = the real Simulator's outputs along the history, M = the Lean state machine run with the generated glue
    facts, S = per call what a freshly built Simulator on the content of that moment returns (Lean `callJac`)"""
    sub = {"content": case["content"], "hist": case["hist"]}
    if "build" in R:
        ctx.hist["hist_skipped_build"] = ctx.hist.get("hist_skipped_build", 0) + 1
        return
    exact = is_poly(case["content"])
    ncalls = sum(1 for op in case["hist"] if op[0] == "call")
    ctx.count(sub, f"history-ops{min(len(case['hist']), 9)}-calls{min(ncalls, 5)}-{'jac' if R.get('init', {}).get('ok') else 'nojac'}", True)
    if "init" in R and "err" in R["init"]:
        ctx.violation(sub, R["init"], "Simulator(use_jacobian=True) raised instead of falling back")
        return
    S_init = should_convert(case["content"]) == "ok"
    ctx.judge(sub, R["init"]["ok"], S_init, None if M is None else M["hist"]["init"].get("ok"),
              what="history: a Jacobian is installed iff the model converts")
    mouts = None if M is None else M["hist"].get("outs", [])
    if M is not None and M["hist"].get("run") is not None:
        # `runG` (the whole history at once, what the theorem is stated over) = the step-by-step outputs used below
        ctx.hist["hist_runG_compared"] = ctx.hist.get("hist_runG_compared", 0) + 1
        if M["hist"]["run"] != [o.get("m") for o in mouts]:
            ctx.add_drift(sub, [o.get("m") for o in mouts], M["hist"]["run"], "Lean runG differs from iterated stepG")
    for i, (op, ro) in enumerate(zip(case["hist"], R["outs"])):
        mo = None if mouts is None or i >= len(mouts) else mouts[i]
        kind = "set:" + op[3] if op[0] == "set" else "edit:" + op[1]["op"] if op[0] == "edit" else op[0]
        ctx.hist["hist_op:" + kind] = ctx.hist.get("hist_op:" + kind, 0) + 1
        if ro == "ZeroDivisionError":
            ctx.hist["hist_stopped_ZeroDivisionError"] = ctx.hist.get("hist_stopped_ZeroDivisionError", 0) + 1
            return
        if isinstance(ro, dict) and "err" in ro:
            if op[0] == "reinit" and ro["err"][0] == "ZeroDivisionError":
                return
            ctx.violation(dict(sub, upto=i), ro, f"history: {op[0]} raised")
            return
        if op[0] != "call":
            continue
        if mo is None:
            sv = mv = None
        else:
            sv = mo.get("s")
            mv = mo.get("m", mo)
        if sv == "skip":
            ctx.hist["hist_call_skipped_zero_denominator"] = ctx.hist.get("hist_call_skipped_zero_denominator", 0) + 1
            continue
        if sv is None:
            # no driver: R alone says nothing
            continue
        # a call that raises hands no matrix over: allowed exactly when a fresh Simulator on this content would not hand
        # one over either (the conversion fails: it has no Jacobian, or its `jac_fn` raises)
        NOMAT = "no matrix"
        s_ = (sv.get("ok") if sv.get("ok") is not None else NOMAT) if "ok" in sv else NOMAT
        # the integrator has a Jacobian at all only if the model converted when the integrator was last built
        # (construction / clear_results / update_variable); after a fall-back it runs without one until it is built again,
        # whatever the model has become since (allowed: "falls back with a warning rather than using wrong equations")
        built_at = max([j for j in range(i) if case["hist"][j][0] == "reinit"], default=None)
        content_then = case["content"] if built_at is None else hist_contents(case)[built_at]
        if should_convert(content_then) != "ok":
            s_ = NOMAT
            ctx.hist["hist_call_without_jacobian_after_fallback"] = ctx.hist.get("hist_call_without_jacobian_after_fallback", 0) + 1
            if "raised" in ro or ro.get("ok") is not None:
                ctx.violation(dict(sub, upto=i), ro, "history: the integrator has a Jacobian although the model did not convert when it was built")
                return
        if isinstance(mv, dict) and "raised" in mv:
            m_ = NOMAT
        else:
            m_ = mv.get("ok") if isinstance(mv, dict) and "ok" in mv else mv
            m_ = NOMAT if m_ is None else m_
        if "raised" in ro:
            r_ = NOMAT
            ctx.hist["hist_call_raised:" + ro["raised"][0]] = ctx.hist.get("hist_call_raised:" + ro["raised"][0], 0) + 1
        else:
            r_ = NOMAT if ro["ok"] is None else ro["ok"]
        if isinstance(mv, dict) and (("raised" in mv) != ("raised" in ro)):
            ctx.add_drift(dict(sub, upto=i), ro, mv, "history: the real closure raises / the Lean closure does not (or vice versa)")
        ctx.hist["hist_call_judged"] = ctx.hist.get("hist_call_judged", 0) + 1
        if "conversions" in ro and isinstance(mo, dict) and "c" in mo:
            # the conversion runs once per change of the model, not once per call (Lean: `recompilesG`,
            # theorem C12_no_needless_recompile); S = "something was edited since the last call that compiled"
            want = 1 if mo["c"] else 0
            ctx.hist[f"hist_conversions:{ro['conversions']}"] = ctx.hist.get(f"hist_conversions:{ro['conversions']}", 0) + 1
            vv = ctx.judge(dict(sub, upto=i), ro["conversions"], edited_since_compile(case, i), want,
                           what="history: conversions of the model during this Jacobian call (1 iff the model changed since the last compilation)")
            if vv == "violation":
                return
        v = ctx.judge(dict(sub, upto=i), _snap(r_, s_, exact) if NOMAT not in (r_, s_) else r_, s_, m_,
                      what="history: the matrix the integrator gets = Jacobian of the model's current content")
        if v == "violation":
            return


def apply_edit(content, edit):
    """the content after the edit (what M and S are asked about)"""
    c = copy.deepcopy(content)
    if edit["op"] == "update_reaction":
        for k, v in c["rxns"]:
            if k == edit["name"]:
                st = v["st"]
                v.clear()
                v.update(copy.deepcopy(edit["fn"]))
                v["st"] = st
    elif edit["op"] == "update_derived":
        for k, v in c["derived"]:
            if k == edit["name"]:
                v.clear()
                v.update(copy.deepcopy(edit["fn"]))
    else:
        raise ValueError(edit)
    return c


def edit_model(m, edit):
    from mxlpy import fns

    d = edit["fn"]
    fn = local_fn(d["py"], lib()[d["fn"]]["args"], d["e"]) if "py" in d else getattr(fns, d["fn"])
    if edit["op"] == "update_reaction":
        m.update_reaction(edit["name"], fn=fn, args=list(d["args"]))
    else:
        m.update_derived(edit["name"], fn=fn, args=list(d["args"]))


def observe(m, content, pts):
    import logging

    import sympy

    from mxlpy import Simulator
    from mxlpy.symbolic import to_symbolic_model

    out = {}
    nv = len(content["vars"])
    out["rhs"] = []
    for t, xs in pts:
        try:
            out["rhs"].append({"ok": _vals(m(t, xs))})
        except Exception as e:  # noqa: BLE001
            out["rhs"].append(_exc(e))
    # --- symbolic conversion
    try:
        sm = to_symbolic_model(m)
        out["sym"] = {"ok": True}
    except Exception as e:  # noqa: BLE001
        sm = None
        out["sym"] = _exc(e)
    out["points"] = []
    if sm is not None:
        try:
            vs = list(sm.variables.values())
            ps = list(sm.parameters.values())
            pv = [float(sm.parameter_values[k]) for k in sm.parameters]
            f_eqs = sympy.lambdify((vs, ps), sympy.Matrix(sm.eqs) if sm.eqs else sympy.Matrix(0, 1, []))
            f_jac = sympy.lambdify((vs, ps), sm.jacobian())
            out["var_order"] = {"symbolic": [str(s) for s in vs], "model": list(m.get_variable_names()),
                                "initial_conditions": list(m.get_initial_conditions())}
            names = [k for k, _ in content["vars"]]
            for _, xs in pts:
                try:
                    # symbols are bound BY NAME: the equations are judged in equation order, the Jacobian's
                    # columns in the order of `variables`, whatever that is
                    val = dict(zip(names, xs))
                    xv = [val[str(s)] for s in vs]
                    out["points"].append({"eqs": _vals(f_eqs(xv, pv)), "jac": _mat(f_jac(xv, pv), nv)})
                except Exception as e:  # noqa: BLE001
                    out["points"].append(_exc(e))
        except Exception as e:  # noqa: BLE001
            out["points"] = [_exc(e) for _ in pts]
    # --- what the simulator hands to the integrator
    class Grab(logging.Handler):
        def __init__(self):
            super().__init__()
            self.n = 0

        def emit(self, record):
            if record.levelno >= logging.WARNING:
                self.n += 1

    grab = Grab()
    lg = logging.getLogger("mxlpy.simulator")
    lg.addHandler(grab)
    old_prop = lg.propagate
    lg.propagate = False
    try:
        sim = Simulator(m, use_jacobian=True)
        jf = sim.integrator.jacobian
        out["jacfn_present"] = jf is not None
        out["warned"] = grab.n > 0
        out["jacfn"] = []
        if jf is not None:
            for t, xs in pts:
                try:
                    out["jacfn"].append({"ok": _mat(jf(t, xs), nv)})
                except Exception as e:  # noqa: BLE001
                    out["jacfn"].append(_exc(e))
            # a parameter changed through the simulator after construction: the installed Jacobian must follow
            plain = [k for k, v in content["pars"] if "v" in v]
            if plain and pts:
                try:
                    k = plain[0]
                    old = float(Fraction(dict(content["pars"])[k]["v"]))
                    sim.update_parameter(k, old * 2.0 + 1.0)
                    jf2 = sim.integrator.jacobian
                    sm2 = to_symbolic_model(sim.model)
                    vs2, ps2 = list(sm2.variables.values()), list(sm2.parameters.values())
                    pv2 = [float(sm2.parameter_values[q]) for q in sm2.parameters]
                    f_jac2 = sympy.lambdify((vs2, ps2), sm2.jacobian())
                    def _try(f):
                        try:
                            return _mat(f(), nv)
                        except ZeroDivisionError:
                            return "ZeroDivisionError"

                    out["jacfn_upd"] = [{"closure": _try(lambda: jf2(t, xs)), "fresh": _try(lambda: f_jac2(xs, pv2))}
                                        for t, xs in pts]
                    out["upd"] = [k, num(old * 2.0 + 1.0)]
                except ZeroDivisionError:
                    out["jacfn_upd"] = "skipped: division by zero at the updated parameter value"
                except Exception as e:  # noqa: BLE001
                    out["jacfn_upd"] = _exc(e)
                finally:
                    m.update_parameter(k, old)  # the Model object may be observed again (sessions)
    except Exception as e:  # noqa: BLE001
        out["jacfn_present"] = _exc(e)
    finally:
        lg.removeHandler(grab)
        lg.propagate = old_prop
    return out


_jac_methods = None


def jac_methods():
    """the methods of `Scipy.method`'s Literal (read from the source by the translator) whose scipy solver takes a
    Jacobian — "every integrator method that uses a Jacobian" """
    global _jac_methods
    if _jac_methods is None:
        import inspect

        from scipy.integrate._ivp.ivp import METHODS

        _jac_methods = [m for m in T.scipy_methods(REPO) if "jac" in inspect.signature(METHODS[m].__init__).parameters]
    return _jac_methods


def traj_worker(case):
    """thorough tier: trajectories with and without the Jacobian, per method"""
    import warnings
    from functools import partial

    warnings.filterwarnings("ignore")
    import logging

    logging.getLogger("mxlpy.simulator").setLevel(logging.ERROR)
    from mxlpy import Simulator
    from mxlpy.integrators import Scipy

    content = with_decl(case["content"])
    res = {}
    for meth in jac_methods():
        row = {}
        for uj in (False, True):
            try:
                m = build_model(content)
                sim = Simulator(m, use_jacobian=uj, integrator=partial(Scipy, method=meth))
                calls = [0]
                budget = [0]
                rhs = sim.integrator.rhs

                def counted(t, y, rhs=rhs, budget=budget):
                    budget[0] += 1
                    if budget[0] > RHS_BUDGET:
                        raise Budget
                    return rhs(t, y)

                sim.integrator.rhs = counted
                jf = sim.integrator.jacobian
                if jf is not None:
                    def wrapped(t, x, jf=jf, calls=calls):
                        calls[0] += 1
                        return jf(t, x)

                    sim.integrator.jacobian = wrapped
                r = sim.simulate(t_end=case["t_end"], steps=8).get_result().unwrap_or_err()
                cols = [k for k, _ in content["vars"]]
                row[uj] = {"ok": [[float(v) for v in r.variables[c].to_numpy()] for c in cols], "calls": calls[0],
                           "has_jac": jf is not None}
            except Exception as e:  # noqa: BLE001
                row[uj] = _exc(e)
        res[meth] = row
    return res


# --------------------------------------------------------------------------- generator

RATE_FNS_POLY = ["mass_action_1s", "mass_action_1s_1p", "mass_action_2s", "mass_action_2s_1p", "diffusion_1s_1p",
                 "proportional", "constant"]
RATE_FNS_RAT = ["michaelis_menten_1s", "michaelis_menten_2s", "michaelis_menten_3s"]
DER_FNS_POLY = ["moiety_1s", "moiety_2s", "add", "mul", "minus", "proportional", "twice", "neg", "constant",
                "mass_action_1s"]
DER_FNS_RAT = ["div", "one_div", "michaelis_menten_1s"]


def gen_content(rng, *, rational=False, p_odd=0.25, stiff=False):
    L = lib()
    nv = rng.randint(1, 4)
    npar = rng.randint(1, 4)
    vars_ = [[f"v{i}", {"v": str(rng.choice([1, 2, 3]))}] for i in range(nv)]
    pars = [[f"c{i}", {"v": str(rng.choice([1, 2, 3, "1/2"]))}] for i in range(npar)]
    vnames = [k for k, _ in vars_]
    pnames = [k for k, _ in pars]
    pool = vnames + pnames
    odd = rng.random() < p_odd
    extra_pool = []
    if odd and rng.random() < 0.4:
        pars.append(["q0", {"ia": _mk(rng, rng.choice(["twice", "add", "mul"]), pnames)}])
        extra_pool.append("q0")
    if odd and rng.random() < 0.3:
        extra_pool.append("time")
    if nv >= 2 and rng.random() < (0.3 if odd else 0.12):
        # a variable whose initial value is computed (still a symbol), declared anywhere among the others
        i = rng.randrange(nv)
        others = [k for j, (k, _) in enumerate(vars_) if j != i]
        vars_[i] = [vars_[i][0], {"ia": _mk(rng, rng.choice(["twice", "add", "mul"]), pnames + others)}]

    derived, rxns = [], []
    nd = rng.randint(0, 4)
    for i in range(nd):
        name = rng.choice(DER_FNS_RAT if rational and rng.random() < 0.3 else DER_FNS_POLY)
        src = pool + (extra_pool if rng.random() < 0.3 else [])
        if rng.random() < 0.25:
            src = pnames + [d for d, f in derived if all(a in pnames for a in f["args"])]  # parameter-only derived
        derived.append([f"d{i}", _mk(rng, name, src)])
        pool.append(f"d{i}")
    nr = rng.randint(1, 4)
    for i in range(nr):
        name = rng.choice(RATE_FNS_RAT if rational and rng.random() < 0.6 else RATE_FNS_POLY)
        src = pool + (extra_pool if rng.random() < 0.15 else [])
        f = _mk(rng, name, src)
        cpds = rng.sample(vnames, rng.randint(1, min(3, nv)))
        st = []
        for c in cpds:
            r = rng.random()
            if r < 0.8:
                st.append([c, {"c": str(rng.choice([-2, -1, 1, 2, "1/2", 3]))}])
            elif r < 0.9:
                ponly = pnames + [d for d, g in derived if all(a in pnames for a in g["args"])]
                st.append([c, _mk(rng, rng.choice(["twice", "add", "mul", "constant", "minus", "moiety_1s", "minus"]), ponly)])
            else:
                st.append([c, _mk(rng, rng.choice(["twice", "add", "mul", "constant", "minus", "moiety_1s", "minus"]), pool)])
        f["st"] = st
        rxns.append([f"r{i}", f])
    # every variable gets an equation (unless this is an odd model, sometimes)
    touched = {c for _, r in rxns for c, _ in r["st"]}
    for v in vnames:
        if v not in touched and not (odd and rng.random() < 0.3):
            rxns[rng.randrange(len(rxns))][1]["st"].append([v, {"c": str(rng.choice([-1, 1, 2]))}])
    if odd and derived and rng.random() < 0.2:
        # a derived quantity of a reaction rate: numerically fine, has no symbolic form
        derived.append([f"d{nd}", _mk(rng, "twice", [rxns[0][0]])])
    surs = []
    if odd and rng.random() < 0.2:
        outs = ["s0o0"]
        st = [["s0o0", [[rng.choice(vnames), {"c": "1"}]]]] if rng.random() < 0.5 else []
        surs.append(["s0", {"args": [rng.choice(vnames)], "outs": outs, "es": [["*", ["a", 0], ["c", "2"]]], "st": st}])
    if stiff:
        pars[0][1] = {"v": "4096"}
    for lst in (derived, rxns, pars, vars_):
        rng.shuffle(lst)
    return {"vars": vars_, "pars": pars, "derived": derived, "rxns": rxns, "surs": surs}


PYNAMES = ["rate", "fn", "v"]


def _fns_of(content):
    for _, v in content["derived"]:
        yield v
    for _, r in content["rxns"]:
        yield r
        for _, cj in r["st"]:
            if "c" not in cj:
                yield cj
    for _, v in content["vars"] + content["pars"]:
        if "ia" in v:
            yield v["ia"]


def localise(rng, content):
    """the same model written with user-defined functions: every function is a `def` of the library body under a
    Python name from a small pool (what a factory / a notebook gives: several different functions called `rate`)"""
    for d in _fns_of(content):
        d["py"] = rng.choice(PYNAMES)
    return content


def gen_session(rng, *, local, rational=False):
    """a model, then an edit of one reaction / derived quantity (new rate law; when `local`, a re-defined function
    of the SAME Python name), converted again on the same Model object"""
    c = gen_content(rng, rational=rational, p_odd=0.0)
    if local:
        localise(rng, c)
    base = [k for k, v in c["vars"]] + [k for k, v in c["pars"] if "v" in v]
    if c["derived"] and rng.random() < 0.4:
        k, old = rng.choice(c["derived"])
        new = _mk(rng, rng.choice(DER_FNS_POLY + (DER_FNS_RAT if rational else [])), base)
        op = "update_derived"
    else:
        k, old = rng.choice(c["rxns"])
        new = _mk(rng, rng.choice(RATE_FNS_POLY + (RATE_FNS_RAT if rational else [])), base)
        op = "update_reaction"
    if "py" in old:
        new["py"] = old["py"]
    return {"content": c, "points": gen_points(rng, c), "then": {"op": op, "name": k, "fn": new}}


def _avail(names):
    out = [n for n in names if n in lib()]
    return out or ["constant"]


def _mk(rng, name, src):
    if name not in lib():
        name = rng.choice(_avail(RATE_FNS_POLY + DER_FNS_POLY))
    ar = len(lib()[name]["args"])
    if len(src) >= ar and rng.random() < 0.8:
        args = rng.sample(src, ar)
    else:
        args = [rng.choice(src) for _ in range(ar)]
    return fn_ref(name, args)


def gen_points(rng, content, n=3):
    return [{"t": str(rng.choice([0, 1, 2])), "x": [str(rng.choice([1, 2, 3, 5])) for _ in content["vars"]]}
            for _ in range(n)]


def reorder(rng, content):
    c = copy.deepcopy(content)
    rng.shuffle(c["derived"])
    return c


def shape_of(content, status) -> str:
    nd = sum(1 for _, r in content["rxns"] for _, c in r["st"] if "c" not in c)
    return (f"v{len(content['vars'])}p{len(content['pars'])}d{len(content['derived'])}r{len(content['rxns'])}"
            f"dc{min(nd, 2)}{'P' if is_poly(content) else 'Q'}-{status}")


# --------------------------------------------------------------------------- corpus (seed-independent)


def corpus():
    def base(**kw):
        c = {"vars": [["v0", {"v": "1"}], ["v1", {"v": "2"}]],
             "pars": [["c0", {"v": "2"}], ["c1", {"v": "3"}]], "derived": [], "rxns": [], "surs": []}
        c.update(kw)
        return c

    def rxn(name, args, st):
        return dict(fn_ref(name, args), st=st)

    builders = [
        # derived declared after its user (F-C12-2 on the pinned tree)
        ("decl-order", lambda: base(
            derived=[["d1", fn_ref("add", ["d0", "v1"])], ["d0", fn_ref("mul", ["c0", "v0"])]],
            rxns=[["r0", rxn("mass_action_1s", ["d1", "c1"], [["v0", {"c": "-1"}], ["v1", {"c": "1"}]])]])),
        # plain Jacobian use (F-C12-1 on the pinned tree)
        ("jac-closure", lambda: base(
            rxns=[["r0", rxn("mass_action_2s", ["v0", "v1", "c0"], [["v0", {"c": "-1"}], ["v1", {"c": "2"}]])],
                  ["r1", rxn("michaelis_menten_1s", ["v1", "c1", "c0"], [["v1", {"c": "-1"}]])]])),
        # state-dependent coefficient with a rate that sympy collapses to an integer (F-C12-3 on the pinned tree)
        ("dyn-coef-int-rate", lambda: base(
            derived=[["d0", fn_ref("minus", ["v0", "v0"])]],
            rxns=[["r0", rxn("constant", ["d0"], [["v0", fn_ref("mul", ["v1", "c0"])], ["v1", {"c": "1"}]])]])),
        # state-dependent coefficient, ordinary rate
        ("dyn-coef", lambda: base(
            rxns=[["r0", rxn("mass_action_1s", ["v0", "c1"], [["v0", fn_ref("mul", ["v1", "c0"])], ["v1", {"c": "1"}]])]])),
        # state-dependent and parameter-computed coefficients whose functions are NOT symmetric in their arguments
        ("dyn-coef-asym", lambda: base(
            rxns=[["r0", rxn("mass_action_1s", ["v0", "c1"], [["v0", fn_ref("minus", ["v1", "c0"])],
                                                                ["v1", fn_ref("moiety_1s", ["c0", "c1"])]])]])),
        # parameter defined by an initial assignment, declared first, not used by any equation
        ("ia-par-unused", lambda: base(
            pars=[["q0", {"ia": fn_ref("twice", ["c0"])}], ["c0", {"v": "2"}], ["c1", {"v": "3"}]],
            rxns=[["r0", rxn("mass_action_1s_1p", ["v0", "v1", "c0", "c1"], [["v0", {"c": "-1"}], ["v1", {"c": "1"}]])]])),
        # variable without a reaction; time as an argument
        ("var-without-eq", lambda: base(
            rxns=[["r0", rxn("mass_action_1s", ["v0", "c0"], [["v0", {"c": "-1"}]])]])),
        ("time-arg", lambda: base(
            rxns=[["r0", rxn("mass_action_1s", ["time", "c0"], [["v0", {"c": "-1"}], ["v1", {"c": "1"}]])]])),
    ]
    out = []
    for tag, build in builders:
        try:
            out.append((tag, build()))
        except KeyError:  # a library function left the translatable fragment (the translator step reports it)
            pass
    pts = [{"t": "0", "x": ["1", "2"]}, {"t": "1", "x": ["3", "5"]}]
    return [{"content": c, "points": pts, "tag": tag} for tag, c in out]


# --------------------------------------------------------------------------- evaluation and verdicts

_pool = None


def pool():
    global _pool
    if _pool is None:
        _pool = mp.get_context("fork").Pool(min(16, os.cpu_count() or 4))
    return _pool


def upd_of(content):
    """the parameter update of the Jacobian-after-update round: first plain parameter, value 2v+1"""
    for k, v in content["pars"]:
        if "v" in v:
            return [k, num(float(Fraction(v["v"])) * 2.0 + 1.0)]
    return None


def _req(content, points):
    r = {"op": "c12", "content": wire_content(content), "points": points}
    u = upd_of(content)
    if u is not None:
        r["upd"] = u
    return r


def evaluate(cases, use_driver=True):
    """-> [(R, M)]; for a session case M["then"] is the model's answer about the content after the edit"""
    Rs = pool().map(real_worker, cases, chunksize=4)
    if use_driver:
        reqs, idx = [], []
        for i, c in enumerate(cases):
            reqs.append(_req(c["content"], c["points"]))
            idx.append((i, False))
            if "then" in c:
                reqs.append(_req(apply_edit(c["content"], c["then"]), c["points"]))
                idx.append((i, True))
        Ms = [None] * len(cases)
        for (i, second), m in zip(idx, driver.call_batch(reqs)):
            if second:
                Ms[i]["then"] = m
            else:
                Ms[i] = m
    else:
        Ms = [None] * len(cases)
    return list(zip(Rs, Ms))


def _snap(r, s, exact):
    """R value list canonicalised against S: equal strings stay; in the rational stratum a value within TOL
    (relative to the largest magnitude in S) is replaced by S's string"""
    if exact or r is None or s is None:
        return r
    flat_s = [Fraction(v) for v in _flat(s)]
    scale = max([1.0] + [abs(float(v)) for v in flat_s])

    def one(rv, sv):
        try:
            if rv in ("nan", "inf", "-inf"):
                return rv
            return sv if abs(float(Fraction(rv)) - float(Fraction(sv))) <= TOL * scale else rv
        except (ValueError, ZeroDivisionError):
            return rv

    def go(a, b):
        if isinstance(a, list) and isinstance(b, list) and len(a) == len(b):
            return [go(x, y) for x, y in zip(a, b)]
        if isinstance(a, str) and isinstance(b, str):
            return one(a, b)
        return a

    return go(r, s)


def _flat(x):
    if isinstance(x, list):
        for y in x:
            yield from _flat(y)
    else:
        yield x


def _status(r):
    return "ok" if "ok" in r else "err"


def judge_case(ctx, case, R, M, content=None, step=""):
    """`content` = the content R and M are about (for the second step of a session: after the edit); the replay
    is always the whole case"""
    content = content or case["content"]
    extra = {"then": case["then"]} if "then" in case else {}
    sub = {"content": case["content"], "points": case["points"], **extra}
    if "build" in R:
        # the generator only emits models the numeric code accepts; a model that does not build says nothing
        ctx.hist["skipped_build_" + R["build"]["err"][0]] = ctx.hist.get("skipped_build_" + R["build"]["err"][0], 0) + 1
        return
    S_status = should_convert(content)
    exact = is_poly(content)
    ctx.count(sub, shape_of(content, S_status), nontrivial=True)
    m_status = None if M is None else _status(M["sym"])
    # 1. conversion status: order-free oracle vs real vs model
    ctx.judge(sub, _status(R["sym"]), S_status, m_status, what="to_symbolic_model converts / raises")
    if M is not None and R["sym"] != M["sym"] and _status(R["sym"]) == m_status == "err":
        ctx.add_drift(sub, R["sym"], M["sym"], "exception raised by to_symbolic_model")
    if M is not None and M["wf"] and M["convertible"]:
        ctx.hist["lean_convertible"] = ctx.hist.get("lean_convertible", 0) + 1
        if m_status != "ok" or S_status != "ok":
            ctx.violation(sub, {"M": M["sym"], "S": S_status}, "SContent.convertible holds but the conversion fails")
    if "var_order" in R:
        decl = [k for k, _ in content["vars"]]
        ctx.judge(sub, R["var_order"], {"symbolic": decl, "model": decl, "initial_conditions": decl},
                  None if M is None or "ok" not in M["jacargs"] else
                  {"symbolic": M["jacargs"]["ok"][0], "model": M["jacargs"]["ok"][0], "initial_conditions": M["jacargs"]["ok"][0]},
                  what="variable order: symbolic variables = equations = numeric model = declaration order")
    # 2. the simulator: a Jacobian exactly when the conversion works, a warning otherwise
    present = R.get("jacfn_present")
    if not isinstance(present, bool):
        if isinstance(present, dict) and present.get("err", [None])[0] == "ZeroDivisionError":
            # the simulator's test run divides by zero at the initial state: outside the model (as at build time)
            ctx.hist["skipped_simulator_ZeroDivisionError"] = ctx.hist.get("skipped_simulator_ZeroDivisionError", 0) + 1
            return
        ctx.violation(sub, present, "Simulator(use_jacobian=True) raised")
        return
    ctx.judge(sub, present, S_status == "ok", None if M is None else M["has_jac"],
              what="Simulator(use_jacobian=True) compiles a Jacobian iff the model converts")
    if not present and not R.get("warned"):
        ctx.violation(sub, R, "fell back to no Jacobian without a warning")
    upd = R.get("jacfn_upd")
    if isinstance(upd, dict):
        ctx.violation(sub, upd, "evaluating the compiled Jacobian after Simulator.update_parameter raised")
    elif isinstance(upd, str):
        ctx.hist["jacfn_after_update_skipped"] = ctx.hist.get("jacfn_after_update_skipped", 0) + 1
    elif upd:
        for i, u in enumerate(upd):
            def fl(mtx):
                return [float("nan") if v in ("nan", "inf", "-inf") else float(Fraction(v)) for row in mtx for v in row]

            if isinstance(u["closure"], str) or isinstance(u["fresh"], str):
                if u["closure"] != u["fresh"]:
                    ctx.violation({"content": case["content"], "points": [case["points"][i]], **extra}, u,
                                  "compiled Jacobian and fresh symbolic Jacobian disagree on definedness after update_parameter")
                    break
                continue
            if M is not None and R.get("upd") == upd_of(content):
                mp_u = M["points"][i]
                if mp_u["jacfn_fresh"] is not None and "ok" in mp_u["jacfn_fresh"] and mp_u["jacfn_fresh"]["ok"] is not None:
                    s_u = mp_u["jacfn_fresh"]["ok"]
                    m_u = mp_u["jacfn_upd"]
                    ctx.judge({"content": case["content"], "points": [case["points"][i]], **extra},
                              _snap(u["closure"], s_u, exact), s_u, m_u["ok"] if m_u and "ok" in m_u else m_u,
                              what="installed Jacobian closure called after Simulator.update_parameter = D of the updated model")
                    ctx.hist["jacfn_after_update_vs_model"] = ctx.hist.get("jacfn_after_update_vs_model", 0) + 1
            a, b = fl(u["closure"]), fl(u["fresh"])
            if len(a) != len(b) or any(not (abs(x - y) <= 1e-9 * max(1.0, abs(x), abs(y))) for x, y in zip(a, b)):
                ctx.violation({"content": case["content"], "points": [case["points"][i]], **extra}, u,
                              "compiled Jacobian does not follow Simulator.update_parameter (stale parameter values)")
                break
        ctx.hist["jacfn_after_update_checked"] = ctx.hist.get("jacfn_after_update_checked", 0) + 1
    # 3. values
    for i, p in enumerate(case["points"]):
        psub = {"content": case["content"], "points": [p], **extra}
        mp_ = None if M is None else M["points"][i]
        # numeric right-hand side: real vs numeric core (C01's tie, repeated on these models)
        # a point at which a denominator of the (specification's) equations vanishes is outside the model: Python raises
        # ZeroDivisionError or, in floats, divides by a rounding residue (huge values where exact arithmetic has 0/0)
        # (the numeric core is C01's subject; here it is compared only where the order-free specification has values:
        # the model converts and no denominator vanishes -- for a model that does not convert nothing tells a vanishing
        # denominator from a real difference)
        zero_den = mp_ is not None and mp_["s"] is None
        if zero_den and not exact:
            ctx.hist["numeric_rhs_not_judged_rational_without_spec_values"] = \
                ctx.hist.get("numeric_rhs_not_judged_rational_without_spec_values", 0) + 1
        if mp_ is not None and not (zero_den and not exact):
            r_rhs = R["rhs"][i]
            s_rhs = mp_["rhs"] if "ok" in mp_["rhs"] else {"err": [mp_["rhs"]["err"][0]] + mp_["rhs"]["err"][1:2]}
            if "ok" in r_rhs and "ok" in s_rhs:
                ctx.judge(psub, _snap(r_rhs["ok"], s_rhs["ok"], exact), s_rhs["ok"], None, what="numeric right-hand side")
        if "ok" not in R["sym"] or not R["points"]:
            continue
        rp = R["points"][i]
        if mp_ is None:
            sv = mv = None
        else:
            sv, mv = mp_["s"], mp_["m"]
        if mp_ is not None and sv is None:
            ctx.hist["point_skipped_zero_denominator"] = ctx.hist.get("point_skipped_zero_denominator", 0) + 1
            continue
        if "err" in rp:
            ctx.violation(psub, rp, "evaluating the lambdified equations / Jacobian raised")
            continue
        if sv is not None:
            # the specification's equations are the numeric derivatives (inside Lean: theorem C12_eqs_sound)
            if "ok" in mp_["rhs"] and mp_["rhs"]["ok"] != sv["eqs"]:
                ctx.violation(psub, {"spec": sv["eqs"], "core": mp_["rhs"]}, "Lean specification differs from numeric core")
            ctx.judge(psub, _snap(rp["eqs"], sv["eqs"], exact), sv["eqs"], None if mv is None else mv["eqs"],
                      what="symbolic equations evaluated = numeric derivatives")
            ctx.judge(psub, _snap(rp["jac"], sv["jac"], exact), sv["jac"], None if mv is None else mv["jac"],
                      what="sympy Jacobian = formal derivative D of the equations")
            if present and R["jacfn"]:
                rj = R["jacfn"][i]
                mj = mp_["jacfn"]
                mjv = mj["ok"] if "ok" in mj else mj
                if "ok" in rj:
                    ctx.judge(psub, _snap(rj["ok"], sv["jac"], exact), sv["jac"], mjv,
                              what="compiled Jacobian closure of the simulator")
                else:
                    ctx.judge(psub, rj, sv["jac"], mjv, what="compiled Jacobian closure of the simulator")


def judge_all(ctx, case, R, M):
    judge_case(ctx, case, R, M)
    if "then" in case and "then" in R:
        ctx.hist["session_second_step"] = ctx.hist.get("session_second_step", 0) + 1
        judge_case(ctx, case, R["then"], None if M is None else M.get("then"),
                   content=apply_edit(case["content"], case["then"]), step="after edit")


def judge_traj(ctx, case, T_):
    sub = {"content": case["content"], "t_end": case["t_end"]}
    used = 0
    # well-posedness gate (uses the runs WITHOUT Jacobian only): the methods must agree among themselves,
    # otherwise the trajectory passes a pole / blows up and no two solver configurations agree
    plain = [row[False]["ok"] for row in T_.values() if "ok" in row[False]]
    if len(plain) < 2:
        ctx.hist["traj_skipped_not_two_methods"] = ctx.hist.get("traj_skipped_not_two_methods", 0) + 1
        return 0
    scale0 = max([1.0] + [abs(v) for p_ in plain for col in p_ for v in col])
    spread = max([0.0] + [abs(x - y) for p_ in plain[1:] for ca, cb in zip(plain[0], p_) for x, y in zip(ca, cb)])
    if not spread <= TRAJ_TOL * scale0:
        ctx.hist["traj_skipped_ill_conditioned"] = ctx.hist.get("traj_skipped_ill_conditioned", 0) + 1
        return 0
    for meth, row in T_.items():
        a, b = row[False], row[True]
        if any("err" in r and r["err"][0] == "Budget" for r in (a, b)):
            ctx.hist["traj_skipped_budget"] = ctx.hist.get("traj_skipped_budget", 0) + 1
            continue
        if "ok" not in a:
            ctx.hist["traj_skipped_" + a["err"][0]] = ctx.hist.get("traj_skipped_" + a["err"][0], 0) + 1
            continue
        if "ok" not in b:
            ctx.judge(dict(sub, method=meth), b, {"ok": "same trajectory"}, None,
                      what=f"simulate with use_jacobian=True, method {meth}")
            continue
        scale = max([1.0] + [abs(v) for col in a["ok"] for v in col])
        worst = max([0.0] + [abs(x - y) for ca, cb in zip(a["ok"], b["ok"]) for x, y in zip(ca, cb)])
        ctx.judge(dict(sub, method=meth), "same" if worst <= TRAJ_TOL * scale else f"differs by {worst:.3g}", "same",
                  None, what=f"trajectory with vs without Jacobian, method {meth}")
        if b["calls"]:
            used += 1
            ctx.hist[f"traj_{meth}_jacobian_called"] = ctx.hist.get(f"traj_{meth}_jacobian_called", 0) + 1
        ctx.hist[f"traj_{meth}"] = ctx.hist.get(f"traj_{meth}", 0) + 1
    return used


def setup(ctx):
    ctx.translate(T.generate)
    ctx.build(PROPS)
    ctx.rule = (
        "models built from the shipped rate-law library mxlpy.fns (1-4 variables, 1-4 parameters, 0-5 derived "
        "quantities in chains, 1-4 reactions with numeric / parameter-computed / state-dependent coefficients; a "
        "quarter 'odd': time or a reaction as argument, initial-assignment parameters/variables, variable without "
        "reaction, surrogate) with derived, reactions and parameters in shuffled declaration order, each also in a "
        "second derived order; 3 integer states each; distinct = distinct (content, points); all counted non-trivial"
    )
    ctx.assumptions += [
        "fn_to_sympy translates each library function to the expression translate/c12.py reads off fns.py (C06's subject); "
        "checked indirectly: numeric real code vs Lean bodies at every point",
        "sympy substitution/simplification/differentiation/lambdify and scipy's stiff solvers are exercised, not modelled",
        "division by zero is outside the model (points where a denominator vanishes are skipped)",
        "function arities match (the generator matches them; ArityMismatchError is not modelled)",
    ]
    ctx.trusted_base += ["translate/c12.py renders fns.py bodies (single return; + - * / ** literal) faithfully; refuses else"]


def run(ctx):
    setup(ctx)
    rng = ctx.rng
    cases = corpus()
    n = ctx.n(260, 4000)
    if not ctx.proof_ok and ctx.tier == "quick":
        n = 1000  # a proof / translator obligation is broken: widen the failing-input search
    gen = []
    for i in range(n):
        c = gen_content(rng, rational=(i % 3 == 2))
        gen.append({"content": c, "points": gen_points(rng, c)})
        if c["derived"] and len(c["derived"]) > 1:
            c2 = reorder(rng, c)
            gen.append({"content": c2, "points": gen[-1]["points"]})
    cases += gen
    # user-defined functions sharing Python names, and sessions (edit, convert again on the same object)
    for i in range(ctx.n(40, 600)):
        c = localise(rng, gen_content(rng, rational=(i % 3 == 2), p_odd=0.1))
        cases.append({"content": c, "points": gen_points(rng, c)})
    for i in range(ctx.n(40, 600)):
        cases.append(gen_session(rng, local=(i % 2 == 0), rational=(i % 3 == 2)))
    if not ctx.proof_ok:
        ctx.notes.append("proof broken: the run below is the failing-input search")
    B = 128
    for i in range(0, len(cases), B):
        chunk = cases[i:i + B]
        for case, (R, M) in zip(chunk, evaluate(chunk, ctx.driver_ok)):
            judge_all(ctx, case, R, M)
        if len(ctx.violations) > 20:
            break
    history_stratum(ctx, rng)
    substitution_stratum(ctx, rng)
    piecewise_stratum(ctx)
    # trajectories: quick = the two corpus models that convert; thorough = generated ones incl. stiff
    tcases = [dict(c, t_end=2) for c in corpus() if c["tag"] in ("jac-closure", "decl-order")]
    if ctx.tier == "thorough":
        for i in range(150):
            c = gen_content(rng, rational=(i % 2 == 0), p_odd=0.0, stiff=(i % 3 == 0))
            if should_convert(c) == "ok":
                tcases.append({"content": c, "points": [], "t_end": 1 if i % 3 == 0 else 2})
    used = 0
    ctx.extra_cov["wall_s_before_trajectories"] = round(time.time() - ctx.t0, 1)
    for case, T_ in zip(tcases, pool().map(traj_worker, tcases, chunksize=1)):
        used += judge_traj(ctx, case, T_)
    ctx.extra_cov["trajectory_runs_in_which_the_Jacobian_was_called"] = used
    if used == 0:
        ctx.violation({"trajectories": len(tcases)}, "no trajectory run ever called the Jacobian", "trajectory stratum is vacuous")


# --------------------------------------------------------------------------- symbol substitution (substSym vs sympy)

SUB_SYMS = ["a", "b", "c", "d"]


def gen_symexpr(rng, depth):
    if depth == 0 or rng.random() < 0.25:
        if rng.random() < 0.7:
            return ["s", rng.choice(SUB_SYMS)]
        return ["c", str(rng.choice([0, 1, 2, 3, -1, "1/2", "3/2"]))]
    r = rng.random()
    if r < 0.6:
        return [rng.choice(["+", "-", "*"]), gen_symexpr(rng, depth - 1), gen_symexpr(rng, depth - 1)]
    if r < 0.75:
        return ["/", gen_symexpr(rng, depth - 1), gen_symexpr(rng, depth - 1)]
    if r < 0.85:
        return ["neg", gen_symexpr(rng, depth - 1)]
    return ["pow", gen_symexpr(rng, depth - 1), rng.choice([0, 1, 2, 3])]


def _sym_to_sympy(e):
    import sympy

    t = e[0]
    if t == "s":
        return sympy.Symbol(e[1])
    if t == "c":
        q = Fraction(e[1])
        return sympy.Rational(q.numerator, q.denominator)
    if t == "neg":
        return -_sym_to_sympy(e[1])
    if t == "pow":
        return _sym_to_sympy(e[1]) ** e[2]
    a, b = _sym_to_sympy(e[1]), _sym_to_sympy(e[2])
    return {"+": a + b, "-": a - b, "*": a * b, "/": a / b}[t]


class _Undef(Exception):
    pass


def _sym_eval(e, env):
    """own evaluator over Fractions; a vanishing denominator anywhere -> _Undef (like `denOKb`)"""
    t = e[0]
    if t == "s":
        return env[e[1]]
    if t == "c":
        return Fraction(e[1])
    if t == "neg":
        return -_sym_eval(e[1], env)
    if t == "pow":
        return _sym_eval(e[1], env) ** e[2]
    a, b = _sym_eval(e[1], env), _sym_eval(e[2], env)
    if t == "/":
        if b == 0:
            raise _Undef
        return a / b
    return {"+": a + b, "-": a - b, "*": a * b}[t]


def subst_worker(case):
    """R = sympy: `expr.subs(sigma, simultaneous=True)` evaluated exactly at the environments"""
    import sympy

    e = _sym_to_sympy(case["e"])
    sig = {sympy.Symbol(k): _sym_to_sympy(v) for k, v in case["sigma"]}
    try:
        r = e.subs(sig, simultaneous=True)
    except Exception as ex:  # noqa: BLE001
        return {"err": type(ex).__name__}
    out = []
    for env in case["envs"]:
        try:
            v = r.subs({sympy.Symbol(k): sympy.Rational(Fraction(q).numerator, Fraction(q).denominator) for k, q in env},
                       simultaneous=True)
            v = sympy.nsimplify(v) if not v.is_Rational else v
            out.append(rat_str(Fraction(int(v.p), int(v.q))) if v.is_Rational else str(v))
        except Exception as ex:  # noqa: BLE001
            out.append("err:" + type(ex).__name__)
    return {"vals": out}


def substitution_stratum(ctx, rng):
    """`substSym` (Model/C12Sym.lean, theorem C12_subst_syms) behind the driver against sympy's simultaneous substitution:
    random expressions over four symbols, substitutions that permute symbols or replace them by expressions mentioning
    the others, exact evaluation.  S = the substitution lemma itself: e evaluated where every symbol n has the value of
    sigma(n)."""
    cases = []
    fixed = [
        (["-", ["s", "a"], ["s", "b"]], [["a", ["s", "b"]], ["b", ["s", "a"]]]),
        (["/", ["s", "a"], ["+", ["s", "b"], ["s", "c"]]], [["a", ["*", ["s", "b"], ["s", "c"]]], ["b", ["s", "a"]], ["c", ["s", "b"]]]),
        (["pow", ["+", ["s", "a"], ["s", "d"]], 2], [["a", ["s", "d"]], ["d", ["neg", ["s", "a"]]]]),
    ]
    for e, sg in fixed:
        cases.append({"e": e, "sigma": sg})
    for _ in range(ctx.n(150, 3000)):
        e = gen_symexpr(rng, rng.randint(1, 4))
        ks = rng.sample(SUB_SYMS, rng.randint(1, 4))
        if rng.random() < 0.4:
            perm = ks[:]
            rng.shuffle(perm)
            sg = [[k, ["s", p]] for k, p in zip(ks, perm)]
        else:
            sg = [[k, gen_symexpr(rng, rng.randint(0, 2))] for k in ks]
        cases.append({"e": e, "sigma": sg})
    for c in cases:
        c["envs"] = [[[k, str(rng.choice([1, 2, 3, 5, -1, "1/2", 7]))] for k in SUB_SYMS] for _ in range(3)]
    Rs = pool().map(subst_worker, cases, chunksize=16)
    Ms = driver.call_batch([{"op": "c12", "subst": c} for c in cases]) if ctx.driver_ok else [None] * len(cases)
    for c, R, M in zip(cases, Rs, Ms):
        sg = dict((k, v) for k, v in c["sigma"])
        ctx.count(c, f"substitution-{len(c['sigma'])}", True)
        for i, env in enumerate(c["envs"]):
            ev = {k: Fraction(q) for k, q in env}
            try:
                env2 = {k: (_sym_eval(sg[k], ev) if k in sg else ev[k]) for k in SUB_SYMS}
                s_ = rat_str(_sym_eval(c["e"], env2))
            except _Undef:
                ctx.hist["subst_point_skipped_zero_denominator"] = ctx.hist.get("subst_point_skipped_zero_denominator", 0) + 1
                continue
            m_ = None if M is None else M["vals"][i]
            if "err" in R:
                ctx.violation(dict(c, envs=[env]), R, "sympy substitution raised")
                continue
            r_ = R["vals"][i]
            if m_ is None and M is not None:
                # the substituted expression has a vanishing denominator that sympy cancelled (x/x): more defined, skip
                ctx.hist["subst_point_model_undefined"] = ctx.hist.get("subst_point_model_undefined", 0) + 1
                continue
            ctx.hist["subst_point_judged"] = ctx.hist.get("subst_point_judged", 0) + 1
            ctx.judge(dict(c, envs=[env]), r_, s_, m_, what="symbol substitution: sympy subs(simultaneous) = substSym = e at sigma's values")


def history_stratum(ctx, rng):
    """Simulator histories (state machine of Model/C12Sim.lean, theorem C12_sim_history): fixed histories on the corpus
    models first (seed-independent), then generated ones"""
    cases = []
    fixed = [
        [["call", "0", None], ["set", None, "7", "update_parameter", None], ["call", "0", None],
         ["set", None, "ORIG", "update_parameters", None], ["call", "0", None], ["reinit", "clear_results"], ["call", "1", None]],
        [["set", None, "3", "model", None], ["call", "0", None], ["reinit", "update_variable"],
         ["set", None, "SCALE2", "scale_parameter", "2"], ["call", "2", None], ["set", None, "SCALE4", "scale_parameters", "1/2"],
         ["call", "0", None]],
    ]
    for c in corpus():
        # F-C12-5's shape: a reaction gets another rate law through `sim.model`, then the integrator calls the Jacobian
        cc = c["content"]
        if cc["rxns"] and should_convert(cc) == "ok" and all("py" not in f for f in _fns_of(cc)):
            k, r = cc["rxns"][0]
            plainp = [x for x, v in cc["pars"] if "v" in v]
            base = [x for x, _ in cc["vars"]] + plainp
            new = fn_ref("mass_action_2s", [base[0], base[-1], base[0]])
            pt = ["2" for _ in cc["vars"]]
            cases.append({"content": cc, "hist": [["call", "0", pt], ["edit", {"op": "update_reaction", "name": k, "fn": new}],
                                                  ["call", "0", pt], ["reinit", "clear_results"], ["call", "1", pt]]})
            # a recompilation that fails (the edited model takes `time`), the call repeated, then a model that converts again
            bad = fn_ref("mass_action_1s", [base[0], "time"])
            cases.append({"content": cc, "hist": [["edit", {"op": "update_reaction", "name": k, "fn": bad}], ["call", "0", pt],
                                                  ["call", "0", pt],
                                                  *([["set", plainp[-1], "3", "update_parameter", None]] if plainp else []),
                                                  ["call", "0", pt],
                                                  ["edit", {"op": "update_reaction", "name": k, "fn": new}], ["call", "1", pt]]})
        plain = [(k, v["v"]) for k, v in c["content"]["pars"] if "v" in v]
        if not plain:
            continue
        k, orig = plain[0]
        for h in fixed:
            cur = Fraction(orig)
            ops = []
            for op in h:
                op = list(op)
                if op[0] == "call":
                    op[2] = ["2" for _ in c["content"]["vars"]]
                elif op[0] == "set":
                    op[1] = k
                    if op[2] == "ORIG":
                        cur = Fraction(orig)
                    elif op[2].startswith("SCALE"):
                        cur = cur * Fraction(op[4])
                    else:
                        cur = Fraction(op[2])
                    op[2] = num(cur)
                ops.append(op)
            cases.append({"content": c["content"], "hist": ops})
    for i in range(ctx.n(70, 1500)):
        c = gen_content(rng, rational=(i % 3 != 0), p_odd=0.15)
        cases.append({"content": c, "hist": gen_hist(rng, c, rng.randint(3, 9))})
    Rs = pool().map(hist_worker, cases, chunksize=4)
    Ms = driver.call_batch([hist_req(c) for c in cases]) if ctx.driver_ok else [None] * len(cases)
    for case, R, M in zip(cases, Rs, Ms):
        judge_hist(ctx, case, R, M)
        if len(ctx.violations) > 20:
            break


def piecewise_stratum(ctx):
    """oracle-only (M = None): models whose rate laws switch on comparisons, evaluated exactly at, just below and
    just above every threshold; the lambdified symbolic equations must equal the numeric right-hand side"""
    import itertools

    import sympy

    from mxlpy import Model
    from mxlpy.symbolic import to_symbolic_model

    from . import c12_pwlib as L

    specs = [(L.pw_le, 1), (L.pw_lt, 1), (L.pw_ge, 1), (L.pw_gt, 1), (L.pw_window, 2), (L.pw_window2, 2), (L.pw_elif, 2),
             (L.pw_rebind, 1), (L.pw_rebind_arg, 1), (L.pw_rebind_tmp, 2), (L.pw_rebind_elif, 2)]
    for (fn, nthr), (lo, hi, k) in itertools.product(specs, [(1.0, 3.0, 2.0), (2.0, 5.0, 0.5), (0.0, 4.0, 3.0)]):
        m = Model().add_variable("x", 1.0).add_variable("y", 0.0).add_parameter("k", k).add_parameter("lo", lo)
        m.add_parameter("hi", hi)
        args = ["x", "lo", "k"] if nthr == 1 else ["x", "lo", "hi", "k"]
        m.add_reaction("r", fn=fn, args=args, stoichiometry={"x": -1.0, "y": 1.0})
        case = {"piecewise": fn.__name__, "lo": lo, "hi": hi, "k": k}
        try:
            sm = to_symbolic_model(m)
        except Exception as e:  # noqa: BLE001  refusing is allowed by the property
            ctx.hist["piecewise_refused"] = ctx.hist.get("piecewise_refused", 0) + 1
            continue
        vs, ps = list(sm.variables.values()), list(sm.parameters.values())
        pv = [float(sm.parameter_values[q]) for q in sm.parameters]
        f = sympy.lambdify((vs, ps), sympy.Matrix(sm.eqs))
        for x in sorted({lo - 1, lo, lo + 1, hi - 1, hi, hi + 1, (lo + hi) / 2}):
            num_ = [float(v) for v in m(0.0, [x, 0.0])]
            import numpy as np

            sym_ = [float(v) for v in np.asarray(f([x, 0.0], pv), dtype=float).ravel()]
            sub = dict(case, x=x)
            ctx.count(sub, "piecewise-boundary", True)
            ctx.judge(sub, [num(v) for v in sym_], [num(v) for v in num_], None,
                      what="symbolic equations = numeric derivatives at a comparison threshold (oracle-only stratum)")


def replay(ctx, rp):
    case = rp["case"]
    if "sigma" in case:
        R = subst_worker(case)
        M = driver.call_batch([{"op": "c12", "subst": case}])[0] if ctx.driver_ok else None
        print("R =", R, "\nM =", M)
        return
    if "hist" in case:
        case = {"content": case["content"], "hist": case["hist"]}
        R = hist_worker(case)
        M = driver.call_batch([hist_req(case)])[0] if ctx.driver_ok else None
        print("R =", R, "\nM =", None if M is None else M["hist"])
        judge_hist(ctx, case, R, M)
        return
    if "t_end" in case:
        T_ = traj_worker(case)
        print("T =", T_)
        judge_traj(ctx, case, T_)
        return
    case.setdefault("points", [])
    (R, M), = evaluate([case], ctx.driver_ok)
    print("R =", R, "\nM =", M, "\nS(status) =", should_convert(case["content"]))
    judge_all(ctx, case, R, M)
