"""C03 — independent restatement of the name-space rules (search oracle for the OUTCOME of an edit).

It knows nothing about caches, ids or statement order: a model is seven sets of names plus the output
names of each surrogate; all of them live in one name space together with the reserved word "time".
  add       : rejected (NameError; KeyError for "time") iff one of the names it introduces is taken
  remove    : rejected (KeyError) iff the name is not a component of that kind
  update    : rejected (KeyError) iff the name is not a component of that kind; an updated surrogate may
              keep its own outputs, new outputs must be free
  plural    : the elements in order; the first rejected element decides
Returns None where the outcome also depends on numbers (scale_parameter on an assignment-defined value).
"""
from __future__ import annotations

from .c03ops import PLURAL, singular_ops

ADD = {"add_parameter": "pars", "add_variable": "vars", "add_derived": "derived", "add_reaction": "rxns",
       "add_readout": "readouts", "add_data": "data"}
REMOVE = {"remove_parameter": "pars", "remove_variable": "vars", "remove_derived": "derived",
          "remove_reaction": "rxns", "remove_readout": "readouts", "remove_data": "data"}
UPDATE = {"update_parameter": "pars", "update_variable": "vars", "update_derived": "derived",
          "update_reaction": "rxns", "update_data": "data"}


class Names:
    def __init__(self, content):
        self.sets = {k: [n for n, _ in content.get(k, [])] for k in
                     ("vars", "pars", "derived", "readouts", "rxns", "surs", "data")}
        self.outs = {n: list(s["outs"]) for n, s in content.get("surs", [])}
        self.ia = {n for n, v in content.get("pars", []) if "ia" in v}
        self.fluxes = set(self.sets["rxns"])
        for _, s in content.get("surs", []):
            self.fluxes |= {f for f, st in s["st"] if st}

    def taken(self):
        t = set()
        for v in self.sets.values():
            t |= set(v)
        for o in self.outs.values():
            t |= set(o)
        return t

    def introduce(self, names, allowed=()):
        """first problem when introducing `names` in order, else None"""
        taken = self.taken() - set(allowed)
        seen = set()
        for n in names:
            if n == "time":
                return "KeyError"
            if n in taken or n in seen:
                return "NameError"
            seen.add(n)
        return None

    def step(self, op):
        """outcome of a non-plural edit; updates the name sets when it is accepted"""
        k, n = op[0], op[1]
        if k in ADD:
            bad = self.introduce([n])
            if bad:
                return bad
            self.sets[ADD[k]].append(n)
            if k == "add_parameter" and "ia" in op[2]:
                self.ia.add(n)
            return "ok"
        if k in REMOVE:
            if n not in self.sets[REMOVE[k]]:
                return "KeyError"
            self.sets[REMOVE[k]].remove(n)
            self.ia.discard(n)
            return "ok"
        if k in UPDATE:
            if n not in self.sets[UPDATE[k]]:
                return "KeyError"
            if k == "update_parameter" and op[2] is not None:
                (self.ia.add if "ia" in op[2] else self.ia.discard)(n)
            return "ok"
        if k == "scale_parameter":
            if n not in self.sets["pars"]:
                return "KeyError"
            if n in self.ia:
                self.ia.discard(n)
                return None
            return "ok"
        if k == "make_parameter_dynamic":
            if n not in self.sets["pars"]:
                return "KeyError"
            if op[3] is not None and any(f not in self.fluxes for f, _ in op[3]):
                return "KeyError"
            self.sets["pars"].remove(n)
            self.ia.discard(n)
            self.sets["vars"].append(n)
            return "ok"
        if k == "make_variable_static":
            if n not in self.sets["vars"]:
                return "KeyError"
            self.sets["vars"].remove(n)
            self.sets["pars"].append(n)
            return "ok"
        if k == "add_surrogate":
            bad = self.introduce([n, *op[2]["outs"]])
            if bad:
                return bad
            self.sets["surs"].append(n)
            self.outs[n] = list(op[2]["outs"])
            return "ok"
        if k == "update_surrogate":
            if n not in self.sets["surs"]:
                return "KeyError"
            new = op[4] if op[4] is not None else (op[2]["outs"] if op[2] is not None else self.outs[n])
            bad = self.introduce(new, allowed=self.outs[n])
            if bad:
                return bad
            self.outs[n] = list(new)
            return "ok"
        if k == "remove_surrogate":
            if n not in self.sets["surs"]:
                return "KeyError"
            self.sets["surs"].remove(n)
            self.outs.pop(n)
            return "ok"
        raise ValueError(op)


def expected_outcome(content, op):
    ns = Names(content)
    if op[0] in PLURAL:
        unknown = False
        for el in singular_ops(op):
            r = ns.step(el)
            if r is None:
                unknown = True
            elif r != "ok":
                return None if unknown else r
        return None if unknown else "ok"
    return ns.step(op)
