"""C03 — independent restatement of the name-space rules (search oracle for the OUTCOME of an edit).

It knows nothing about caches, ids or statement order: a model is seven sets of names plus the output
names of each surrogate; all of them live in one name space together with the reserved word "time".
  add       : rejected (NameError; KeyError for "time") iff one of the names it introduces is taken
  remove    : rejected (KeyError) iff the name is not a component of that kind
  update    : rejected (KeyError) iff the name is not a component of that kind; an updated surrogate may
              keep its own outputs, new outputs must be free
  plural    : the elements in order; the first rejected element decides
Returns None where the outcome also depends on numbers (scale_parameter on an assignment-defined value).
"""
from __future__ import annotations

from .c03ops import PLURAL, bare_parts, default_sig, singular_ops, val_with_sig, with_sig

ADD = {"add_parameter": "pars", "add_variable": "vars", "add_derived": "derived", "add_reaction": "rxns",
       "add_readout": "readouts", "add_data": "data"}
REMOVE = {"remove_parameter": "pars", "remove_variable": "vars", "remove_derived": "derived",
          "remove_reaction": "rxns", "remove_readout": "readouts", "remove_data": "data"}
UPDATE = {"update_parameter": "pars", "update_variable": "vars", "update_derived": "derived",
          "update_reaction": "rxns", "update_data": "data"}


class Names:
    def __init__(self, content):
        self.sets = {k: [n for n, _ in content.get(k, [])] for k in
                     ("vars", "pars", "derived", "readouts", "rxns", "surs", "data")}
        self.outs = {n: list(s["outs"]) for n, s in content.get("surs", [])}
        self.ia = {n for n, v in content.get("pars", []) if "ia" in v}
        self.fluxes = set(self.sets["rxns"])
        for _, s in content.get("surs", []):
            self.fluxes |= {f for f, st in s["st"] if st}

    def taken(self):
        t = set()
        for v in self.sets.values():
            t |= set(v)
        for o in self.outs.values():
            t |= set(o)
        return t

    def introduce(self, names, allowed=()):
        """first problem when introducing `names` in order, else None"""
        taken = self.taken() - set(allowed)
        seen = set()
        for n in names:
            if n == "time":
                return "KeyError"
            if n in taken or n in seen:
                return "NameError"
            seen.add(n)
        return None

    def step(self, op):
        """outcome of a non-plural edit; updates the name sets when it is accepted"""
        k, n = op[0], op[1]
        if k in ADD:
            bad = self.introduce([n])
            if bad:
                return bad
            self.sets[ADD[k]].append(n)
            if k == "add_parameter" and "ia" in op[2]:
                self.ia.add(n)
            return "ok"
        if k in REMOVE:
            if n not in self.sets[REMOVE[k]]:
                return "KeyError"
            self.sets[REMOVE[k]].remove(n)
            self.ia.discard(n)
            return "ok"
        if k in UPDATE:
            if n not in self.sets[UPDATE[k]]:
                return "KeyError"
            if k == "update_parameter" and op[2] is not None:
                (self.ia.add if "ia" in op[2] else self.ia.discard)(n)
            return "ok"
        if k == "scale_parameter":
            if n not in self.sets["pars"]:
                return "KeyError"
            if n in self.ia:
                self.ia.discard(n)
                return None
            return "ok"
        if k == "make_parameter_dynamic":
            if n not in self.sets["pars"]:
                return "KeyError"
            if op[3] is not None and any(f not in self.fluxes for f, _ in op[3]):
                return "KeyError"
            self.sets["pars"].remove(n)
            self.ia.discard(n)
            self.sets["vars"].append(n)
            return "ok"
        if k == "make_variable_static":
            if n not in self.sets["vars"]:
                return "KeyError"
            self.sets["vars"].remove(n)
            self.sets["pars"].append(n)
            return "ok"
        if k == "add_surrogate":
            bad = self.introduce([n, *op[2]["outs"]])
            if bad:
                return bad
            self.sets["surs"].append(n)
            self.outs[n] = list(op[2]["outs"])
            return "ok"
        if k == "update_surrogate":
            if n not in self.sets["surs"]:
                return "KeyError"
            new = op[4] if op[4] is not None else (op[2]["outs"] if op[2] is not None else self.outs[n])
            bad = self.introduce(new, allowed=self.outs[n])
            if bad:
                return bad
            self.outs[n] = list(new)
            return "ok"
        if k == "remove_surrogate":
            if n not in self.sets["surs"]:
                return "KeyError"
            self.sets["surs"].remove(n)
            self.outs.pop(n)
            return "ok"
        raise ValueError(op)


def effective(op):
    """the keyword form of add_surrogate says the same as the plain form with the overridden surrogate"""
    if op[0] == "add_surrogate" and len(op) > 3:
        d = dict(op[2])
        if op[3] is not None:
            d["args"] = op[3]
        if op[4] is not None:
            d["outs"] = op[4]
        if op[5] is not None:
            d["st"] = op[5]
        return [op[0], op[1], d]
    return op


def expected_outcome(content, op):
    op = effective(op)
    ns = Names(content)
    if op[0] in PLURAL:
        unknown = False
        for el in singular_ops(op):
            r = ns.step(el)
            if r is None:
                unknown = True
            elif r != "ok":
                return None if unknown else r
        return None if unknown else "ok"
    return ns.step(op)


# --------------------------------------------------------------------------- documented effect on the content


def _strip(c, n):
    for _, r in c["rxns"]:
        r["st"] = [kv for kv in r["st"] if kv[0] != n]
    for _, s in c["surs"]:
        for fs in s["st"]:
            fs[1] = [kv for kv in fs[1] if kv[0] != n]


def _put(lst, n, v):
    for kv in lst:
        if kv[0] == n:
            kv[1] = v
            return
    lst.append([n, v])


def _get(lst, n):
    return next(v for k, v in lst if k == n)


def _drop(c, kind, n):
    c[kind] = [kv for kv in c[kind] if kv[0] != n]


def _scaled(c, n, factor):
    """current value of parameter n (an assignment-defined one: its time-zero value, from the order-free
    evaluator of vlib.content) times the factor, as a canonical rational string"""
    from fractions import Fraction

    from vlib import content as C
    from vlib.fexpr import rat_str

    v = _get(c["pars"], n)
    if "v" in v:
        return rat_str(Fraction(v["v"]) * Fraction(factor))
    return rat_str(C.Spec(c).init_values()[n] * Fraction(factor))


def _apply1(c, op):
    k, n = op[0], op[1]
    if k in ("add_parameter", "add_variable"):
        c[ADD[k]].append([n, val_with_sig(op[2])])
    elif k in ("add_derived", "add_readout"):
        c[ADD[k]].append([n, with_sig(op[2])])
    elif k == "add_reaction":
        c["rxns"].append([n, with_sig(op[2])])
    elif k in ADD:
        c[ADD[k]].append([n, op[2]])
    elif k == "add_surrogate":
        c["surs"].append([n, op[2]])
    elif k == "remove_variable":
        _drop(c, "vars", n)
        if op[2]:
            _strip(c, n)
    elif k in REMOVE:
        _drop(c, REMOVE[k], n)
    elif k == "remove_surrogate":
        _drop(c, "surs", n)
    elif k in ("update_parameter", "update_variable"):
        if op[2] is not None:
            _put(c[UPDATE[k]], n, val_with_sig(op[2]))
    elif k == "update_data":
        _put(c["data"], n, op[2])
    elif k == "scale_parameter":
        _put(c["pars"], n, {"v": _scaled(c, n, op[2])})
    elif k == "make_parameter_dynamic":
        val = _get(c["pars"], n) if op[2] is None else {"v": op[2]}
        _drop(c, "pars", n)
        c["vars"].append([n, val])
        for flux, coef in op[3] or []:
            if flux in [x for x, _ in c["rxns"]]:
                _put(_get(c["rxns"], flux)["st"], n, {"c": coef})
            else:
                for _, s in c["surs"]:
                    for fs in s["st"]:
                        if fs[0] == flux and fs[1]:
                            _put(fs[1], n, {"c": coef})
    elif k == "make_variable_static":
        # documented: the variable becomes a parameter carrying the given value or the variable's own initial
        # value (a number or the same initial assignment) and leaves every stoichiometry
        val = _get(c["vars"], n) if op[2] is None else {"v": op[2]}
        _drop(c, "vars", n)
        _strip(c, n)
        c["pars"].append([n, val])
    elif k in ("update_derived", "update_reaction"):
        # a new function object replaces the old one (with its own signature); new args / stoichiometry replace
        # the old ones; whatever is not given stays
        kind = "derived" if k == "update_derived" else "rxns"
        d = dict(_get(c[kind], n))
        if op[2] is not None:
            e, sig = bare_parts(op[2])
            d["e"] = e
            d["sig"] = sig if sig is not None else default_sig(e, len(op[3]) if op[3] is not None else 0)
        if op[3] is not None:
            d["args"] = op[3]
        if k == "update_reaction" and op[4] is not None:
            d["st"] = op[4]
        _put(c[kind], n, d)
    elif k == "update_surrogate":
        d = dict(_get(c["surs"], n) if op[2] is None else op[2])
        if op[3] is not None:
            d["args"] = op[3]
        if op[4] is not None:
            d["outs"] = op[4]
        if op[5] is not None:
            d["st"] = op[5]
        _put(c["surs"], n, d)
    else:
        raise ValueError(op)


def expected_content(before, op):
    """what the documentation of each mutator says an ACCEPTED call does to the seven containers, as a function
    of the content before — independent of the model's own bookkeeping. None where it depends on numbers that
    cannot be evaluated (incomplete model)."""
    import copy

    op = effective(op)
    c = copy.deepcopy(before)
    try:
        if op[0] == "scale_parameters":
            # every new value is the current value times its factor
            vals = [[n, {"v": _scaled(c, n, f)}] for n, f in op[1]]
            for n, v in vals:
                _put(c["pars"], n, v)
        elif op[0] in PLURAL:
            for el in singular_ops(op):
                _apply1(c, el)
        else:
            _apply1(c, op)
    except Exception:  # noqa: BLE001
        return None
    # the stoichiometries of an op arrive as pair lists; the call receives Python dicts built from them, in which a
    # key given twice keeps its first position and its last value
    for _, r in c["rxns"]:
        r["st"] = _as_dict(r["st"])
    for _, su in c["surs"]:
        su["st"] = _as_dict([[f, _as_dict(inner)] for f, inner in su["st"]])
    return c


def _as_dict(pairs):
    d = {}
    for k, v in pairs:
        d[k] = v
    return [[k, v] for k, v in d.items()]


# --------------------------------------------------------------------------- which rejecting path of a surrogate mutator

SURROGATE_PATHS = {
    "add_surrogate": ["name=time", "name taken", "output=time", "output taken", "output=name", "output twice"],
    "update_surrogate": ["unknown name", "output=time", "output taken", "output=own name", "output twice"],
    "remove_surrogate": ["unknown name"],
}


def surrogate_reject_path(content, op):
    """for a REJECTED add_/update_/remove_surrogate: which of the rejecting paths of the code the arguments lead to
    (None when the call should have been accepted) — used to measure that the generator reaches every path"""
    op = effective(op)
    ns = Names(content)
    k, n = op[0], op[1]
    if k == "remove_surrogate":
        return None if n in ns.sets["surs"] else "unknown name"
    if k == "add_surrogate":
        taken = ns.taken()
        if n == "time":
            return "name=time"
        if n in taken:
            return "name taken"
        seen = set()
        for o in op[2]["outs"]:
            if o == "time":
                return "output=time"
            if o == n:
                return "output=name"
            if o in taken:
                return "output taken"
            if o in seen:
                return "output twice"
            seen.add(o)
        return None
    if k == "update_surrogate":
        if n not in ns.sets["surs"]:
            return "unknown name"
        old = ns.outs[n]
        outs = op[4] if op[4] is not None else (op[2]["outs"] if op[2] is not None else old)
        taken = ns.taken() - set(old)
        seen = set()
        for o in outs:
            if o == "time":
                return "output=time"
            if o == n:
                return "output=own name"
            if o in taken:
                return "output taken"
            if o in seen:
                return "output twice"
            seen.add(o)
        return None
    return None
