"""Shared by C09 / C18: picklable model building, the deterministic toy integrator mirrored by
lean/MxlVerif/MxlVerif/Model/C09Workers.lean, tolerant comparison helpers.

Everything a pool process has to unpickle lives at module level here or in the synthetic module
`mxlverif_fns` registered in sys.modules (pool processes are forked, so they inherit it)."""
from __future__ import annotations

import contextlib
import io
import math
import os
import sys
import types
from fractions import Fraction
from functools import partial

import numpy as np

from vlib import fexpr

FNMOD = "mxlverif_fns"


def _fnmod():
    mod = sys.modules.get(FNMOD)
    if mod is None:
        mod = types.ModuleType(FNMOD)
        sys.modules[FNMOD] = mod
    return mod


def reg_fn(fn, name=None):
    """make a function picklable by reference"""
    mod = _fnmod()
    name = name or fn.__name__
    fn.__module__ = FNMOD
    fn.__qualname__ = fn.__name__ = name
    setattr(mod, name, fn)
    return fn


_count = [0]


def pfn(d):
    """real, picklable Python function for the wire form {"args": [...], "e": FExpr}"""
    _count[0] += 1
    name = f"g{os.getpid()}_{_count[0]}"
    if "den" in d:
        # a QUOTIENT of two expressions (Python floats: a zero denominator raises ZeroDivisionError); outside
        # the expression language of the Lean model, used by the strata that have no model side
        argnames = [f"a{i}" for i in range(len(d["args"]))]
        src = (f"def {name}({', '.join(argnames)}):\n"
               f"    return ({fexpr.src_expr(d['e'], argnames)}) / ({fexpr.src_expr(d['den'], argnames)})\n")
        ns = {}
        exec(compile(src, f"<{name}>", "exec"), ns)  # noqa: S102
        return reg_fn(ns[name], name)
    return reg_fn(fexpr.compile_fn(d["e"], len(d["args"]), name=name), name)


def fl(q) -> float:
    return fexpr.to_float(Fraction(q))


def build_model(content):
    """content (wire form) -> real Model whose functions pickle"""
    from mxlpy import Model
    from mxlpy.types import Derived, InitialAssignment

    def val(vj):
        if "v" in vj:
            return fl(vj["v"])
        return InitialAssignment(fn=pfn(vj["ia"]), args=list(vj["ia"]["args"]))

    def coef(cj):
        if "c" in cj:
            return fl(cj["c"])
        return Derived(fn=pfn(cj), args=list(cj["args"]))

    m = Model()
    for k, v in content.get("vars", []):
        m.add_variable(k, val(v))
    for k, v in content.get("pars", []):
        m.add_parameter(k, val(v))
    for k, v in content.get("derived", []):
        m.add_derived(k, fn=pfn(v), args=list(v["args"]))
    for k, v in content.get("rxns", []):
        m.add_reaction(k, fn=pfn(v), args=list(v["args"]), stoichiometry={c: coef(cj) for c, cj in v["st"]})
    for k, v in content.get("surs", []):
        from mxlpy.surrogates import qss

        _count[0] += 1
        name = f"s{os.getpid()}_{_count[0]}"
        fn = reg_fn(fexpr.compile_multi(v["es"], len(v["args"]), name=name), name)
        m.add_surrogate(k, qss.Surrogate(model=fn, args=list(v["args"]), outputs=list(v["outs"]),
                                         stoichiometries={f: {c: coef(cj) for c, cj in st} for f, st in v["st"]}))
    for k, v in content.get("readouts", []):
        m.add_readout(k, fn=pfn(v), args=list(v["args"]))
    return m


def with_values(content, kvs):
    """declaration-level substitution: the content a user would write for a model that has
    these variable / parameter values from the start (independent of update_*)"""
    kv = dict(kvs)
    out = dict(content)
    out["vars"] = [[k, {"v": str(kv[k])} if k in kv else v] for k, v in content.get("vars", [])]
    out["pars"] = [[k, {"v": str(kv[k])} if k in kv else v] for k, v in content.get("pars", [])]
    return out


# --------------------------------------------------------------------------- a function for `parallelise` itself


def toy_fn(x):
    """mirrored by the driver (`H_c09.runPar`): negative -> ValueError, otherwise 2*x; an input >= 1000 sleeps far
    longer than any timeout the harness uses (such a task is cancelled by the pool)"""
    import time

    if x < 0:
        msg = "toy_fn"
        raise ValueError(msg)
    if x >= 1000:
        time.sleep(600)
    return 2 * x


# --------------------------------------------------------------------------- toy integrator


class Euler:
    """One explicit Euler step per requested interval; row layout of the shipped Scipy integrator
    (`integrate(t_end, steps)` -> `steps + 1` points; `integrate_time_course` prepends t0)."""

    def __init__(self, rhs, y0, jacobian=None, *, nss=4, h=0.25, fail=(), tol=None, raises=(), zerodiv=()):
        from mxlpy.types import IntegrationFailure, NoSteadyState, Result  # noqa: F401

        self.rhs = rhs
        self.y0 = tuple(float(v) for v in y0)
        self._y0_orig = self.y0
        self.t0 = 0.0
        self.nss = nss
        self.h = h
        self.tol = tol
        d0 = rhs(0.0, self.y0)
        key = float(sum(self.y0) + 3.0 * sum(float(v) for v in d0))
        self.fail = key in fail
        self.raises = key in raises  # integrate_to_steady_state raises (an exception escaping the integrator)
        if key in zerodiv:
            # stands for a rate law that divides by zero while the simulator is being built
            msg = "toy integrator: division by zero"
            raise ZeroDivisionError(msg)

    def reset(self):
        self.t0 = 0.0
        self.y0 = self._y0_orig

    def integrate(self, *, t_end, steps=None):
        n = 100 if steps is None else steps + 1
        return self.integrate_time_course(time_points=np.linspace(self.t0, t_end, n, dtype=float))

    def integrate_time_course(self, *, time_points):
        from mxlpy.integrators.abstract import TimeCourse
        from mxlpy.types import IntegrationFailure, Result

        if self.fail:
            return Result(IntegrationFailure())
        tp = np.array(time_points, dtype=float)
        if tp[0] != self.t0:
            tp = np.insert(tp, 0, self.t0)
        y = np.array(self.y0, dtype=float)
        rows = [y]
        for a, b in zip(tp[:-1], tp[1:]):
            y = y + (b - a) * np.array(self.rhs(float(a), tuple(y)), dtype=float)
            rows.append(y)
        self.t0 = float(tp[-1])
        self.y0 = tuple(rows[-1])
        return Result(TimeCourse(time=tp, values=np.array(rows, dtype=float)))

    def integrate_to_steady_state(self, *, tolerance, rel_norm):
        from mxlpy.integrators.abstract import TimeCourse
        from mxlpy.types import NoSteadyState, Result

        if self.raises:
            msg = "toy integrator: the right-hand side raised"
            raise ValueError(msg)
        if self.fail:
            return Result(NoSteadyState())
        self.reset()
        y = np.array(self.y0, dtype=float)
        prev = y
        t = 0.0
        for _ in range(self.nss):
            prev = y
            y = y + self.h * np.array(self.rhs(t, tuple(y)), dtype=float)
            t += self.h
        if self.nss > 0 and self.tol is not None and not bool(np.all(np.abs(y - prev) < self.tol)):
            return Result(NoSteadyState())  # the last step still moved a variable by tol or more
        return Result(TimeCourse(time=np.array([t], dtype=float), values=np.array([y], dtype=float)))


def make_integ(cfg):
    if cfg is None:
        return None
    return partial(Euler, nss=int(cfg["nss"]), h=fl(cfg["h"]), fail=tuple(fl(k) for k in cfg["fail"]),
                   tol=None if cfg.get("tol") is None else fl(cfg["tol"]),
                   raises=tuple(fl(k) for k in cfg.get("raise", [])),
                   zerodiv=tuple(fl(k) for k in cfg.get("zerodiv", [])))


# --------------------------------------------------------------------------- tolerant comparison


def close(a: float, b: float, tol: float) -> bool:
    if math.isnan(a) or math.isnan(b):
        return math.isnan(a) and math.isnan(b)
    if math.isinf(a) or math.isinf(b):
        return a == b
    return abs(a - b) <= tol * max(1.0, abs(a), abs(b))


def snap(ref, x, tol):
    """x with every float replaced by ref's float at the same place when they agree within tol"""
    if isinstance(x, float) and isinstance(ref, float):
        return ref if close(ref, x, tol) else x
    if isinstance(x, list) and isinstance(ref, list) and len(x) == len(ref):
        return [snap(r, y, tol) for r, y in zip(ref, x)]
    if isinstance(x, dict) and isinstance(ref, dict) and set(x) == set(ref):
        return {k: snap(ref[k], v, tol) for k, v in x.items()}
    return x


def jnum(obj):
    """floats -> canonical strings (so that ctx.judge's JSON comparison is exact)"""
    if isinstance(obj, float):
        if math.isnan(obj):
            return "nan"
        if math.isinf(obj):
            return "inf" if obj > 0 else "-inf"
        return repr(obj)
    if isinstance(obj, list):
        return [jnum(v) for v in obj]
    if isinstance(obj, dict):
        return {k: jnum(v) for k, v in obj.items()}
    return obj


def qf(s) -> float:
    """rational string from the driver -> float"""
    return float(Fraction(s))


@contextlib.contextmanager
def quiet():
    """tqdm writes progress bars to stderr"""
    old = sys.stderr
    sys.stderr = io.StringIO()
    try:
        yield
    finally:
        sys.stderr = old
