"""C16 — the linear label model tracks the isotopomer model's positional enrichment (DESIGN §6/C16).

R = real `LinearLabelMapper(...).build_model(concs, fluxes, ...)`: reactions (name, arguments,
    stoichiometry helpers), initial conditions, RHS at enrichment states
M = Lean model `Mxl.C16.linearBuild` / `linRhs` through the driver (op "c16")
S = (direction) per-position reactions read the way `LabelMapper` and the documentation read a map:
    product position i is fed by substrate position map[i];
    (numbers) the real *isotopomer* model (`LabelMapper.build_model`) at an isotopomer state with the
    same pool sizes: d/dt of the amount labelled at position (X,i), divided by the pool size;
    (stationarity) zeros.
Exact arithmetic: pool sizes are powers of two, isotopomer amounts integers, rate constants dyadic.
"""
from __future__ import annotations

import itertools as it
from fractions import Fraction

from vlib import driver, fexpr
from vlib.content import num

from . import c05

PROPS = ["MxlVerif.Props.C16"]
F_DIRECTION = "F-C16-1"
F_NONPERM = "F-C16-3"


# --------------------------------------------------------------------------- helpers


def padded(case, name):
    """(substrate positions, product positions) of a reaction, both padded with EXT to the same length"""
    lv = c05.lv_of(case)
    st = dict(case["base"]["rxns"])[name]["st"]
    subs, prods = c05.unpack(st)
    s = [f"{c}__{i}" for c in subs for i in range(lv[c])]
    p = [f"{c}__{i}" for c in prods for i in range(lv[c])]
    n = max(len(s), len(p))
    return s + ["EXT"] * (n - len(s)), p + ["EXT"] * (n - len(p))


def norm(m, n):
    """the map counted from the front (Python's `seq[i]`: a negative index counts from the end)"""
    return [i + n if -n <= i < 0 else i for i in m]


def is_perm(m, n):
    return sorted(norm(m, n)) == list(range(n))


def is_involution(m):
    m = norm(m, len(m))
    return all(m[m[i]] == i for i in range(len(m)))


def case_class(case):
    """'perm' when every map is a permutation of its padded positions, else 'other'; and the names
    of the reactions whose map is a non-involutive permutation (finding F-C16-1)"""
    noninv, allperm = [], True
    for name, m in case["maps"]:
        s, _ = padded(case, name)
        if not is_perm(m, len(s)):
            allperm = False
        elif not is_involution(m):
            noninv.append(name)
    return allperm, noninv


def spec_linear_rxns(case):
    """documented reading: product position i is built from substrate position map[i]"""
    out = []
    for name, m in case["maps"]:
        s, p = padded(case, name)
        for i in range(len(p)):
            sub, prod = s[m[i]], p[i]
            if sub == prod:
                continue
            st = []
            if sub != "EXT":
                st.append([sub, "neg", sub.split("__")[0]])
            if prod != "EXT":
                st.append([prod, "pos", prod.split("__")[0]])
            out.append([f"{name}__{i}", [sub, name], sorted(st)])
    return sorted(out)


def spec_linear_rhs(case, res, ext):
    """derivative of every label position from the documented per-position transfers:
    each transfer runs at enrichment(source) x flux, leaves its source at rate/pool(source compound)
    and arrives at its product position at rate/pool(product compound)"""
    E = {k: Fraction(v) for k, v in res["E"]}
    E["EXT"] = Fraction(ext)
    C = {k: Fraction(v) for k, v in res["C"]}
    v = {k: Fraction(x) for k, x in res["v"]}
    d = {f"{x}__{i}": Fraction(0) for x, n in case["lv"] for i in range(n)}
    for name, m in case["maps"]:
        s, p = padded(case, name)
        for i in range(len(p)):
            src, dst = s[m[i]], p[i]
            rate = E[src] * v[name]
            if src != "EXT":
                d[src] -= rate / C[src.rsplit("__", 1)[0]]
            if dst != "EXT":
                d[dst] += rate / C[dst.rsplit("__", 1)[0]]
    return {"ok": sorted([k, fexpr.rat_str(x)] for k, x in d.items())}


def spec_build(case):
    lv = c05.lv_of(case)
    if any(n <= 0 for _, n in case["lv"]):
        return {"err": ["ValueError"]}
    rx = dict(case["base"]["rxns"])
    raw = c05.raw_of(case)
    for name, m in case["maps"]:
        if name not in rx:
            return {"err": ["KeyError"]}
        bad = c05.first_bad(raw.get(name, []))
        if bad:
            # `_unpack_stoichiometries`, entry by entry: a Derived is refused (NotImplementedError), a float that is not
            # a whole number too (ValueError); whole numbers pass however they are written
            return {"err": ["NotImplementedError" if bad == "TypeError" else bad]}
        subs, prods = c05.unpack(rx[name]["st"])
        if any(c not in lv for c in subs + prods):
            return {"err": ["KeyError"]}
        n = max(sum(lv[c] for c in subs), sum(lv[c] for c in prods))
        if len(m) < n:
            return {"err": ["ValueError"]}
        # the loop assigns res[pos] for the first n entries, then notices the length mismatch
        if any(p >= n or p < -n for p in m[:n]):
            return {"err": ["IndexError"]}  # `substrates[pos]`: -n <= pos < n
        if len(m) > n:
            return {"err": ["ValueError"]}
    return {"ok": True}


def spec_vars(case):
    """every position of every listed compound, 1/len(requested) on the requested ones; a requested position that no
    listed compound has (beyond the compound's positions, or of a compound that is not listed) becomes a variable of
    its own with that value - the code writes `variables[f"{compound}__{pos}"]` without looking (observation: such a
    variable takes part in no reaction)"""
    init = dict((k, v) for k, v in case.get("init", []))
    vals = {}
    for x, n in case["lv"]:
        for i in range(n):
            vals[f"{x}__{i}"] = "0"
    for x, pos in case.get("init", []):
        for i in pos:
            vals[f"{x}__{i}"] = num(Fraction(1, len(pos)))
    return sorted([k, v] for k, v in vals.items())


# --------------------------------------------------------------------------- real code


def totals_of(case, st):
    lv = c05.lv_of(case)
    state = dict((k, Fraction(v)) for k, v in st)
    return {x: sum(state[n] for n in c05.iso_names(x, lv.get(x))) for x, _ in case["base"]["vars"]}


def marginals_of(case, vals):
    """amount labelled at position (X,i) for a dict over isotopomer names"""
    out = {}
    for x, n in case["lv"]:
        for i in range(n):
            out[f"{x}__{i}"] = sum(vals[x + "__" + "".join(b)] for b in it.product("01", repeat=n) if b[i] == "1")
    return out


def real_worker(case):
    """never raises (see c05.real_worker)"""
    try:
        return _real_worker(case)
    except Exception:  # noqa: BLE001  every call into mxlpy is guarded inside: this is the environment; retry once
        pass
    try:
        return _real_worker(case)
    except BaseException as e:  # noqa: BLE001
        import traceback

        return {"build": {"err": ["worker:" + type(e).__name__, traceback.format_exc()[-600:]]}, "evals": []}


def _real_worker(case):
    import warnings

    warnings.filterwarnings("ignore")
    import pandas as pd
    from mxlpy.label_map import LabelMapper
    from mxlpy.linear_label_map import LinearLabelMapper

    lv = c05.lv_of(case)
    out = {"evals": []}

    def ones(c):
        return (pd.Series({x: 1.0 for x, _ in c["base"]["vars"]}), pd.Series({r: 1.0 for r, _ in c["base"]["rxns"]}))

    # ONE linear mapper and ONE isotopomer mapper serve every build of this case (and of its history)
    try:
        lmap, base = c05.mapper_session(
            LinearLabelMapper, case,
            lambda mp, c: mp.build_model(concs=ones(c)[0], fluxes=ones(c)[1], initial_labels=c05.init_arg(c)))
        imap, ibase = c05.mapper_session(LabelMapper, case, lambda mp, c: mp.build_model())
    except Exception as e:  # noqa: BLE001
        out["build"] = {"err": ["base:" + type(e).__name__]}
        return out
    c0, f0 = ones(case)
    try:
        lin = lmap.build_model(concs=c0, fluxes=f0, initial_labels=c05.init_arg(case))
    except Exception as e:  # noqa: BLE001
        out["build"] = {"err": [type(e).__name__]}
        out["attrs"] = c05.attrs_of(lmap)
        return out
    out["attrs"] = c05.attrs_of(lmap)
    out["build"] = {"ok": True}
    out["rxns"] = sorted(
        [k, list(r.args), sorted([c, {"_neg_one_div": "neg", "_one_div": "pos"}.get(d.fn.__name__, d.fn.__name__), d.args[0]]
                                 for c, d in r.stoichiometry.items())]
        for k, r in lin.get_raw_reactions().items())
    out["vars"] = sorted([k, num(v)] for k, v in lin.get_initial_conditions().items())
    out["vocab"] = real_vocab(case, lmap, imap, base)
    iso = None
    for ev in case.get("evals", []):
        res = {}
        try:
            if "direct" in ev:
                tot = {x: Fraction(v) for x, v in ev["direct"]["C"]}
                totf = {k: fexpr.to_float(v) for k, v in tot.items()}
                fl = pd.Series({r: fexpr.to_float(Fraction(v)) for r, v in ev["direct"]["v"]})
                net = {x: Fraction(0) for x, _ in case["base"]["vars"]}
                for r, rx in case["base"]["rxns"]:
                    for c, coef in rx["st"]:
                        net[c] += coef * Fraction(dict(ev["direct"]["v"])[r])
                res["base_rhs"] = [[x, fexpr.rat_str(v)] for x, v in net.items()]
                names = [f"{x}__{i}" for x, n in case["lv"] for i in range(n)]
                if ev.get("uniform") is not None:
                    E = {k: Fraction(ev["uniform"]) for k in names}
                else:
                    E = {k: Fraction(v) for k, v in ev["E"]}
            else:
                tot = totals_of(case, ev["state"])
                totf = {k: fexpr.to_float(v) for k, v in tot.items()}
                fl = base.get_fluxes(totf, 0.0)
                res["base_rhs"] = [[x, num(v)] for x, v in base.get_right_hand_side(totf, 0.0).items()]
                state = dict((k, Fraction(v)) for k, v in ev["state"])
                if ev.get("uniform") is not None:
                    E = {k: Fraction(ev["uniform"]) for k in marginals_of(case, state)}
                else:
                    E = {k: v / tot[k.split("__")[0]] for k, v in marginals_of(case, state).items()}
            res["v"] = [[r, num(fl[r])] for r, _ in case["base"]["rxns"]]
            res["C"] = [[x, num(totf[x])] for x, _ in case["base"]["vars"]]
            res["E"] = [[k, num(fexpr.to_float(v))] for k, v in sorted(E.items())]
            ext = fexpr.to_float(Fraction(ev.get("ext", "1")))
            lin2 = lmap.build_model(
                concs=pd.Series(totf), fluxes=pd.Series({r: float(fl[r]) for r in fl.index}), external_label=ext)
            r = lin2.get_right_hand_side({k: fexpr.to_float(v) for k, v in E.items()}, 0.0)
            res["lin"] = {"ok": sorted([k, num(v)] for k, v in r.items())}
            if ev.get("uniform") is None and "direct" not in ev:
                if iso is None:
                    iso = imap.build_model()
                ir = iso.get_right_hand_side({k: fexpr.to_float(v) for k, v in state.items()}, 0.0)
                dm = marginals_of(case, {k: Fraction(float(v)) for k, v in ir.items()})
                res["iso"] = {"ok": sorted([k, num(fexpr.to_float(v / tot[k.split("__")[0]]))] for k, v in dm.items())}
        except Exception as e:  # noqa: BLE001
            res["lin"] = {"err": [type(e).__name__, str(e)[:80]]}
        out["evals"].append(res)
    out["attrs_end"] = c05.attrs_of(lmap)
    return out


def helper_inputs(case):
    """(substrates, map) pairs for the pinned helper `_map_substrates_to_labelmap`: the padded substrates of every
    mapped reaction with its own map (when it has no negative index) and with the reversal"""
    out = []
    rx = dict(case["base"]["rxns"])
    lv = c05.lv_of(case)
    for name, m in case["maps"]:
        if name not in rx or any(c not in lv for c, _ in rx[name]["st"]):
            continue
        s, _ = padded(case, name)
        if len(s) > 8:
            continue
        for mm in (list(m), list(range(len(s)))[::-1], list(m)[:-1], list(m) + [0]):
            if all(i >= 0 for i in mm):
                out.append([s, mm])
    return out[:6]


def padded_names(case):
    rx = dict(case["base"]["rxns"])
    lv = c05.lv_of(case)
    return [name for name, m in case["maps"]
            if name in rx and all(c in lv for c, _ in rx[name]["st"]) and all(i >= 0 for i in m)
            and len(m) == len(padded(case, name)[0]) and all(i < len(m) for i in m)]


def real_vocab(case, lmap, imap, base):
    """what the theorems' vocabulary means on the real code: the pinned helper, the padded position lists and the
    sources `build_model` pairs them with (through the real helpers), the mapper's `get_isotopomers`, and the
    isotopomers labelled at a position (`LabelMapper.get_isotopomers_of_at_position`)"""
    from mxlpy import linear_label_map as L

    out = {}
    hs = []
    for subs, m in helper_inputs(case):
        try:
            hs.append({"ok": L._map_substrates_to_labelmap(list(subs), list(m))})
        except Exception as e:  # noqa: BLE001
            hs.append({"err": [type(e).__name__]})
    out["helper"] = hs
    pads = []
    rxns = base.get_raw_reactions()
    try:
        isotopomers = lmap.get_isotopomers([x for x, _ in case["lv"]])
        out["isos"] = [[k, list(v)] for k, v in isotopomers.items()]
        maps = dict((k, v) for k, v in case["maps"])
        for name in padded_names(case):
            su, pr = L._unpack_stoichiometries(rxns[name].stoichiometry)
            su = L._stoichiometry_to_duplicate_list(su)
            pr = L._stoichiometry_to_duplicate_list(pr)
            su = [j for i in su for j in isotopomers[i]]
            pr = [j for i in pr for j in isotopomers[i]]
            su, pr = L._add_label_influx_or_efflux(su, pr, list(maps[name]))
            pads.append([name, list(su), list(pr), L._map_labelmap_to_substrates(list(su), list(maps[name]))])
    except Exception as e:  # noqa: BLE001
        out["isos"] = {"err": [type(e).__name__]}
    out["padded"] = pads
    # padded length of every `label_maps` entry (0 when the entry is rejected before its map is read)
    pl = []
    for name, _ in case["maps"]:
        try:
            su, pr = L._unpack_stoichiometries(rxns[name].stoichiometry)
            su = [j for i in L._stoichiometry_to_duplicate_list(su) for j in isotopomers[i]]
            pr = [j for i in L._stoichiometry_to_duplicate_list(pr) for j in isotopomers[i]]
            pl.append([name, max(len(su), len(pr))])
        except Exception:  # noqa: BLE001
            pl.append([name, 0])
    out["padlen"] = pl
    lab = []
    if not case.get("no_iso"):
        for x, n in case["lv"]:
            for i in range(n):
                try:
                    lab.append([f"{x}__{i}", list(imap.get_isotopomers_of_at_position(x, i))])
                except Exception as e:  # noqa: BLE001
                    lab.append([f"{x}__{i}", [type(e).__name__]])
    out["labelled"] = lab
    return out


# --------------------------------------------------------------------------- evaluation


def model_request(case, R):
    evals = []
    for res in R.get("evals", []):
        if "E" in res:
            evals.append({"E": res["E"], "ext": None, "v": res["v"], "C": res["C"]})
    for e, ev in zip(evals, [ev for ev, res in zip(case.get("evals", []), R.get("evals", [])) if "E" in res]):
        e["ext"] = str(ev.get("ext", "1"))
    iso_states = [ev["state"] for ev, res in zip(case.get("evals", []), R.get("evals", []))
                  if "state" in ev and ev.get("uniform") is None and "E" in res]
    return {"op": "c16", "lv": case["lv"], "maps": case["maps"], "init": case.get("init", []),
            "raw": case["base"].get("raw", []),
            "rxns": [[k, r["st"]] for k, r in case["base"]["rxns"]], "evals": evals,
            "helper": helper_inputs(case) if "vocab" in R else [],
            "padded": padded_names(case) if "vocab" in R else [],
            "iso_states": [] if case.get("no_iso") else iso_states}


def canon_M(m):
    if m.get("nat") == "differs":
        return {"build": {"err": ["model: linearBuild and linearBuildI differ on maps without negative indices"]}}
    if "err" in m:
        return {"build": {"err": [m["err"][0]]}}
    o = m["ok"]
    listed = {s_ for _, ss in m.get("isos", []) for s_ in ss}
    return {"build": {"ok": True},
            "vocab": {"helper": [({"ok": h["ok"]} if "ok" in h else {"err": [h["err"][0]]}) for h in m.get("helper", [])],
                      "padded": [list(map(lambda x: list(x) if isinstance(x, list) else x, p)) for p in m.get("padded", [])],
                      "isos": [list(x) for x in m.get("isos", [])],
                      "padlen": [list(x) for x in m.get("padlen", [])],
                      "labelled": [list(x) for x in m.get("labelled", [])]},
            "enrich": [sorted(list(x) for x in e) for e in m.get("enrich", [])],
            "rxns": sorted([n, a, sorted(st)] for n, a, st in o["rxns"]),
            "vars": sorted(o["vars"]),
            # (the evaluation models of the real side are built without initial_labels: a stray variable that an
            # out-of-range initial position created exists only in the structure build; it takes part in no reaction)
            "rhs": [({"ok": sorted(x for x in r if x[0] in listed)} if isinstance(r, list) else {"err": [r["err"][0]]})
                    for r in o["rhs"]]}


def evaluate(cases, use_driver=True):
    Rs = c05.pool().map(real_worker, cases, chunksize=4)
    if use_driver:
        Ms = [canon_M(m) for m in driver.call_batch([model_request(c, R) for c, R in zip(cases, Rs)])]
    else:
        Ms = [None] * len(cases)
    return list(zip(Rs, Ms))


def shape_of(case):
    if case.get("history"):
        return f"reused{len(case['history'])} " + shape_of({k: v for k, v in case.items() if k != "history"})
    if "err" in spec_build(case):
        return "rejected:" + spec_build(case)["err"][0]
    allperm, noninv = case_class(case)
    return c05.shape_of(case) + (" perm" if allperm else " nonperm") + (" noninv" if noninv else "")


def judge_case(ctx, case, R, M):
    ctx.count(case, shape_of(case), nontrivial=bool(case["maps"]))
    sub = {k: v for k, v in case.items() if k != "evals"}
    Mb = None if M is None else M["build"]
    if ctx.judge(sub, R["build"], spec_build(case), Mb, what="build outcome") != "ok" or "err" in R["build"]:
        return
    allperm, noninv = case_class(case)
    for key in ("attrs", "attrs_end"):
        if key in R:
            ctx.judge(sub, R[key], {"lv": case["lv"], "maps": case["maps"]}, None,
                      what="mapper attributes after build_model")
    ctx.judge(sub, R["vars"], spec_vars(case), None if M is None else M["vars"], what="initial label placement")
    if "vocab" in R and M is not None:
        # the vocabulary of the theorems against the real helpers / queries
        mv = dict(M["vocab"])
        if case.get("no_iso"):
            mv["labelled"] = []
        ctx.judge(sub, R["vocab"], R["vocab"], mv,
                  what="pinned helper, padded positions + documented sources, get_isotopomers, isotopomers labelled at a position: real vs model")
        k2 = 0
        for ev, res in zip(case.get("evals", []), R["evals"]):
            if "state" in ev and ev.get("uniform") is None and "E" in res and not case.get("no_iso"):
                if k2 < len(M["enrich"]):
                    ctx.judge(dict(sub, evals=[ev]), sorted(res["E"]), sorted(res["E"]), M["enrich"][k2],
                              what="positional enrichment of the isotopomer state (state fed to the real linear model vs enrichOf)")
                k2 += 1
    if not allperm:
        # a map that is not a permutation of the padded positions has no linear counterpart: model agreement only
        ctx.judge(sub, R["rxns"], R["rxns"], None if M is None else M["rxns"], what="reactions (non-permutation map)")
    else:
        srx = spec_linear_rxns(case)
        pick = lambda rx, keep: [r for r in rx if (r[0].split("__")[0] in noninv) == keep]  # noqa: E731
        ctx.judge(sub, pick(R["rxns"], False), pick(srx, False), None if M is None else pick(M["rxns"], False),
                  what="per-position reactions: product position i fed by substrate position map[i]")
        if noninv:
            ctx.judge(sub, pick(R["rxns"], True), pick(srx, True), None if M is None else pick(M["rxns"], True),
                      finding=F_DIRECTION, what="per-position reactions of a non-involutive map (direction)")
    k = 0
    for ev, res in zip(case.get("evals", []), R["evals"]):
        one = dict(sub, evals=[ev])
        if "E" not in res:
            ctx.violation(one, res, "evaluation of the real models failed")
            continue
        Mr = None if M is None else M["rhs"][k]
        k += 1
        if "err" in res["lin"]:
            res = dict(res, lin={"err": [res["lin"]["err"][0]]})  # the class, not the message
        if not allperm:
            if "iso" in res and ev.get("uniform") is None and "direct" not in ev:
                # finding F-C16-3: a non-permutation map of the right length is accepted by both mappers and the linear
                # model no longer tracks the isotopomer model (judged against the real isotopomer marginal; R = M)
                ctx.hist["eval:marginal nonperm"] = ctx.hist.get("eval:marginal nonperm", 0) + 1
                ctx.judge(one, res["lin"], res["iso"], Mr, finding=F_NONPERM,
                          what="linear RHS vs d/dt of positional enrichment in the isotopomer model (non-permutation map)")
            else:
                ctx.judge(one, res["lin"], res["lin"], Mr, what="linear RHS real vs model")
            continue
        steady = all(v == "0" for _, v in res["base_rhs"])
        if ev.get("zero_pool"):
            # `∓1/pool` is a Derived coefficient: a zero pool of a compound with a per-position reaction is a
            # ZeroDivisionError for the whole right-hand side (no guard); a zero pool nobody divides by is harmless
            zc = {x for x, v in ev["direct"]["C"] if Fraction(v) == 0}
            used = {a[2] for _, _, st in spec_linear_rxns(case) for a in st}
            Rl = res["lin"] if "ok" in res["lin"] else {"err": [res["lin"]["err"][0]]}
            S = {"err": ["ZeroDivisionError"]} if zc & used else spec_linear_rhs(case, res, ev.get("ext", "1"))
            ctx.hist["eval:zero_pool"] = ctx.hist.get("eval:zero_pool", 0) + 1
            ctx.judge(one, Rl, S, Mr, finding=F_DIRECTION if noninv else None,
                      what="linear RHS at a zero pool: ZeroDivisionError iff a per-position reaction divides by it")
            continue
        if "direct" in ev and "ok" not in res["lin"]:
            ctx.violation(one, res, "evaluation of the real linear model failed")
            continue
        if "direct" in ev:
            ctx.hist["eval:direct"] = ctx.hist.get("eval:direct", 0) + 1
            ctx.judge(one, res["lin"], spec_linear_rhs(case, res, ev.get("ext", "1")), Mr,
                      finding=F_DIRECTION if noninv else None,
                      what="linear RHS vs the documented per-position transfers at the given pools and fluxes")
            if ev.get("uniform") is None:
                continue
        tag = ("uniform" if ev.get("uniform") is not None else "marginal") + ("@steady" if steady else "")
        ctx.hist["eval:" + tag] = ctx.hist.get("eval:" + tag, 0) + 1
        if ev.get("uniform") is not None:
            if steady:
                zero = {"ok": [[kk, "0"] for kk, _ in res["lin"]["ok"]]} if "ok" in res["lin"] else None
                ctx.judge(one, res["lin"], zero, Mr, what="uniform enrichment equal to the external pool is stationary")
            else:
                ctx.judge(one, res["lin"], res["lin"], Mr, what="linear RHS real vs model")
        elif "iso" not in res:
            ctx.violation(one, res, "evaluation of the real models failed")
        else:
            ctx.judge(one, res["lin"], res["iso"], Mr, finding=F_DIRECTION if noninv else None,
                      what="linear RHS vs d/dt of positional enrichment in the isotopomer model"
                           + (" (steady state)" if steady else " (same pools and fluxes)"))


# --------------------------------------------------------------------------- generators

POW2 = (1, 2, 4, 8)


def scaled(v, e):
    return fexpr.rat_str(Fraction(v) * Fraction(2) ** e)


def gen_iso_state(rng, case):
    """isotopomer amounts = integers x 2^pexp (pexp: the case's pool scale, default 0) with every
    labelled pool a power of two"""
    st = _gen_iso_state(rng, case)
    e = case.get("pexp", 0)
    return [[n, scaled(v, e)] for n, v in st] if e else st


def _gen_iso_state(rng, case):
    lv = c05.lv_of(case)
    st = []
    for x, _ in case["base"]["vars"]:
        names = c05.iso_names(x, lv.get(x))
        if len(names) == 1:
            st.append([names[0], str(rng.choice(POW2))])
            continue
        total = rng.choice([t for t in POW2 + (16,) if t >= 2])
        cuts = sorted(rng.randint(0, total) for _ in range(len(names) - 1))
        vals = [b - a for a, b in zip([0] + cuts, cuts + [total])]
        rng.shuffle(vals)
        st += [[n, str(v)] for n, v in zip(names, vals)]
    return st


def make_case(rxns, labels, maps, *, ks=None, init=None):
    """rxns: [(name, subs, prods)] mass action with rate constant k_<name>"""
    cpds = list(dict.fromkeys(c for _, s, p in rxns for c in s + p))
    base_rxns = []
    for name, s, p in rxns:
        st = {}
        for c in s:
            st[c] = st.get(c, 0) - 1
        for c in p:
            st[c] = st.get(c, 0) + 1
        args = [f"k_{name}"] + list(s)
        base_rxns.append([name, {"args": args, "e": c05.prod_expr(len(args)), "st": [[c, v] for c, v in st.items()]}])
    return {
        "lv": [[c, labels[c]] for c in cpds],
        "maps": [[n, list(m)] for n, m in maps],
        "init": init or [],
        "ma": [n for n, _, _ in rxns],
        "base": {"pars": [[f"k_{n}", str((ks or {}).get(n, 1))] for n, _, _ in rxns],
                 "vars": [[c, "1"] for c in cpds], "derived": [], "rxns": base_rxns},
    }


def npos(case, name):
    return len(padded(case, name)[0])


def steady_ks(case, st):
    """rate constants putting the base model at steady state at the pools of `st`, if the network has a
    strictly positive flux mode that is easy to find; dyadic by construction (pools are powers of two)"""
    import sympy

    tot = totals_of(case, st)
    cpds = [x for x, _ in case["base"]["vars"]]
    rx = case["base"]["rxns"]
    N = sympy.Matrix([[dict(r["st"]).get(c, 0) for _, r in rx] for c in cpds])
    ns = N.nullspace()
    if not ns:
        return None
    v = sum((b * sympy.ilcm(*[x.q for x in b]) for b in ns), sympy.zeros(len(rx), 1))
    cands = [v] + [b * sympy.ilcm(*[x.q for x in b]) for b in ns]
    for cand in cands:
        for sgn in (1, -1):
            w = [sgn * int(x) for x in cand]
            if all(x > 0 for x in w) and max(w) <= 8:
                ks = {}
                for (name, r), f in zip(rx, w):
                    subs, _ = c05.unpack(r["st"])
                    d = 1
                    for c in subs:
                        d *= tot[c]
                    ks[name] = Fraction(f, 1) / d
                    if not fexpr.is_dyadic_small(ks[name], 200):
                        return None
                return ks
    return None


FLUX_EXP = (0, 0, 0, 10, 20, -10, -27, -30, -40)  # 2^-27 ~ 7e-9, 2^-40 ~ 1e-12, 2^20 ~ 1e6
POOL_EXP = (0, 0, 0, 10, -10, -20)


def direct_eval(rng, case, *, uniform=None, equal_flux=False):
    """an evaluation of the linear model alone at freely chosen pools / fluxes / enrichments:
    pools 2^(p+-2), fluxes (1|3|5) x 2^(s-w) with w spread over up to 35 binary orders in one
    network, enrichments k/8 -- every product and sum below is exact in a double"""
    s_, p_ = rng.choice(FLUX_EXP), rng.choice(POOL_EXP)
    spread = rng.choice([0, 0, 8, 27, 35])
    f0 = scaled(rng.choice([1, 3, 5]), s_)
    v = [[r, f0 if equal_flux else scaled(rng.choice([1, 3, 5]), s_ - rng.randint(0, spread))] for r, _ in case["base"]["rxns"]]
    C = [[x, scaled(1, p_ + rng.randint(-2, 2))] for x, _ in case["base"]["vars"]]
    ev = {"direct": {"C": C, "v": v}, "ext": rng.choice(["1", "1", "1/2", "0"])}
    if uniform is not None:
        ev["uniform"] = ev["ext"] = uniform
    else:
        ev["E"] = [[f"{x}__{i}", fexpr.rat_str(Fraction(rng.randint(0, 8), 8))] for x, n in case["lv"] for i in range(n)]
    return ev


def with_evals(rng, case, n_states=2, try_steady=True):
    """pools and fluxes range over many orders of magnitude by exact dyadic scalings: at a constructed
    steady state every flux is (small integer) x 2^fexp whatever the pools are; off steady state the pool
    scale is kept within 2^+-6 so that rates of different order still add exactly"""
    if case.get("no_iso"):
        case["evals"] = [direct_eval(rng, case), direct_eval(rng, case, uniform=rng.choice(["1", "1/2", "1/4"]), equal_flux=True)]
        return case
    if not n_states:
        case["evals"] = []
        return case
    fe = rng.choice(FLUX_EXP)
    evals = None
    if try_steady:
        case["pexp"] = rng.choice(POOL_EXP)
        st = gen_iso_state(rng, case)
        ks = steady_ks(case, st)
        if ks is not None:
            case = dict(case, fexp=fe, base=dict(case["base"], pars=[[f"k_{n}", scaled(k, fe)] for n, k in ks.items()]))
            evals = [{"state": st, "ext": "1"}, {"state": gen_iso_state_same_pools(rng, case, st), "ext": "1"},
                     {"state": st, "ext": rng.choice(["1", "1/2", "1/4", "0"]), "uniform": None}]
            evals[2]["uniform"] = evals[2]["ext"]
    if evals is None:
        case["pexp"] = rng.choice((0, 0, 2, -3, -6))
        case["fexp"] = fe
        case["base"] = dict(case["base"], pars=[[k, scaled(v, fe)] for k, v in case["base"]["pars"]])
        evals = [{"state": gen_iso_state(rng, case), "ext": "1"} for _ in range(n_states)]
    evals.append(direct_eval(rng, case))
    if rng.random() < 0.15:
        z = direct_eval(rng, case)
        j = rng.randrange(len(z["direct"]["C"]))
        z["direct"]["C"][j][1] = "0"
        z["zero_pool"] = True
        evals.append(z)
    case["evals"] = evals
    return case


def gen_iso_state_same_pools(rng, case, st):
    """another isotopomer distribution with the same pool sizes"""
    lv = c05.lv_of(case)
    tot = totals_of(case, st)
    e = case.get("pexp", 0)
    out = []
    for x, _ in case["base"]["vars"]:
        names = c05.iso_names(x, lv.get(x))
        total = int(tot[x] / Fraction(2) ** e)
        cuts = sorted(rng.randint(0, total) for _ in range(len(names) - 1))
        vals = [b - a for a, b in zip([0] + cuts, cuts + [total])]
        rng.shuffle(vals)
        out += [[n, scaled(v, e)] for n, v in zip(names, vals)]
    return out


def exhaustive_cases(rng, tier):
    """every map (all N^N lists, N = padded positions <= 4 in thorough / <= 3 in quick, plus all
    permutations for N = 4) for the chain  -> S.. -> P.. ->  with <=2 substrates / <=2 products,
    1-2 labels each, between an influx and an efflux so that a steady state exists"""
    out = []
    shapes = [[a] for a in (1, 2, 3)] + [[a, b] for a in (1, 2) for b in (1, 2)]
    for ss in shapes:
        for ps in shapes:
            N = max(sum(ss), sum(ps))
            if N > 4:
                continue
            subs = [f"S{i}" for i in range(len(ss))]
            prods = [f"P{i}" for i in range(len(ps))]
            labels = {**dict(zip(subs, ss)), **dict(zip(prods, ps))}
            rxns = [(f"in{i}", [], [c]) for i, c in enumerate(subs)] + [("v", subs, prods)] + \
                   [(f"out{i}", [c], []) for i, c in enumerate(prods)]
            if N <= 3 or tier == "thorough":
                ms = list(it.product(range(N), repeat=N))
            else:
                ms = list(it.permutations(range(N)))
            for m in ms:
                maps = [(f"in{i}", list(range(labels[c]))) for i, c in enumerate(subs)] + [("v", m)] + \
                       [(f"out{i}", list(range(labels[c]))) for i, c in enumerate(prods)]
                out.append(with_evals(rng, make_case(rxns, labels, maps), n_states=1))
            ident = list(range(N))
            for bad in (ident[:-1], ident + [0], ident[:-1] + [N], ident[:-1] + [-N - 1], [-N - 1] + ident[1:] + [0]):
                maps = [("v", bad)]
                out.append(with_evals(rng, make_case([("v", subs, prods)], labels, maps), n_states=1, try_steady=False))
            # Python's negative indices: every permutation with every non-empty subset of its entries written from
            # the end (`substrates[-1]` is the last padded position); N <= 3 in quick
            if N <= 3 or (tier == "thorough" and N == 4):
                for perm in it.permutations(range(N)):
                    for k in range(1, 2 ** N):
                        m = [perm[i] - N if (k >> i) & 1 else perm[i] for i in range(N)]
                        maps = [(f"in{i}", list(range(labels[c]))) for i, c in enumerate(subs)] + [("v", m)] + \
                               [(f"out{i}", list(range(-labels[c], 0))) for i, c in enumerate(prods)]
                        out.append(with_evals(rng, make_case(rxns, labels, maps), n_states=1))
    return out


def trunc(q):
    """Python's int() on a float: towards zero"""
    q = Fraction(q)
    return int(q) if q >= 0 else -int(-q)


def with_raw(case, name, kind):
    """the reaction `name` written with coefficients that are not all Python ints: 'floats' (-1.0, 2.0: read as the
    integers by both mappers), 'half' (first coefficient v + 1/2: refused with ValueError), 'derived' (first
    coefficient a Derived: NotImplementedError), 'ints' (explicit ints)"""
    rx = dict(case["base"]["rxns"])[name]
    coefs, eff = [], []
    for i, (c, v) in enumerate(rx["st"]):
        if kind == "ints":
            spec, e = {"int": v}, v
        elif kind == "floats":
            spec, e = {"float": str(v)}, v
        elif i == 0 and kind == "derived":
            spec, e = "derived", v
        elif i == 0:
            q = Fraction(2 * v + 1, 2)
            spec, e = {"float": fexpr.rat_str(q)}, trunc(q)
        else:
            spec, e = {"int": v}, v
        coefs.append([c, spec])
        eff.append([c, e])
    rx["st"] = eff
    case["base"]["raw"] = [[name, coefs]]
    if kind in ("half", "derived"):
        case["no_iso"] = True  # rejected by both mappers
    return case


def raw_coefficient_cases(rng):
    """seed-independent in structure: the chain -> A -> B -> and the merge A + B -> C with the middle reaction written
    with floats / a half-integer / a Derived / explicit ints, under the identity, the reversal and a short map"""
    out = []
    chain = [("i", [], ["A"]), ("v", ["A"], ["B"]), ("o", ["B"], [])]
    merge = [("i", [], ["A"]), ("j", [], ["B"]), ("v", ["A", "B"], ["C", "C"]), ("o", ["C"], [])]
    for tpl, labels in ((chain, {"A": 2, "B": 2}), (merge, {"A": 1, "B": 1, "C": 1})):
        for kind in ("ints", "floats", "half", "derived"):
            for mv in ([0, 1], [1, 0], [0]):
                maps = [(n, list(range(max(sum(labels[c] for c in s_), sum(labels[c] for c in p_))))) for n, s_, p_ in tpl]
                maps = [(n, mv if n == "v" else m) for n, m in maps]
                case = with_raw(make_case(tpl, labels, maps), "v", kind)
                ok = "ok" in spec_build(case)
                out.append(with_evals(rng, case, n_states=1 if ok else 0, try_steady=ok))
    return out


TEMPLATES = [
    # (reactions, description): every compound labelled
    [("i", [], ["A"]), ("v1", ["A"], ["B"]), ("o", ["B"], [])],
    [("i", [], ["A"]), ("v1", ["A"], ["B", "C"]), ("v2", ["B", "C"], ["D"]), ("o", ["D"], [])],
    [("v1", ["A"], ["B"]), ("v2", ["B"], ["C"]), ("v3", ["C"], ["A"])],
    [("i", [], ["A"]), ("j", [], ["B"]), ("v1", ["A", "B"], ["C"]), ("o", ["C"], [])],
    [("i", [], ["A"]), ("v1", ["A"], ["B", "B"]), ("o", ["B"], [])],
    [("v1", ["A"], ["B"]), ("v2", ["B"], ["A"])],
    # three and more entries on one side, coefficients mixed with other compounds, a branch point
    [("i", [], ["A"]), ("j", [], ["B"]), ("k", [], ["C"]), ("v1", ["A", "B", "C"], ["D"]), ("o", ["D"], [])],
    [("i", [], ["A"]), ("v1", ["A"], ["B", "C", "D"]), ("o1", ["B"], []), ("o2", ["C"], []), ("o3", ["D"], [])],
    [("i", [], ["A"]), ("v1", ["A"], ["B", "B", "C"]), ("o1", ["B"], []), ("o2", ["C"], [])],
    [("i", [], ["A"]), ("v1", ["A"], ["C", "B", "B", "B"]), ("o1", ["B"], []), ("o2", ["C"], [])],
    [("i", [], ["A"]), ("j", [], ["B"]), ("v1", ["A", "B"], ["C", "D", "E"]), ("o1", ["C"], []), ("o2", ["D"], []), ("o3", ["E"], [])],
    [("i", [], ["A"]), ("v1", ["A"], ["B"]), ("v2", ["A"], ["C"]), ("o1", ["B"], []), ("o2", ["C"], [])],
    # a compound that takes part more than once on the substrate side (rate k*A*A): inside C16_marginal since both repairs
    [("i", [], ["A"]), ("v1", ["A", "A"], ["B"]), ("o", ["B"], [])],
    [("i", [], ["A"]), ("v1", ["A", "A"], ["B", "C"]), ("o1", ["B"], []), ("o2", ["C"], [])],
    [("i", [], ["A"]), ("j", [], ["B"]), ("v1", ["A", "B", "A"], ["C"]), ("o", ["C"], [])],
]


def random_network(rng):
    """random mass-action network over labelled compounds: 0-2 distinct substrates, 0-2 products per reaction"""
    cpds = [f"X{i}" for i in range(rng.randint(2, 5))]
    out = []
    for ri in range(rng.randint(1, 4)):
        subs = rng.sample(cpds, min(len(cpds), rng.choice([0, 1, 1, 2, 3])))
        rest = [c for c in cpds if c not in subs]
        prods = [rng.choice(rest) for _ in range(rng.choice([0, 1, 1, 2, 3]))] if rest else []
        if not subs and not prods:
            prods = [rng.choice(cpds)]
        out.append((f"v{ri}", subs, prods))
    return out


def random_case(rng):
    tpl = rng.choice(TEMPLATES) if rng.random() < 0.5 else random_network(rng)
    cpds = list(dict.fromkeys(c for _, s, p in tpl for c in s + p))
    labels = {c: rng.choice([1, 2, 2, 3]) for c in cpds}
    while any(sum(labels[c] for c in sd) > 5 for _, s_, p_ in tpl for sd in (s_, p_)):
        big = max(labels, key=lambda c: labels[c])  # keep 2^(positions per side) isotopomer reactions tractable
        labels[big] -= 1
    bad = rng.random()
    if bad < 0.03:
        labels[rng.choice(cpds)] = 0
    maps = []
    for name, s, p in tpl:
        n = max(sum(labels[c] for c in s), sum(labels[c] for c in p))
        r = rng.random()
        m = list(range(n))
        if r < 0.8:
            rng.shuffle(m)
        elif r < 0.9 and n:
            m = [rng.randrange(n) for _ in range(n)]
        elif r < 0.93 and n:
            m = m[:-1]
        elif r < 0.96:
            m = m + [0]
        elif n:
            m[rng.randrange(n)] = n + rng.randint(0, 1)
        if n and m and rng.random() < 0.15:
            # the same positions written from the end (Python's negative indices); sometimes one below -n
            m = [i - n if (0 <= i < n and rng.random() < 0.5) else i for i in m]
            if rng.random() < 0.1:
                m[rng.randrange(len(m))] = -n - rng.randint(1, 2)
        maps.append((name, m))
    if rng.random() < 0.3:
        rng.shuffle(maps)
    if rng.random() < 0.03:
        maps.append(("nope", [0]))
    init = []
    for c in cpds:
        if labels[c] and rng.random() < 0.3:
            # 1 / len(positions) must be exact in a double: 1 or 2 positions
            init.append([c, sorted(rng.sample(range(labels[c]), rng.randint(1, min(2, labels[c]))))])
    if cpds and rng.random() < 0.04:
        # a requested position beyond the compound's positions, or for a compound that carries no labels here
        c = rng.choice(cpds)
        init = [e for e in init if e[0] != c] + [[c, sorted({rng.randrange(max(labels[c], 1)), labels[c] + rng.randint(0, 2)})]]
    case = make_case(tpl, labels, maps, init=init)
    if rng.random() < 0.04:
        case = with_raw(case, rng.choice(tpl)[0], rng.choice(["ints", "floats", "half", "derived"]))
    # `initial_labels={"A": 1}`: a bare int for a single position
    case["init_as_int"] = [c for c, pos in init if len(pos) == 1 and rng.random() < 0.5]
    if rng.random() < 0.03:
        case["lv"] = case["lv"][:-1]
    ok = "ok" in spec_build(case)
    return with_evals(rng, case, n_states=2 if ok else 0, try_steady=ok)


def large_cases(rng, tier):
    """compounds with ten and more label positions (the isotopomer side would need 2^n variables: linear
    model only, against the documented per-position transfers, the Lean model and uniform stationarity)"""
    out = []
    for n in (9, 10, 11, 12, 13) if tier != "thorough" else range(9, 17):
        ident = list(range(n))
        ms = [ident, ident[::-1], [n - 1] + ident[1:-1] + [0], ident[1:] + ident[:1]]
        chain = [("i", [], ["A"]), ("v", ["A"], ["B"]), ("o", ["B"], [])]
        for m in ms:
            c = make_case(chain, {"A": n, "B": n}, [("i", ident), ("v", m), ("o", ident)],
                          init=[["A", [n - 1]]] if m is ident else None)
            c["no_iso"] = True
            out.append(with_evals(rng, c))
        a = n // 2
        merge = [("i", [], ["A"]), ("j", [], ["B"]), ("v", ["A", "B"], ["C"]), ("o", ["C"], [])]
        c = make_case(merge, {"A": a, "B": n - a, "C": n},
                      [("i", list(range(a))), ("j", list(range(n - a))), ("v", ident[::-1]), ("o", ident)])
        c["no_iso"] = True
        out.append(with_evals(rng, c))
    return out


def reuse_cases(rng, tier):
    """mapper reuse: the chain networks of the exhaustive stratum with every permutation map of N<=3
    positions, on a mapper that was built before with another map and edited in place; plus random
    sessions (other maps / label counts / map order / base model, in place or by assignment)"""
    out = []
    shapes = [([1], [1]), ([2], [2]), ([3], [3]), ([1, 1], [2]), ([2], [1, 1]), ([1, 2], [3]), ([2, 1], [1, 2])]
    for ss, ps in shapes:
        N = max(sum(ss), sum(ps))
        subs = [f"S{i}" for i in range(len(ss))]
        prods = [f"P{i}" for i in range(len(ps))]
        labels = {**dict(zip(subs, ss)), **dict(zip(prods, ps))}
        rxns = [(f"in{i}", [], [c]) for i, c in enumerate(subs)] + [("v", subs, prods)] + \
               [(f"out{i}", [c], []) for i, c in enumerate(prods)]
        perms = list(it.permutations(range(N)))

        def mk(m):
            maps = [(f"in{i}", list(range(labels[c]))) for i, c in enumerate(subs)] + [("v", m)] + \
                   [(f"out{i}", list(range(labels[c]))) for i, c in enumerate(prods)]
            return make_case(rxns, labels, maps)

        for m in perms:
            other = perms[(perms.index(m) + 1) % len(perms)] if len(perms) > 1 else tuple(m) + (0,)
            out.append(dict(with_evals(rng, mk(m), n_states=1), history=[mk(other)], edit="inplace"))
    return out


def random_reuse_case(rng):
    case = random_case(rng)
    hist, cur = [], case
    for _ in range(rng.choice([1, 1, 2])):
        cur = c05.perturbed(rng, cur)
        hist.insert(0, cur)
    return dict(case, history=hist, edit=rng.choice(["inplace", "inplace", "assign"]))


# --------------------------------------------------------------------------- entry points


def setup(ctx):
    ctx.build(PROPS)
    ctx.rule = (
        "exhaustive: chain influx -> S.. -v-> P.. -> efflux with <=2 substrate / <=2 product occurrences of 1-3 labels, "
        "padded positions N<=4, every map of length N (all N^N for N<=3, all permutations for N=4 in quick; all 4^4 in "
        "thorough) plus short / long / out-of-range maps; random: six network templates (chain, split+merge, cycle, "
        "bimolecular merge, A -> 2B, reversible pair) x label counts 1-3 x random permutations / arbitrary maps / "
        "broken inputs; each at random integer isotopomer states with power-of-two pools, and, where a positive flux "
        "mode exists, at an exact base steady state (two isotopomer distributions + a uniform-enrichment state). All builds "
        "of a case run on ONE LinearLabelMapper / ONE LabelMapper object; mapper reuse stratum: the same inputs on mapper "
        "objects that were built before with other maps / label counts / order / base model and then edited. Round 2: sides with "
        "3-4 entries (merges, splits, A->2B+C, branch point); fluxes 2^-40..2^20 and pools down to 2^-20 by exact dyadic scaling; one "
        "direct evaluation per case (free pools / fluxes spread over 35 binary orders / enrichments k/8) against the documented "
        "per-position transfers; linear-only stratum for compounds with 9-13 positions. "
        "distinct = distinct (lv, maps, init, base, evals)"
    )
    ctx.assumptions += [
        "pool sizes (concs) are non-zero",
        "base names contain no '__'; stoichiometric coefficients are integers (no Derived coefficients)",
        "float rounding not modelled: pools are powers of two, amounts integers, rate constants dyadic; compared exactly",
    ]
    ctx.trusted_base += ["Model.get_right_hand_side / get_fluxes (C01); pandas Series -> dict"]


def run_cases(ctx, cases):
    B = 300
    for i in range(0, len(cases), B):
        chunk = cases[i:i + B]
        for case, (R, M) in zip(chunk, evaluate(chunk, ctx.driver_ok)):
            judge_case(ctx, case, R, M)
        if len(ctx.violations) > 20:
            break


def run(ctx):
    setup(ctx)
    rng = ctx.rng
    ex = exhaustive_cases(rng, ctx.tier)
    ctx.exhaustive = True
    ctx.extra_cov["exhaustive_stratum"] = len(ex)
    run_cases(ctx, ex)
    n = ctx.n(3000, 100000)
    if not ctx.proof_ok or ctx.drift:
        n = max(n, 6000)
        ctx.notes.append("proof/correspondence broken: widened random search for a failing input")
    run_cases(ctx, [random_case(rng) for _ in range(n)])
    big = large_cases(rng, ctx.tier)
    ctx.extra_cov["many_positions_stratum"] = len(big)
    run_cases(ctx, big)
    rawc = raw_coefficient_cases(rng)
    ctx.extra_cov["raw_coefficient_stratum"] = len(rawc)
    run_cases(ctx, rawc)
    reuse = reuse_cases(rng, ctx.tier) + [random_reuse_case(rng) for _ in range(ctx.n(800, 20000))]
    ctx.extra_cov["mapper_reuse_stratum"] = len(reuse)
    run_cases(ctx, reuse)
    if ctx.violations:
        c05.shrink(ctx, judge_case, evaluate)


def replay(ctx, rp):
    case = rp["case"]
    if "evals" not in case:
        case = with_evals(ctx.rng, case, try_steady=False) if "ok" in spec_build(case) else dict(case, evals=[])
    (R, M), = evaluate([case], ctx.driver_ok)
    print("R =", R, "\nM =", M, "\nS.build =", spec_build(case))
    if "ok" in spec_build(case) and case_class(case)[0]:
        print("S.rxns =", spec_linear_rxns(case))
    judge_case(ctx, case, R, M)
