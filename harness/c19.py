"""C19 — result caching is transparent and survives interruption (DESIGN §6/C19, design.d/C19.md).

R  real `mxlpy.parallel.parallelise(..., cache=Cache(dir))`, run to completion or REALLY killed:
   a forked child runs the public function; the worker function arms the fault just before the save of the
   victim key (RLIMIT_FSIZE = j with SIGXFSZ at its default action kills the process when byte j+1 is written,
   for EVERY j; SIGKILL before the open; SIGKILL inside the rename).  Pool runs arm several victims at once.
M  Lean model (driver op "c19": `crashedRun` / `runKilled` / `run` on the file-system model with the save shape
   the translator read from parallel.py).
S  declarative oracle: a complete run returns fn(v) for every key; it calls fn exactly for the keys that had no
   complete result file before it started.
"""
from __future__ import annotations

import concurrent.futures as cf
import os
import pickle
import shutil
import signal
import sys
from pathlib import Path

from vlib import driver
from vlib.framework import REPO, WORK

PROPS = ["MxlVerif.Props.C19"]
SCRATCH = WORK / "c19"


# ----------------------------------------------------------------------------- payloads
def build(vid: int, spec):
    """the result object of input `vid` (content depends on vid, so a mixed-up key is visible)"""
    kind, m = spec
    if kind == "int":
        return vid  # 5 bytes pickled for vid < 256
    if kind == "str":
        return chr(48 + vid) + "x" * (max(m, 1) - 1)  # first character identifies the input
    if kind == "list":
        return [vid] * m
    if kind == "series":
        import pandas as pd
        return pd.Series([float(vid)] * m, name=f"v{vid}")
    raise ValueError(kind)


def psize(vid: int, spec) -> int:
    return len(pickle.dumps(build(vid, spec)))


def work(v):
    """module-level worker (picklable for pebble): logs the call, arms the fault, returns the payload"""
    vid, spec, inj, log = v
    fd = os.open(log, os.O_WRONLY | os.O_APPEND | os.O_CREAT)
    os.write(fd, f"{vid}\n".encode())
    os.close(fd)
    res = build(vid, spec)
    if inj is not None:
        if inj[0] == "kill":
            os.kill(os.getpid(), signal.SIGKILL)
        elif inj[0] == "fsize":
            import resource
            signal.signal(signal.SIGXFSZ, signal.SIG_DFL)
            resource.setrlimit(resource.RLIMIT_FSIZE, (inj[1], inj[1]))
        elif inj[0] == "rename":
            import pathlib

            def die(*a, **k):
                os.kill(os.getpid(), signal.SIGKILL)

            os.replace = os.rename = die
            pathlib.Path.replace = pathlib.Path.rename = die
            shutil.move = die
        elif inj[0] == "after-rename":
            # the save ran to its last file operation; the process dies right after it (before anything that only
            # happens when the function returns / the interpreter cleans up)
            import pathlib
            real_os_replace, real_os_rename = os.replace, os.rename

            def replace_then_die(*a, **k):
                real_os_replace(*a, **k)
                os.kill(os.getpid(), signal.SIGKILL)

            def rename_then_die(*a, **k):
                real_os_rename(*a, **k)
                os.kill(os.getpid(), signal.SIGKILL)

            def path_replace_then_die(self, target):
                real_os_replace(self, target)
                os.kill(os.getpid(), signal.SIGKILL)

            os.replace, os.rename = replace_then_die, rename_then_die
            pathlib.Path.replace = pathlib.Path.rename = path_replace_then_die
    return res


# ----------------------------------------------------------------------------- real side
def decode_key(ks):
    """replayable description of a key -> the hashable handed to parallelise"""
    if ks[0] == "t":
        return tuple(decode_key(x) for x in ks[1])
    return ks[1]


def real_keys(case) -> dict:
    """label (the model's key) -> real key; labels without an entry are their own key"""
    rk = case.get("realkeys", {})
    return {k: (decode_key(rk[k]) if k in rk else k) for k, _, _ in case["keys"]}


def _fname(key) -> str:
    from mxlpy.parallel import Cache
    return Cache().name_fn(key)  # whatever naming the shipped default uses


def _listing(d: Path):
    return {p.name: (p.stat().st_size, p.stat().st_mtime_ns) for p in d.iterdir()}


def _final_state(d: Path, key, vid: int, spec):
    p = d / _fname(key)
    if not p.is_file():
        return "absent"
    got = p.read_bytes()
    want = pickle.dumps(build(vid, spec))
    if got == want:
        return "full"
    if want.startswith(got):
        return ["prefix", len(got)]
    return ["other", len(got)]


def _obs_fs(d: Path, keys, before, rk):
    finals = {_fname(rk[k]) for k, _, _ in keys}
    now = _listing(d)
    strays = sorted(sz for name, (sz, mt) in now.items() if name not in finals and before.get(name) != (sz, mt))
    return {"final": [[k, _final_state(d, rk[k], vid, spec)] for k, vid, spec in keys], "strays": strays}


def _ident(keys, value):
    """which input's payload is this value"""
    b = pickle.dumps(value)
    for _, vid, spec in keys:
        if pickle.dumps(build(vid, spec)) == b:
            return vid
    return "other"


def _parallelise(keys, injs, d: Path, log: Path, workers: int, rk):
    from mxlpy.parallel import Cache, parallelise
    inputs = [(rk[k], (vid, spec, injs.get(k), str(log))) for k, vid, spec in keys]
    return parallelise(work, inputs, cache=Cache(tmp_dir=d), parallel=workers > 0,
                       max_workers=workers or None, disable_tqdm=True)


WATCHDOG_S = 90.0


def real_case(case: dict) -> list:
    """executes the script of one case in its own cache directory; returns one observation per step"""
    d = SCRATCH / f"case-{os.getpid()}-{case['id']}"
    shutil.rmtree(d, ignore_errors=True)
    cdir = d / "cache"
    cdir.mkdir(parents=True)
    log = d / "calls.log"
    keys = case["keys"]
    vid2key = {vid: k for k, vid, _ in keys}
    rk = real_keys(case)
    back = {v: k for k, v in rk.items()}
    out = []
    last = []
    try:
        for step in case["script"]:
            before = _listing(cdir)
            log.write_text("")
            if step[0] == "plant":
                # files that are in the directory before the run: left by an older version, copied, damaged, stale
                for k, vid, spec in keys:
                    what = step[1].get(k)
                    if what is None:
                        continue
                    name = _fname(rk[k])
                    blob = pickle.dumps(build(vid, spec))
                    if what[0] == "prefix":
                        (cdir / name).write_bytes(blob[: what[1]])
                    elif what[0] == "full":
                        (cdir / name).write_bytes(blob)
                    elif what[0] == "foreign":  # the complete pickle of ANOTHER input's result under this key's name
                        ok, ovid, ospec = next(x for x in keys if x[0] == what[1])
                        (cdir / name).write_bytes(pickle.dumps(build(ovid, ospec)))
                    elif what[0] == "stale-tmp":  # the temporary of a process that died long ago
                        (cdir / f"{name}.99999.tmp").write_bytes(blob[: what[1]])
                    elif what[0] == "garbage":
                        (cdir / name).write_bytes(b"\x00not a pickle")
                    else:
                        raise ValueError(what)
                out.append({"fs": _obs_fs(cdir, keys, before, rk), "planted": len(step[1])})
            elif step[0] == "mutate":
                # the caller works on what the last run returned, in place (normalises a list, rescales a frame ...)
                n = 0
                for _, v in last:
                    if isinstance(v, list):
                        v.clear()
                        v.append("edited by the caller")
                        n += 1
                    elif hasattr(v, "iloc"):
                        v.iloc[:] = -12345.0
                        n += 1
                out.append({"fs": _obs_fs(cdir, keys, before, rk), "mutated": n})
            elif step[0] in ("seqcrash", "poolcrash"):
                injs = {k: tuple(i) for k, i in step[1].items()}
                workers = 0 if step[0] == "seqcrash" else step[2]
                sys.stdout.flush()
                pid = os.fork()
                if pid == 0:
                    code = 0
                    try:
                        os.setsid()  # own process group: the watchdog below can end the run and its pool together
                        _parallelise(keys, injs, cdir, log, workers, rk)
                    except BaseException:  # noqa: BLE001  ProcessExpired / load errors end the run
                        code = 3
                    os._exit(code)
                # watchdog: a pool whose worker was killed at an unlucky instant can wait for ever (observed once in
                # a thorough run); ending it from outside is just one more crash point, but its on-disk state is then
                # not the one the model predicts for the scripted cut, so the case is reported as inconclusive
                import signal
                import time as _time

                deadline = _time.time() + WATCHDOG_S
                st = None
                while True:
                    done, st = os.waitpid(pid, os.WNOHANG)
                    if done:
                        break
                    if _time.time() > deadline:
                        try:
                            os.killpg(pid, signal.SIGKILL)
                        except ProcessLookupError:
                            pass
                        os.waitpid(pid, 0)
                        return [{"inconclusive": "crash-injected run did not end within the watchdog limit"}]
                    _time.sleep(0.01)
                how = "killed" if os.WIFSIGNALED(st) else ("raised" if os.WEXITSTATUS(st) else "completed")
                out.append({"fs": _obs_fs(cdir, keys, before, rk), "ended": how})
            elif step[0] == "run":
                have = {k for k, vid, spec in keys if _final_state(cdir, rk[k], vid, spec) == "full"}
                try:
                    res = _parallelise(keys, {}, cdir, log, step[1], rk)
                    last = res
                    o = ["ok", [[back.get(k, repr(k)), _ident(keys, v)] for k, v in res]]
                except (pickle.UnpicklingError, EOFError):
                    o = "error"
                except pickle.PickleError:
                    o = "error"
                except OSError as e:  # the cache could not even be written
                    o = f"raised:{type(e).__name__}"
                except Exception as e:  # noqa: BLE001  a complete run must not raise at all: report it as its outcome
                    o = f"raised:{type(e).__name__}"
                calls = sorted(vid2key[int(x)] for x in log.read_text().split())
                out.append({"out": o, "calls": calls, "fs": _obs_fs(cdir, keys, before, rk),
                            "uncached_before": sorted(k for k, _, _ in keys if k not in have)})
            else:
                raise ValueError(step)
    finally:
        shutil.rmtree(d, ignore_errors=True)
    return out


# ----------------------------------------------------------------------------- model side
_OPS_CACHE: dict = {}


def ops_of(n: int) -> list:
    """kinds of the file operations of one save of an n-byte pickle, from the model (memoised)"""
    if n not in _OPS_CACHE:
        (_OPS_CACHE[n],) = driver.call_batch([{"op": "c19", "mode": "gen", "sizes": [[1, n]], "ops": 1}])
    return _OPS_CACHE[n]


def ncuts(ops: list) -> int:
    """number of kill points of one save: before each file operation, and after the last one when that is the rename"""
    return len(ops) + (1 if ops and ops[-1] == "rename" else 0)


def injection(ops: list, c: int):
    """the real fault that kills the process just before file operation number c (0-based) of the save"""
    if c == len(ops) and ops and ops[-1] == "rename":
        return ["after-rename"]  # every file operation done, killed before the save returns
    if c >= len(ops):
        return None
    k = ops[c]
    if k.startswith("open"):
        return ["kill"]
    if k.startswith("write"):
        return ["fsize", c - 1]
    if k == "rename":
        return ["rename"]
    raise ValueError(k)


def model_request(case: dict) -> dict:
    keys = case["keys"]
    script = []
    for step in case["script"]:
        if step[0] == "seqcrash":
            (victim, c), = step[3].items()
            script.append(["seqcrash", victim, c])
        elif step[0] == "poolcrash":
            prog = [[k, ["cut", step[3][k]] if k in step[3] else "d"] for k, _, _ in keys]
            script.append(["crash", prog])
        elif step[0] == "mutate":
            script.append(["crash", []])  # the caller's own objects are not files: nothing happens to the cache
        elif step[0] == "plant":
            ents = []
            for k, vid, spec in keys:
                what = step[1].get(k)
                if what is None or what[0] == "garbage":
                    continue
                if what[0] == "prefix":
                    ents.append([k, "final", vid, what[1]])
                elif what[0] == "full":
                    ents.append([k, "final", vid, psize(vid, spec)])
                elif what[0] == "foreign":
                    ok, ovid, ospec = next(x for x in keys if x[0] == what[1])
                    ents.append([k, "final", ovid, psize(ovid, ospec)])
                elif what[0] == "stale-tmp":
                    ents.append([k, "tmp", vid, what[1]])
            script.append(["plant", ents])
        else:
            script.append(["run"])
    return {"op": "c19", "mode": "gen", "sizes": [[vid, psize(vid, spec)] for _, vid, spec in keys],
            "inputs": [[k, vid] for k, vid, _ in keys], "script": script}


def model_obs(case: dict, resp: list) -> list:
    """driver snapshots -> the same observation format as the real side"""
    keys = case["keys"]
    sizes = {vid: psize(vid, spec) for _, vid, spec in keys}
    vid_of = {k: vid for k, vid, _ in keys}
    out = []
    prev_tmp = {k: "absent" for k, _, _ in keys}
    prev_fin = {k: "absent" for k, _, _ in keys}
    order = [k for k, _, _ in keys]
    for step, r in zip(case["script"], resp):
        fin = []
        for k, f in r["fs"]["final"]:
            if f == "absent":
                fin.append([k, "absent"])
            else:
                w, p = f
                if w != vid_of[k]:
                    fin.append([k, ["other", p]])  # a file that holds (a prefix of) another input's result
                else:
                    fin.append([k, "full" if p >= sizes[w] else ["prefix", p]])
        tmp = dict((k, f) for k, f in r["fs"]["tmp"])
        # temporaries written DURING this step.  The model has one temporary per key (the real name carries the pid),
        # so a victim that re-creates the very same state is recognised by "it reached its save": no result file yet,
        # killed after the open (and, sequentially, no earlier key stopped the run)
        rewrote = set()
        if step[0] in ("seqcrash", "poolcrash"):
            for k, c in step[3].items():
                reached = prev_fin[k] == "absent" and c >= 1
                if step[0] == "seqcrash":
                    reached = reached and not any(isinstance(prev_fin[e], list) for e in order[: order.index(k)])
                if reached:
                    rewrote.add(k)
        strays = sorted(f[1] for k, f in tmp.items() if f != "absent" and (f != prev_tmp[k] or k in rewrote))
        prev_tmp = tmp
        prev_fin = dict((k, st) for k, st in fin)
        o = {"fs": {"final": fin, "strays": strays}}
        if r.get("history_ok") is False:
            o["fs"]["history"] = "crashHistory disagrees with the step-by-step directory"  # shows up as drift
        if step[0] == "run":
            o["sched"], o["uncached"] = r.get("sched"), r.get("uncached")
            o["out"] = r["out"]
            o["calls"] = sorted(r["calls"])
        out.append(o)
    return out


# ----------------------------------------------------------------------------- generator
def mk_keys(specs):
    return [[f"k{i}", 10 + i, list(s)] for i, s in enumerate(specs)]


# keys as users produce them: scan index labels, replicate names, numbers, tuples from cartesian products.  Pairs that
# differ only in punctuation / whitespace / case are deliberate: every key owns its result.
KEY_POOL = [["s", x] for x in ["rep 1", "rep_1", "rep-1", "rep.1", "k_in*2", "k_in+2", "k_in 2", "a:b", "a;b", "f(1, 2)",
                               "f(1,2)", "A", "a", "0.1", "0,1", "α", "a b", "a  b", "-1", "_1", "x\ty", "50%", "50$",
                               "[1]", "{1}", "k1=2", "k1 2", "é", "e", "", " "]] \
    + [["n", x] for x in [0, 1, 2, 7, -1, 0.5, 1.5, 0.001, 1e6]] \
    + [["t", [["n", 1], ["n", 2]]], ["t", [["n", 1], ["n", 3]]], ["t", [["n", 2], ["s", "a"]]], ["t", [["n", 0.5], ["n", 1]]]] \
    + [["s", x] for x in ["k_in/2", "k_in/3", "a/b/c", "1", "7", "(1, 2)", "0.5", "..", ".", "%41", "A%", "a\\b"]]


def unusual_keys(rng, keys):
    """-> realkeys for the labels of `keys`: pairwise different keys drawn from KEY_POOL (text that differs only in
    punctuation, the same text under different types, path separators: every key owns its result)"""
    chosen, seen = [], set()
    pool = KEY_POOL[:]
    rng.shuffle(pool)
    # make a near-collision likely: start from a random neighbour pair of the pool's string part
    i = rng.randrange(0, 28)
    pool = [KEY_POOL[i], KEY_POOL[i + 1]] + pool
    for ks in pool:
        st = decode_key(ks)
        if st not in seen:  # equal as dict keys (1 == 1.0 == True) is the same key
            seen.add(st)
            chosen.append(ks)
        if len(chosen) == len(keys):
            break
    rng.shuffle(chosen)
    return {k: ks for (k, _, _), ks in zip(keys, chosen)}


def outside_model(case) -> bool:
    """key sets that the SHIPPED default name_fn does not map to distinct plain file names: the model's paths `final k`
    (one file per key) do not describe them"""
    ks = [_fname(v) for v in real_keys(case).values()]
    return len(set(ks)) != len(ks) or any("/" in x or "\0" in x or len(x) > 250 for x in ks)


def seq_case(cid, specs, victim_idx, c, reruns=(0, 0)):
    keys = mk_keys(specs)
    k, vid, spec = keys[victim_idx]
    ops = ops_of(psize(vid, spec))
    inj = injection(ops, c)
    script = [["seqcrash", {k: inj} if inj else {}, 0, {k: c}]]
    script += [["run", w] for w in reruns]
    return {"id": cid, "keys": keys, "script": script, "nops": len(ops)}


def pool_case(cid, specs, cuts: dict, workers, reruns=(0, 0)):
    keys = mk_keys(specs)
    injs, cs = {}, {}
    for idx, c in cuts.items():
        k, vid, spec = keys[idx]
        ops = ops_of(psize(vid, spec))
        c = min(c, len(ops) - 1)
        injs[k] = injection(ops, c)
        cs[k] = c
    script = [["poolcrash", injs, workers, cs]] + [["run", w] for w in reruns]
    return {"id": cid, "keys": keys, "script": script}


SPECS_QUICK = [("int", 0), ("str", 1), ("str", 8), ("list", 20), ("str", 130), ("str", 385)]
SPECS_THOROUGH = SPECS_QUICK + [("str", 40), ("list", 64), ("str", 250), ("series", 4), ("series", 64)]


def gen_cases(ctx):
    """exhaustive stratum (seed-independent): every cut point of every payload, victim at each position"""
    cases = []
    cid = 0
    specs_all = SPECS_THOROUGH if ctx.tier == "thorough" else SPECS_QUICK
    for spec in specs_all:
        n = psize(10, spec)
        nops = len(ops_of(n))
        for pos in range(3):
            others = [("int", 0), ("str", 12)]
            specs = others[:pos] + [spec] + others[pos:]
            for c in range(ncuts(ops_of(n))):  # c = nops: killed right after the last file operation (the rename)
                if pos != 1 and ctx.tier != "thorough" and n > 150 and c % 3 and c != nops:
                    continue  # quick tier: every offset with the victim in the middle, every third at the ends
                cases.append(seq_case(cid, specs, pos, c))
                cid += 1
    # random stratum: longer histories, pool kills with several victims, parallel reruns
    rng = ctx.rng
    for _ in range(ctx.n(24, 400)):
        nk = rng.randint(2, 6)
        specs = [rng.choice(specs_all) for _ in range(nk)]
        keys = mk_keys(specs)
        script = []
        for _ in range(rng.randint(1, 3)):
            if rng.random() < 0.5:
                idx = rng.randrange(nk)
                k, vid, spec = keys[idx]
                ops = ops_of(psize(vid, spec))
                c = rng.randrange(ncuts(ops))
                script.append(["seqcrash", {k: injection(ops, c)}, 0, {k: c}])
            else:
                injs, cs = {}, {}
                for idx in rng.sample(range(nk), rng.randint(1, min(3, nk))):
                    k, vid, spec = keys[idx]
                    ops = ops_of(psize(vid, spec))
                    c = rng.randrange(ncuts(ops))
                    injs[k], cs[k] = injection(ops, c), c
                script.append(["poolcrash", injs, rng.choice([2, 2, 16]), cs])
        script.append(["run", rng.choice([0, 2, 16])])
        script.append(["run", rng.choice([0, 0, 2])])
        case = {"id": cid, "keys": keys, "script": script}
        if rng.random() < 0.6:
            case["realkeys"] = unusual_keys(rng, keys)
        cases.append(case)
        cid += 1
    # no-crash transparency: plain run, rerun, with and without pool
    for w in (0, 2, 16):
        cases.append({"id": cid, "keys": mk_keys(specs_all[:5]), "script": [["run", w], ["run", 0], ["run", w]]})
        cid += 1
    # no-crash transparency over unusual key sets (each neighbouring pair of the pool at least once in the thorough tier)
    for j in range(ctx.n(14, 60)):
        keys = mk_keys([rng.choice(specs_all[:4]) for _ in range(rng.randint(2, 5))])
        w = rng.choice([0, 0, 2])
        cases.append({"id": cid, "keys": keys, "realkeys": unusual_keys(rng, keys), "script": [["run", w], ["run", 0]]})
        cid += 1
    # repeated use in ONE interpreter: results come back from disk, the caller edits them in place, the next run
    # must again return what is on disk
    mutable = [("list", 20), ("list", 3), ("series", 4), ("str", 8), ("int", 0)]
    for j in range(ctx.n(8, 60)):
        keys = mk_keys([rng.choice(mutable[:3])] + [rng.choice(mutable) for _ in range(rng.randint(1, 3))])
        script = [["run", rng.choice([0, 0, 2])], ["run", 0], ["mutate"], ["run", 0]]
        if rng.random() < 0.5:
            script += [["mutate"], ["run", rng.choice([0, 2])]]
        if rng.random() < 0.3:
            script = [["mutate"] if st == ["run", 0] and i == 1 else st for i, st in enumerate(script)]  # edit the FIRST run's results
        case = {"id": cid, "keys": keys, "script": script}
        if rng.random() < 0.3:
            case["realkeys"] = unusual_keys(rng, keys)
        cases.append(case)
        cid += 1
    # files that are there before the run (seed-independent): truncated result files (what the pinned version left behind),
    # another input's complete result under this key's name, bytes that are no pickle, a dead process's temporary
    base = [("int", 0), ("str", 16), ("list", 5)]
    n1 = psize(11, base[1])
    for what, tag in [(["prefix", 0], "truncated"), (["prefix", 1], "truncated"), (["prefix", n1 // 2], "truncated"),
                      (["prefix", n1 - 1], "truncated"), (["foreign", "k0"], "foreign"), (["foreign", "k2"], "foreign"),
                      (["garbage"], "garbage"), (["stale-tmp", 3], None), (["stale-tmp", n1], None), (["full"], None)]:
        for w in ((0, 2) if tag != "garbage" else (0,)):
            case = {"id": cid, "keys": mk_keys(base), "script": [["plant", {"k1": what}], ["run", w], ["run", 0]]}
            if tag:
                case["foreign_files"] = tag
            cases.append(case)
            cid += 1
    # DOTTED file names (seed-independent): float keys and text with a dot — the result file is `0.5.p`, the temporary
    # `0.5.p.<pid>.tmp`; a run killed between opening the temporary and the rename leaves that temporary behind, and every
    # later run with the directory must still complete (nothing may parse these names by their dots)
    dotted = {"k0": ["n", 0.5], "k1": ["n", 1.5], "k2": ["s", "v1.2"]}
    dspecs = [("int", 0), ("str", 8), ("list", 5)]
    for pos in range(3):
        nops_d = len(ops_of(psize(10 + pos, dspecs[pos])))
        for c in (1, 2, nops_d - 1):  # after the open, after the first byte, right before the rename
            case = seq_case(cid, dspecs, pos, c, reruns=(0, 2))
            case["realkeys"] = dotted
            cases.append(case)
            cid += 1
    case = pool_case(cid, dspecs, {0: 2, 2: 1}, 2, reruns=(0, 0))
    case["realkeys"] = dotted
    cases.append(case)
    cid += 1
    # ... and a dead process's temporary planted next to a dotted result name
    for what in (["stale-tmp", 3], ["stale-tmp", 0]):
        cases.append({"id": cid, "keys": mk_keys(dspecs), "realkeys": dotted,
                      "script": [["plant", {"k0": what, "k2": what}], ["run", 0], ["run", 2]]})
        cid += 1
    # F-C19-2: keys the default file naming cannot hold apart / cannot write
    cases.append({"id": cid, "keys": mk_keys([("int", 0), ("str", 8)]), "realkeys": {"k0": ["s", "k_in/2"]},
                  "script": [["run", 0]]})
    cases.append({"id": cid + 1, "keys": mk_keys([("int", 0), ("str", 8)]), "realkeys": {"k0": ["n", 1], "k1": ["s", "1"]},
                  "script": [["run", 0], ["run", 0]]})
    return cases


# ----------------------------------------------------------------------------- verdicts
def shape_of(case):
    kinds = "+".join((s[0][:4] + (str(s[2]) if s[0] == "poolcrash" else "") + ("-" + "-".join(str(x) for v in s[1].values() for x in v)
                                                                                     if s[0] == "plant" else ""))
                     if s[0] != "run" else f"run{s[1]}" for s in case["script"])
    return f"{len(case['keys'])}keys:{kinds}"


def judge_case(ctx, case, R, M):
    if R and isinstance(R[0], dict) and "inconclusive" in R[0]:
        ctx.hist["inconclusive_watchdog"] = ctx.hist.get("inconclusive_watchdog", 0) + 1
        if ctx.hist["inconclusive_watchdog"] > 25:
            # far too many hangs to be the rare kill-at-an-unlucky-instant: something is wrong, say so
            ctx.violation({"id": case["id"], "keys": case["keys"], "script": case["script"]}, R[0],
                          "crash-injected runs keep hanging (more than 25 in one check)")
        return
    ctx.count(case, shape_of(case), nontrivial=True)
    keys = case["keys"]
    all_ok = ["ok", [[k, vid] for k, vid, _ in keys]]
    for i, step in enumerate(case["script"]):
        r = R[i]
        m = None if M is None else M[i]
        sub = {"id": case["id"], "keys": keys, "script": case["script"][: i + 1]}
        if "realkeys" in case:
            sub["realkeys"] = case["realkeys"]
        if outside_model(case):
            m = None
        if step[0] == "mutate":
            continue
        if step[0] == "plant":
            continue
        if step[0] != "run":
            # interrupted run: nothing is promised about the files; this validates the model's crash states
            if m is not None and r["fs"] != m["fs"]:
                ctx.add_drift(sub, r["fs"], m["fs"], f"files after interrupted run (step {i})")
            continue
        broken = any(isinstance(st, list) for _, st in (R[i - 1]["fs"]["final"] if i else []))
        foreign = case.get("foreign_files")
        if foreign == "garbage":
            # bytes that are no pickle at all: outside the model; the run must say so, never return something
            ctx.judge(sub, {"out": r["out"]}, {"out": "error"}, None, what="a result file that is no pickle: the run raises (nothing is served)")
            continue
        if foreign:
            # a directory the shipped code cannot have produced (truncated result file of an older version, a copied
            # file): nothing is promised; this validates the model's load branch (`loadError`, serve-what-is-there)
            Rv = {"out": r["out"], "calls": r["calls"]}
            Mv = None if m is None else {"out": m["out"], "calls": m["calls"]}
            if Mv is not None and step[1] > 0 and Mv["out"] == "error":
                Mv["calls"] = Rv["calls"]  # after a load error the pool still finishes other keys; only `out` is modelled
            ctx.hist[f"foreign:{foreign}:{r['out'] if isinstance(r['out'], str) else 'served'}"] = ctx.hist.get(
                f"foreign:{foreign}:{r['out'] if isinstance(r['out'], str) else 'served'}", 0) + 1
            if Mv is not None and Rv != Mv:
                ctx.add_drift(sub, Rv, Mv, f"complete run over planted {foreign} result files (step {i})")
            continue
        S = {"out": all_ok, "calls": r["uncached_before"]}
        Rv = {"out": r["out"], "calls": r["calls"]}
        Mv = None if m is None else {"out": m["out"], "calls": m["calls"]}
        if Mv is not None and step[1] > 0 and Mv["out"] == "error":
            Mv["calls"] = Rv["calls"]  # after a load error the pool still finishes other keys; only `out` is modelled
        if outside_model(case):
            ctx.judge(sub, Rv, S, None, finding="F-C19-2", what="complete run over keys the default name_fn cannot hold apart")
            continue
        ctx.judge(sub, Rv, S, Mv, finding="F-C19-1" if broken else None,
                  what=f"complete run (step {i}, workers={step[1]}) after {[s[0] for s in case['script'][:i]]}")
        if m is not None and Rv["out"] != "error" and r["fs"] != m["fs"]:
            ctx.add_drift(sub, r["fs"], m["fs"], f"files after complete run (step {i})")
        if m is not None and m.get("sched") is not None and isinstance(Rv["out"], list) and m["out"] != "refused":
            # the model's pool order (keys processed in reverse, reported in input order) and its uncached run, against
            # what the real run (sequential or pool) returned
            if m["sched"] != Rv["out"] or m["uncached"] != Rv["out"]:
                ctx.add_drift(sub, Rv["out"], {"sched": m["sched"], "uncached": m["uncached"]},
                              f"model's reverse-order schedule / uncached run vs the real results (step {i})")


def evaluate(ctx, cases):
    SCRATCH.mkdir(parents=True, exist_ok=True)
    import mxlpy.parallel  # noqa: F401  imported once here; the forked case runners inherit it
    with cf.ProcessPoolExecutor(max_workers=min(16, os.cpu_count() or 4)) as ex:
        Rs = list(ex.map(real_case, cases, chunksize=4))
    if ctx.driver_ok:
        resp = driver.call_batch([model_request(c) for c in cases])
        Ms = [model_obs(c, r) for c, r in zip(cases, resp)]
    else:
        Ms = [None] * len(cases)
    return Rs, Ms


# ----------------------------------------------------------------------------- scans
def influx(k):
    return k


def drain(k, x):
    return k * x


def lin_model():
    from mxlpy import Model

    return (Model().add_variable("x", 1.0).add_parameters({"kin": 1.0, "kout": 0.5})
            .add_reaction("vin", influx, args=["kin"], stoichiometry={"x": 1})
            .add_reaction("vout", drain, args=["kout", "x"], stoichiometry={"x": -1}))


class CountingWorker:
    """wraps the shipped scan worker; counts calls in a file (works for parallel=False)"""

    def __init__(self, inner, log):
        self.inner, self.log = inner, log

    def __call__(self, *a, **k):
        with open(self.log, "a") as f:
            f.write("1\n")
        return self.inner(*a, **k)


def scan_stratum(ctx):
    import contextlib
    import io
    with contextlib.redirect_stderr(io.StringIO()):  # scans own their tqdm bars
        _scan_stratum(ctx)


def dupfn(v):
    return v * 2


def dup_stratum(ctx):
    """two inputs under ONE key: without a cache both are computed; with a cache the run must either refuse visibly or
    still return what the uncached run returns — never serve one input's result for the other"""
    import numpy as np
    from mxlpy.parallel import Cache, parallelise
    d = SCRATCH / f"dup-{os.getpid()}"
    for name, inputs in [("same-key-twice", [("a", 1), ("b", 2), ("a", 3)]),
                         ("equal-number-keys", [(0.5, 1), (np.float64(0.5), 2)]),
                         ("one-and-true", [(1, 5), (True, 6), (2, 7)]),
                         # keys that are NOT equal but are written alike: two NaN (same file name)
                         ("two-nan-keys", [(float("nan"), 1), (float("nan"), 2)]),
                         ("nan-among-numbers", [(0.5, 1), (float("nan"), 2), (2.0, 3), (float("nan"), 4)]),
                         # equal under == but written differently
                         ("one-and-one-point-zero", [(1, 5), (1.0, 6)])]:
        for par in (False, True):
            shutil.rmtree(d, ignore_errors=True)
            plain = parallelise(dupfn, inputs, parallel=par, max_workers=2, disable_tqdm=True)
            try:
                cached = parallelise(dupfn, inputs, cache=Cache(tmp_dir=d), parallel=par, max_workers=2, disable_tqdm=True)
                R = "same-as-uncached" if [v for _, v in cached] == [v for _, v in plain] else f"different:{[v for _, v in cached]}"
            except ValueError:
                R = "refused"
            M = None
            if ctx.driver_ok:
                labels = {}
                ins = [[labels.setdefault(Cache().name_fn(k), f"k{len(labels)}"), 10 + i] for i, (k, _) in enumerate(inputs)]
                (resp,) = driver.call_batch([{"op": "c19", "mode": "gen", "sizes": [[10 + i, 5] for i in range(len(inputs))],
                                              "inputs": ins, "script": [["run"]]}])
                out = resp[0]["out"]
                M = "refused" if out == "refused" else (
                    "same-as-uncached" if out[0] == "ok" and [w for _, w in out[1]] == [v for _, v in ins] else f"different:{out}")
            case = {"dup": name, "parallel": par}
            ctx.count(case, f"dup:{name}:parallel={par}")
            ok = {"refused", "same-as-uncached"}
            ctx.judge(case, "ok" if R in ok else R, "ok", None if M is None else ("ok" if M in ok else M),
                      what=f"repeated key with a cache: {R} (model: {M})")
    shutil.rmtree(d, ignore_errors=True)


# ----------------------------------------------------------------------------- file names of keys
NAME_ALPHABET = ["a", "Z", "0", "9", "_", ".", "-", "~", "/", "\\", "%", " ", "'", '"', "\n", "\t", "\x00", "é", "α", "日",
                 "🧪", ":", "*", "?", "+", "=", "&", "#", "(", ",", ")", "p", "2", "5", "F", "f"]
NAME_SPECIALS = ["", "/", "..", ".", "%", "%25", "%2F", "a%2Fb", "a/b", "a\\b", "\x00", "\n", "ä", "🧪", "日本語", ".p", "x.p", "x.p.1.tmp",
                 "~", "a~b", "x" * 300, "k" * 100 + "/" * 50, None, True, False, 0, 1, 1.0, -0.0, float("inf"), 10 ** 30, b"a/b", b"",
                 (), (1,), (1, "1"), ("a/b", 2.5), ((1, 2), (3,)), frozenset(), frozenset({1})]
_SPY_SEEN = []


class _Spy:
    """a payload that looks at the directory WHILE it is being pickled: that is when the temporary sibling exists"""

    def __init__(self, d):
        self.d = d

    def __reduce__(self):
        _SPY_SEEN.append(sorted(os.listdir(self.d)))
        return (int, (0,))


def hand_quote(text: str) -> str:
    """percent-encoding written out by hand (oracle): UTF-8 bytes; ASCII letters, digits and _ . - ~ stay, every other
    byte becomes %XX (upper-case hexadecimal)"""
    keep = set(b"ABCDEFGHIJKLMNOPQRSTUVWXYZabcdefghijklmnopqrstuvwxyz0123456789_.-~")
    return "".join(chr(b) if b in keep else "%" + "0123456789ABCDEF"[b // 16] + "0123456789ABCDEF"[b % 16] for b in text.encode("utf-8"))


def names_stratum(ctx):
    """`Cache().name_fn(key)` (R) vs the Lean `defaultName` under the generated scheme (M) vs a hand-written encoder (S),
    byte for byte, over text with separators / percent signs / non-ASCII / control characters, numbers, tuples, bytes;
    set-level: different keys never share a name, no name can leave the directory; and the REAL temporary name used by
    `_pickle_save` (seen from inside the dump) vs the Lean `tmpName` with the generated constant parts."""
    import re
    from urllib.parse import unquote

    from mxlpy.parallel import Cache
    rng = ctx.rng
    keys = [decode_key(ks) for ks in KEY_POOL] + list(NAME_SPECIALS)
    for _ in range(ctx.n(300, 6000)):
        keys.append("".join(rng.choice(NAME_ALPHABET) for _ in range(rng.choice([0, 1, 1, 2, 3, 5, 8, 12]))))
    for _ in range(ctx.n(40, 600)):
        keys.append(tuple(rng.choice([rng.choice(NAME_ALPHABET) * rng.randint(1, 3), rng.randint(-3, 3), rng.choice([0.5, 1e-3, 2.0])])
                          for _ in range(rng.randint(1, 3))))
    uniq, seen = [], set()
    for k in keys:
        ident = (type(k).__name__, repr(k))
        if ident not in seen:
            seen.add(ident)
            uniq.append(k)
    cache = Cache()
    pid = os.getpid()
    names = [cache.name_fn(k) for k in uniq]
    Ms = [None] * len(uniq)
    if ctx.driver_ok:
        Ms = driver.call_batch([{"op": "c19", "name": {"str": list(str(k).encode("utf-8", "backslashreplace")),
                                                      "repr": list(repr(k).encode("utf-8")), "pid": pid}} for k in uniq])
    pat = re.compile(r"(?:%[0-9A-F]{2}|[A-Za-z0-9_.~-])*\.p")
    hist = {}
    for k, name, m in zip(uniq, names, Ms):
        kind = type(k).__name__ + (":sep" if isinstance(k, str) and ("/" in k or "\\" in k) else "") + (
            ":pct" if isinstance(k, str) and "%" in k else "") + (":nonascii" if isinstance(k, str) and not k.isascii() else "") + (
            ":ctrl" if isinstance(k, str) and any(ord(c) < 32 for c in k) else "") + (":empty" if k == "" else "") + (
            ":long" if len(name) > 255 else "")
        hist[kind] = hist.get(kind, 0) + 1
        case = {"name_of": repr(k), "type": type(k).__name__}
        ctx.count(case, f"name:{kind}")
        R = {"final": list(name.encode("utf-8")), "decodes_to_repr": unquote(name[:-2]) == repr(k), "alphabet": bool(pat.fullmatch(name))}
        S = {"final": list((hand_quote(repr(k)) + ".p").encode()), "decodes_to_repr": True, "alphabet": True}
        M = None if m is None else {"final": m["final"], "decodes_to_repr": m["decoded"] == list(repr(k).encode("utf-8")),
                                    "alphabet": bool(m["safe"]) and bool(m["partsOk"])}
        ctx.judge(case, R, S, M, what="file name of a key: percent-encoded repr + '.p', byte for byte")
    ctx.extra_cov["name_kinds"] = dict(sorted(hist.items()))
    # set level: different keys, different names; nothing can leave the directory
    clash = [(repr(a), repr(b)) for i, (a, na) in enumerate(zip(uniq, names)) for b, nb in zip(uniq[:i], names[:i]) if na == nb] \
        if len(set(names)) != len(names) else []
    case = {"name_set": len(uniq)}
    ctx.count(case, "name:set-level")
    ctx.judge(case, {"clashes": clash[:3], "unsafe": [n for n in names if "/" in n or "\0" in n or "\\" in n][:3]},
              {"clashes": [], "unsafe": []}, None, what="different keys never share a file name; no name holds a separator")
    # the temporary sibling, observed from inside pickle.dump
    d = SCRATCH / f"names-{pid}"
    shutil.rmtree(d, ignore_errors=True)
    d.mkdir(parents=True)
    finals = set(names)
    short = [(k, n, m) for k, n, m in zip(uniq, names, Ms) if len(n) < 200]
    rng.shuffle(short)
    for k, name, m in short[: ctx.n(60, 600)]:
        del _SPY_SEEN[:]
        before = set(os.listdir(d))
        cache.save_fn(d / name, _Spy(d))
        during = set(_SPY_SEEN[0]) - before if _SPY_SEEN else set()
        after = set(os.listdir(d))
        tmp = sorted(during - {name})
        case = {"tmp_name_of": repr(k)}
        ctx.count(case, "name:tmp")
        R = {"tmp": [list(t.encode("utf-8")) for t in tmp], "is_a_result_name": any(t in finals for t in tmp),
             "safe": not any("/" in t or "\0" in t for t in tmp), "left_behind": sorted(after - before - {name}), "final_written": name in after}
        S = {"tmp": R["tmp"] if len(tmp) == 1 else ["exactly one temporary expected"], "is_a_result_name": False, "safe": True,
             "left_behind": [], "final_written": True}
        M = None if m is None else {"tmp": [m["tmp"]], "is_a_result_name": False, "safe": bool(m["safe"]), "left_behind": [], "final_written": True}
        ctx.judge(case, R, S, M, what="temporary sibling of a save: one file, not a result name, renamed away afterwards")
    shutil.rmtree(d, ignore_errors=True)


# ----------------------------------------------------------------------------- two writers of one key; the cache directory
def _hammer(args):
    """one process saving ITS payload under the shared name again and again through the shipped save_fn"""
    path, payload, n = args
    from mxlpy.parallel import Cache
    c = Cache()
    for _ in range(n):
        c.save_fn(Path(path), payload)
    return os.getpid()


def writers_stratum(ctx):
    """(a) the two-writers model through the driver: random schedules and cuts — under the result file's name there is, after
    EVERY operation, nothing or one writer's complete result (the theorem's statement, executed); (b) the real thing: two
    processes save different payloads under ONE name at the same time while this process keeps loading the file: every load
    must give one of the two payloads, completely"""
    rng = ctx.rng
    if ctx.driver_ok:
        reqs = []
        for _ in range(ctx.n(60, 1500)):
            n = rng.choice([0, 1, 2, 5, 9])
            reqs.append({"size": n, "cutA": rng.randrange(n + 4), "cutB": rng.randrange(n + 4),
                         "schedule": [rng.choice("AB") for _ in range(rng.randint(0, 2 * n + 6))]})
        for rq, m in zip(reqs, driver.call_batch([{"op": "c19", "writers": rq} for rq in reqs])):
            case = {"writers_model": rq}
            ctx.count(case, f"writers:model:size{rq['size']}:{'cut' if min(rq['cutA'], rq['cutB']) < rq['size'] + 2 else 'complete'}")
            ok = {json_key("absent"), json_key([1, rq["size"]]), json_key([2, rq["size"]])}
            bad = [x for x in m["seen"] if json_key(x) not in ok]
            ctx.judge(case, {"partial_seen": bad[:2], "fold_same": m["same"]}, {"partial_seen": [], "fold_same": True}, None,
                      what="two writers, one result file (model): after every operation absent or a complete result")
    # the real writers
    d = SCRATCH / f"writers-{os.getpid()}"
    shutil.rmtree(d, ignore_errors=True)
    d.mkdir(parents=True)
    from mxlpy.parallel import Cache
    cache = Cache(tmp_dir=d)
    for rep in range(ctx.n(2, 12)):
        name = cache.name_fn(f"shared key {rep}")
        pa, pb = ["A"] * (50 + 400 * rep), {"B": list(range(30 + 300 * rep))}
        path = d / name
        seen, errors = set(), []
        with cf.ProcessPoolExecutor(max_workers=2) as ex:
            futs = [ex.submit(_hammer, (str(path), pl, 150)) for pl in (pa, pb)]
            while not all(f.done() for f in futs):
                if path.exists():
                    try:
                        v = cache.load_fn(path)
                        seen.add("A" if v == pa else ("B" if v == pb else "other"))
                    except FileNotFoundError:
                        pass
                    except Exception as e:  # noqa: BLE001
                        errors.append(type(e).__name__)
            pids = [f.result() for f in futs]
        left = sorted(x for x in os.listdir(d) if x != name and x.startswith(name))
        case = {"writers_real": rep}
        ctx.count(case, "writers:real")
        ctx.judge(case, {"load_errors": errors[:3], "values": sorted(seen - {"A", "B"}), "temporaries_left": left, "pids_differ": pids[0] != pids[1]},
                  {"load_errors": [], "values": [], "temporaries_left": [], "pids_differ": True}, None,
                  what="two processes saving under one name while a reader loads: only complete payloads, no temporaries left")
    shutil.rmtree(d, ignore_errors=True)


def json_key(x):
    import json
    return json.dumps(x)


def dirfn(v):
    return v + 1


def dir_stratum(ctx):
    """the cache DIRECTORY: nested and not there yet, partly there (a run killed inside `mkdir(parents=True)`), removed between
    two runs, there already — a cached run returns the uncached results every time and recomputes exactly what is not on
    disk (model: an empty directory is the empty file system); a FILE where the directory should be is an error, not a result"""
    from mxlpy.parallel import Cache, parallelise
    base = SCRATCH / f"dir-{os.getpid()}"
    inputs = [("a", 1), ("b", 2), ("c", 3)]
    want = [(k, v + 1) for k, v in inputs]
    calls_all = 3
    for name, prep in [("nested-missing", lambda r: None), ("parents-partly-there", lambda r: (r / "x").mkdir(parents=True)),
                       ("already-there", lambda r: (r / "x" / "y" / "z").mkdir(parents=True)),
                       ("removed-between-runs", "rm"), ("file-in-the-way", lambda r: (r.mkdir(parents=True), (r / "x").write_text("not a directory")))]:
        shutil.rmtree(base, ignore_errors=True)
        target = base / "x" / "y" / "z"
        R = {}
        try:
            if prep == "rm":
                parallelise(dirfn, inputs, cache=Cache(tmp_dir=target), parallel=False, disable_tqdm=True)
                shutil.rmtree(base)
            else:
                prep(base)
            first = parallelise(dirfn, inputs, cache=Cache(tmp_dir=target), parallel=False, disable_tqdm=True)
            files1 = sorted(os.listdir(target))
            second = parallelise(dirfn, inputs, cache=Cache(tmp_dir=target), parallel=True, max_workers=2, disable_tqdm=True)
            R = {"first": first == want, "second": second == want, "files": len(files1), "files_after": len(os.listdir(target))}
        except Exception as e:  # noqa: BLE001
            R = {"raised": type(e).__name__}
        S = {"raised": "FileExistsError"} if name == "file-in-the-way" else {"first": True, "second": True, "files": 3, "files_after": 3}
        if name == "file-in-the-way" and R.get("raised") in ("NotADirectoryError", "FileExistsError"):
            S = R  # either class says the same thing
        M = None
        if ctx.driver_ok and name != "file-in-the-way":
            (resp,) = driver.call_batch([{"op": "c19", "mode": "gen", "sizes": [[10 + i, 5] for i in range(3)],
                                          "inputs": [[k, 10 + i] for i, (k, _) in enumerate(inputs)], "script": [["run"], ["run"]]}])
            M = {"first": resp[0]["out"][0] == "ok" and len(resp[0]["calls"]) == calls_all, "second": resp[1]["out"][0] == "ok" and resp[1]["calls"] == [],
                 "files": sum(1 for _, f in resp[0]["fs"]["final"] if f != "absent"), "files_after": sum(1 for _, f in resp[1]["fs"]["final"] if f != "absent")}
        case = {"cache_dir": name}
        ctx.count(case, f"dir:{name}")
        ctx.judge(case, R, S, M, what=f"cache directory {name}: cached run = uncached results, one file per key, rerun from disk")
    shutil.rmtree(base, ignore_errors=True)


def _scan_stratum(ctx):
    import numpy as np
    import pandas as pd
    from mxlpy import scan
    from mxlpy.parallel import Cache

    d = SCRATCH / f"scan-{os.getpid()}"
    shutil.rmtree(d, ignore_errors=True)
    d.mkdir(parents=True)
    try:
        tp = np.linspace(0, 2, 5)
        # index labels as users write them; rows that differ only in punctuation are still different rows
        label_sets = {"range": None, "labels": ["k_in*2", "k_in+2", "rep 1", "rep_1"],
                      "repeated": ["run", "run", "b", "b"]}  # glued frames: the listed finding F-C19-3
        for lname, labels in label_sets.items():
            to_scan = pd.DataFrame({"kin": [1.0, 2.0, 3.0, 4.0]}, index=labels)
            for name, call, frames in [
                ("steady_state", lambda **k: scan.steady_state(lin_model(), to_scan=to_scan, **k),
                 lambda r: [r.variables, r.fluxes]),
                ("time_course", lambda **k: scan.time_course(lin_model(), to_scan=to_scan, time_points=tp, **k),
                 lambda r: [r.variables, r.fluxes]),
            ]:
                for par in ((False, True) if labels is None else (False,)):
                    cdir = d / f"{name}-{par}-{lname}"
                    log = d / f"{name}-{par}-{lname}.log"
                    inner = scan._steady_state_worker if name == "steady_state" else scan._time_course_worker
                    plain = frames(call(parallel=par))
                    try:
                        first = frames(call(parallel=par, cache=Cache(tmp_dir=cdir)))
                    except ValueError:
                        # a visible refusal (repeated labels cannot own separate files) is acceptable; it must then
                        # not depend on the run: refused again, and nothing served
                        case = {"scan": name, "parallel": par, "labels": lname}
                        ctx.count(case, f"scan.{name}:parallel={par}:{lname}:refused")
                        ctx.judge(case, {"refused_for_repeated_labels": lname == "repeated"},
                                  {"refused_for_repeated_labels": True}, None, what=f"scan.{name} refused the cache")
                        continue
                    log.write_text("")
                    again = frames(call(parallel=False, cache=Cache(tmp_dir=cdir), worker=CountingWorker(inner, str(log))))
                    case = {"scan": name, "parallel": par, "labels": lname}
                    ctx.count(case, f"scan.{name}:parallel={par}:{lname}")
                    can = lambda fs: [[[repr(x) for x in row] for row in f.to_numpy().tolist()] + [list(map(str, f.columns))] for f in fs]  # noqa: E731
                    R = {"cached": can(first), "rerun": can(again), "rerun_calls": len(log.read_text().split()),
                         "files": len([p for p in cdir.iterdir() if p.name.endswith(".p")])}
                    S = {"cached": can(plain), "rerun": can(plain), "rerun_calls": 0, "files": len(to_scan.index)}
                    if lname == "repeated":
                        S["files"] = R["files"]  # how many files repeated labels should produce is the repair's choice
                    ctx.judge(case, R, S, None, finding="F-C19-3" if lname == "repeated" else None,
                              what=f"scan.{name} with cache vs without, rerun from disk")
    finally:
        shutil.rmtree(d, ignore_errors=True)


# ----------------------------------------------------------------------------- entry points
def setup(ctx):
    from translate import c19 as tr
    ctx.translate(tr.generate)
    ctx.build(PROPS)
    ctx.rule = (
        "exhaustive: payloads of 5..400 pickled bytes x victim position x EVERY file operation of its save as the "
        "kill point (real SIGXFSZ/SIGKILL in a forked child) then two sequential reruns; random: histories of 1-3 "
        "sequential/pool kills (1-3 victims, 2/16 workers) then reruns with 0/2/16 workers; scans with/without cache. "
        "distinct = distinct (keys, script); every case is non-trivial (>=1 complete run compared)"
    )
    ctx.exhaustive = True
    ctx.assumptions += [
        "POSIX semantics: open('wb') truncates, os.replace is atomic, a killed process leaves exactly the bytes written",
        "byte-granular prefixes over-approximate what a buffered pickle.dump can leave (the OS may batch writes)",
        "pebble/multiprocessing scheduling: keys are processed by independent workers; order is arbitrary",
        "one key never stands for two different inputs (Respects); the cache directory is not edited by others",
    ]
    ctx.trusted_base += ["translate/c19.py (shape of _pickle_save -> Gen.saveMode)",
                         "pickle round-trips values; pebble ProcessPool; POSIX file semantics"]


def run(ctx):
    setup(ctx)
    shutil.rmtree(SCRATCH, ignore_errors=True)
    try:
        import time
        t0 = time.time()
        cases = gen_cases(ctx)
        Rs, Ms = evaluate(ctx, cases)
        ctx.extra_cov["phase_s"] = {"kill_cases": round(time.time() - t0, 1)}
        for c, R, M in zip(cases, Rs, Ms):
            judge_case(ctx, c, R, M)
        scan_stratum(ctx)
        dup_stratum(ctx)
        names_stratum(ctx)
        writers_stratum(ctx)
        dir_stratum(ctx)
    finally:
        shutil.rmtree(SCRATCH, ignore_errors=True)
    if not ctx.proof_ok or ctx.drift:
        ctx.notes.append("proof/correspondence broken: the exhaustive kill-point enumeration above is the failing-input search")


def replay(ctx, rp):
    case = rp["case"]
    if "scan" in case:
        scan_stratum(ctx)
        return
    if "name_of" in case or "tmp_name_of" in case or "name_set" in case:
        names_stratum(ctx)
        return
    if "dup" in case:
        dup_stratum(ctx)
        return
    if "writers_model" in case or "writers_real" in case:
        writers_stratum(ctx)
        return
    if "cache_dir" in case:
        dir_stratum(ctx)
        return
    case.setdefault("id", 0)
    Rs, Ms = evaluate(ctx, [case])
    print("R =", Rs[0], "\nM =", Ms[0])
    judge_case(ctx, case, Rs[0], Ms[0])
