"""C01 — derivatives = stoichiometry x rates over fully resolved values (DESIGN §6/C01)."""
from __future__ import annotations

from vlib import content as C

from . import corecommon as cc

PROPS = ["MxlVerif.Props.C01", "MxlVerif.Props.C01Main", "MxlVerif.Props.C01Args", "MxlVerif.Props.C01Tie"]


def setup(ctx):
    ctx.build(PROPS)
    ctx.shrinker = cc.shrink_case
    ctx.rule = (
        "random well-formed Content (vars/pars incl. initial assignments, derived chains, reactions with numeric/"
        "computed/state-dependent coefficients, multi-output surrogates, time) in shuffled declaration order x "
        "eight entry points x integer states; distinct = distinct (content, queries); non-trivial = has >=1 reaction "
        "and the spec evaluates exactly (no intermediate leaves the exact-double range)"
    )
    ctx.assumptions += [
        "pandas Series/DataFrame construction and .loc selection are exercised by the tie, not modelled",
        "function arity errors and data sets passed as pandas objects are not modelled",
    ]


def gen_case(ctx, i):
    rng = ctx.rng
    content = C.gen_content(rng, p_data=0.3, p_readouts=0.5)
    case = {"content": content, "queries": cc.standard_queries(rng, content, flags=True),
            "decl_seed": rng.randrange(1 << 30)}
    if content.get("readouts") and len(content["readouts"]) >= 2 and rng.random() < 0.15:
        # F-C01-3 stratum: the first readout also names the LAST one (declared after it)
        ro = content["readouts"]
        ro[0][1] = {"args": ro[0][1]["args"] + [ro[-1][0]],
                    "e": ["+", ro[0][1]["e"], ["a", len(ro[0][1]["args"])]]}
        case["later_readout"] = True
    if rng.random() < 0.5:
        # ask, edit values / function bodies / stoichiometry through the API, ask again
        case["edit"] = cc.gen_edit(rng, content)
        if not case["edit"]:
            del case["edit"]
    return case


def judge_case(ctx, case, R, M, S):
    if any(s == "inexact" for s in S):
        ctx.hist["skipped_inexact"] = ctx.hist.get("skipped_inexact", 0) + 1
        return
    ctx.count(case, C.shape_of(case["content"]))
    nq = len(case["queries"])
    for i in range(len(R)):
        q = case["queries"][i % nq]
        sub = {"content": case["content"], "queries": [q], "decl_seed": case["decl_seed"]}
        if i >= nq:
            sub["edit"] = case["edit"]
        Ri, Si, Mi = R[i], S[i], None if M is None else M[i]
        if i >= nq:  # a sub-case replays both rounds; compare both
            Ri, Si, Mi = [R[i - nq], R[i]], [S[i - nq], S[i]], None if M is None else [M[i - nq], M[i]]
        fid = None
        if case.get("later_readout") and q[0] in ("argsf", "argsftc") and q[-1][8]:
            fid = "F-C01-3"
            sub["later_readout"] = True
        ctx.judge(sub, Ri, Si, Mi, finding=fid, what=f"query {q[0]}" + (" after edits" if i >= nq else ""))
    # every way of asking returns the same numbers (rhs vs call; fluxes vs args)
    by = {}
    for i, q in enumerate(case["queries"]):
        by.setdefault((q[0], str(q[1:])), R[i])
    for i, q in enumerate(case["queries"]):
        if q[0] == "call" and isinstance(R[i], dict) and "ok" in R[i]:
            st = [[k, v] for (k, _), v in zip(case["content"]["vars"], q[2])]
            other = by.get(("rhs", str([st, q[1]])))
            if other is not None and "ok" in other and [v for _, v in other["ok"]] != R[i]["ok"]:
                ctx.violation({"content": case["content"], "queries": [q]}, {"call": R[i], "rhs": other},
                              "entry points disagree")


def run(ctx):
    setup(ctx)
    n = ctx.n(600, 20000)
    batch = 200
    done = 0
    while done < n:
        cases = [gen_case(ctx, done + j) for j in range(min(batch, n - done))]
        for case, (R, M, S) in zip(cases, cc.evaluate(cases, ctx.driver_ok)):
            judge_case(ctx, case, R, M, S)
        done += len(cases)
        if ctx.violations and len(ctx.violations) > 20:
            break
    if not ctx.proof_ok or ctx.drift:
        ctx.notes.append("proof/correspondence broken: the run above is the failing-input search")


def replay(ctx, rp):
    case = rp["case"]
    case.setdefault("decl_seed", 0)
    (R, M, S), = cc.evaluate([case], ctx.driver_ok)
    print("R =", R, "\nM =", M, "\nS =", S)
    judge_case(ctx, case, R, M, S)
