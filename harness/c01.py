"""C01 — derivatives = stoichiometry x rates over fully resolved values (DESIGN §6/C01)."""
from __future__ import annotations

from vlib import content as C

from . import corecommon as cc

PROPS = ["MxlVerif.Props.C01", "MxlVerif.Props.C01Main", "MxlVerif.Props.C01Args", "MxlVerif.Props.C01Tie"]


def setup(ctx):
    ctx.build(PROPS)
    ctx.shrinker = cc.shrink_case
    ctx.rule = (
        "random well-formed Content (vars/pars incl. initial assignments, derived chains, reactions with numeric/"
        "computed/state-dependent coefficients, multi-output surrogates, time) in shuffled declaration order x "
        "eight entry points x integer states; distinct = distinct (content, queries); non-trivial = has >=1 reaction "
        "and the spec evaluates exactly (no intermediate leaves the exact-double range); plus a TESTING stratum: query "
        "sequences on one model object at states that compare equal but are not identical (+0.0/-0.0) through "
        "sign-of-zero-sensitive functions, each answer compared with a freshly built model's"
    )
    ctx.assumptions += [
        "pandas Series/DataFrame construction and .loc selection are exercised by the tie, not modelled",
        "function arity errors and data sets passed as pandas objects are not modelled",
    ]


def gen_case(ctx, i):
    rng = ctx.rng
    content = C.gen_content(rng, p_data=0.3, p_readouts=0.5, p_badflux=0.08)
    case = {"content": content, "queries": cc.standard_queries(rng, content, flags=True),
            "decl_seed": rng.randrange(1 << 30)}
    if content.get("readouts") and len(content["readouts"]) >= 2 and rng.random() < 0.15:
        # F-C01-3 stratum: the first readout also names the LAST one (declared after it)
        ro = content["readouts"]
        ro[0][1] = {"args": ro[0][1]["args"] + [ro[-1][0]],
                    "e": ["+", ro[0][1]["e"], ["a", len(ro[0][1]["args"])]]}
        case["later_readout"] = True
    if rng.random() < 0.5:
        # ask, edit values / function bodies / stoichiometry through the API, ask again
        case["edit"] = cc.gen_edit(rng, content)
        if not case["edit"]:
            del case["edit"]
    return case


def _tally(ctx, q, r):
    """distribution of what the generator reaches: query kind x outcome class of the real code"""
    if isinstance(r, dict) and "err" in r:
        cls = r["err"][0]
    elif isinstance(r, dict) and "ok" in r:
        cls = "ok"
    else:
        cls = "parts"
    d = ctx.extra_cov.setdefault("reached_outcomes", {})
    key = f"{q[0]}:{cls}"
    d[key] = d.get(key, 0) + 1


def judge_case(ctx, case, R, M, S):
    if any(s == "inexact" for s in S):
        ctx.hist["skipped_inexact"] = ctx.hist.get("skipped_inexact", 0) + 1
        return
    ctx.count(case, C.shape_of(case["content"]))
    nq = len(case["queries"])
    for i in range(len(R)):
        q = case["queries"][i % nq]
        _tally(ctx, q, R[i])
        sub = {"content": case["content"], "queries": [q], "decl_seed": case["decl_seed"]}
        if i >= nq:
            sub["edit"] = case["edit"]
        Ri, Si, Mi = R[i], S[i], None if M is None else M[i]
        if i >= nq:  # a sub-case replays both rounds; compare both
            Ri, Si, Mi = [R[i - nq], R[i]], [S[i - nq], S[i]], None if M is None else [M[i - nq], M[i]]
        fid = None
        if case.get("later_readout") and q[0] in ("argsf", "argsftc") and q[-1][8]:
            fid = "F-C01-3"
            sub["later_readout"] = True
        ctx.judge(sub, Ri, Si, Mi, finding=fid, what=f"query {q[0]}" + (" after edits" if i >= nq else ""))
    # every way of asking returns the same numbers (rhs vs call; fluxes vs args)
    by = {}
    for i, q in enumerate(case["queries"]):
        by.setdefault((q[0], str(q[1:])), R[i])
    for i, q in enumerate(case["queries"]):
        if q[0] == "call" and isinstance(R[i], dict) and "ok" in R[i]:
            st = [[k, v] for (k, _), v in zip(case["content"]["vars"], q[2])]
            other = by.get(("rhs", str([st, q[1]])))
            if other is not None and "ok" in other and [v for _, v in other["ok"]] != R[i]["ok"]:
                ctx.violation({"content": case["content"], "queries": [q]}, {"call": R[i], "rhs": other},
                              "entry points disagree")


# --------------------------------------------------------------------------- history independence (testing)


def _history_worker(seed):
    """TESTING stratum (no Lean model: signed zeros are outside the exact-rational domain).  One model object is
    asked a sequence of queries at states that compare equal but are not identical (+0.0 / -0.0) through functions
    that tell them apart (atan2, copysign); every answer must be what a freshly built model gives for that query
    alone — "each flux is its function applied to the values its arguments have at that state", whatever was asked
    before."""
    import math
    import random
    import warnings

    warnings.filterwarnings("ignore")
    from mxlpy import Model
    from mxlpy.surrogates import qss

    rng = random.Random(seed)
    nv = rng.randint(1, 3)
    names = [f"x{i}" for i in range(nv)]
    sargs = rng.sample(names, rng.randint(1, nv))
    nout = rng.randint(1, 2)
    use_derived = rng.random() < 0.5
    use_rxn = rng.random() < 0.7

    def sfn(*a):
        return tuple(sum(math.atan2(x, -1.0) * (j + 1) + math.copysign(0.25, x) for x in a) for j in range(nout))

    def dfn(x):
        return math.copysign(1.0, x) + x

    def rfn(*a):
        return sum(math.atan2(x, -1.0) for x in a)

    def mk():
        m = Model()
        for n in names:
            m.add_variable(n, 1.0)
        m.add_parameter("p", 2.0)
        outs = [f"s{j}" for j in range(nout)]
        m.add_surrogate("s", qss.Surrogate(model=sfn, args=list(sargs), outputs=outs,
                                           stoichiometries={outs[0]: {names[0]: 1.0}}))
        if use_derived:
            m.add_derived("d", fn=dfn, args=[names[-1]])
        if use_rxn:
            m.add_reaction("r", fn=rfn, args=[names[0]] + (["d"] if use_derived else []) + [outs[-1]],
                           stoichiometry={names[-1]: -1.0})
        return m

    def ask(m, q):
        kind, st, t = q
        try:
            if kind == "call":
                return [repr(float(v)) for v in m(t, [st[n] for n in names])]
            if kind == "rhs":
                return [repr(float(v)) for v in m.get_right_hand_side(dict(st), t)]
            if kind == "fluxes":
                return [repr(float(v)) for v in m.get_fluxes(dict(st), t)]
            return [repr(float(v)) for v in m.get_args(dict(st), t)]
        except Exception as e:  # noqa: BLE001
            return ["err", type(e).__name__]

    base = {n: rng.choice([0.0, 0.0, 1.0, 2.0]) for n in names}
    qs = []
    for _ in range(rng.randint(3, 6)):
        st = {n: (rng.choice([0.0, -0.0]) if v == 0.0 else v) for n, v in base.items()}
        if rng.random() < 0.2:
            base = {n: rng.choice([0.0, 1.0]) for n in names}
        qs.append((rng.choice(["call", "rhs", "fluxes", "args"]), st, rng.choice([0.0, 1.0])))
    one = mk()
    bad = []
    for i, q in enumerate(qs):
        a = ask(one, q)
        b = ask(mk(), q)
        if a != b:
            bad.append({"step": i, "query": [q[0], {k: repr(v) for k, v in q[1].items()}, q[2]],
                        "after_history": a, "fresh_model": b})
    return {"n_queries": len(qs), "signed_zero_steps": sum(1 for q in qs if any(math.copysign(1, v) < 0 for v in q[1].values())),
            "bad": bad}


def run_history(ctx, n):
    seeds = [ctx.rng.randrange(1 << 30) for _ in range(n)]
    res = cc.pool().map(_history_worker, seeds, chunksize=16)
    zero_steps = 0
    for seed, r in zip(seeds, res):
        ctx.count({"history_seed": seed}, "history", True)
        zero_steps += r["signed_zero_steps"]
        if r["bad"]:
            ctx.violation({"history_seed": seed}, r["bad"][0], "the answer to a query depends on what was asked before")
    ctx.extra_cov["history_stratum"] = {"kind": "testing (real code vs fresh real model; no Lean model)", "sequences": n,
                                        "queries_at_negative_zero": zero_steps}


def run(ctx):
    setup(ctx)
    n = ctx.n(600, 20000)
    batch = 200
    done = 0
    while done < n:
        cases = [gen_case(ctx, done + j) for j in range(min(batch, n - done))]
        for case, (R, M, S) in zip(cases, cc.evaluate(cases, ctx.driver_ok)):
            judge_case(ctx, case, R, M, S)
        done += len(cases)
        if ctx.violations and len(ctx.violations) > 20:
            break
    run_history(ctx, ctx.n(300, 5000))
    if not ctx.proof_ok or ctx.drift:
        ctx.notes.append("proof/correspondence broken: the run above is the failing-input search")


def replay(ctx, rp):
    case = rp["case"]
    if "history_seed" in case:
        r = _history_worker(case["history_seed"])
        print(r)
        if r["bad"]:
            ctx.violation(case, r["bad"][0], "the answer to a query depends on what was asked before")
        return
    case.setdefault("decl_seed", 0)
    (R, M, S), = cc.evaluate([case], ctx.driver_ok)
    print("R =", R, "\nM =", M, "\nS =", S)
    judge_case(ctx, case, R, M, S)
