"""C10 — result views are consistent functions of states and segment parameters (DESIGN §6/C10).

R = the real `mxlpy.simulation.Simulation` (built directly from exact integer state rows, or produced by the
    real `Simulator` around a scripted integrator stand-in), read through a random history of view calls and
    parameter changes on the shared model;
M = the impl-faithful Lean model `Mxl.C10.runHistory` (driver op "c10");
S = an independent pointwise Python oracle: a *fresh* order-free `Spec` of the content with the segment's
    parameters applied, evaluated at each row; views are assembled from those numbers with a global-row
    formulation of normalisation.  The executable Lean specification `Mxl.C10.specHistory` (the object of the
    refinement theorems) is run as well and must agree with S.
Everything is compared exactly (integers / dyadics under + - * and division by powers of two).
"""
from __future__ import annotations

import copy
import json
import random
from fractions import Fraction

from vlib import content as C
from vlib import driver, fexpr
from vlib.fexpr import Inexact, feval, rat_str

from . import corecommon as cc

PROPS = ["MxlVerif.Props.C10"]
F_SCALED_DYN = "F-C10-2"

FLAG_ORDER = ["vars", "pars", "dpars", "dvars", "rxns", "svars", "sflux", "readouts"]


# --------------------------------------------------------------------------- generator


def _add_readouts(rng, content):
    pool = [k for k, _ in content["vars"]] + [k for k, _ in content["pars"]] + [k for k, _ in content["derived"]]
    pool += [k for k, _ in content.get("data", [])] * 2  # readouts can name data sets
    pool += [k for k, _ in content["rxns"]]
    for _, s in content["surs"]:
        pool += list(s["outs"])
    ros = []
    for i in range(rng.choice([0, 0, 1, 1, 2])):
        n = rng.randint(1, min(3, len(pool)))
        args = [rng.choice(pool + (["time"] if rng.random() < 0.2 else [])) for _ in range(n)]
        ros.append([f"ro{i}", {"args": args, "e": fexpr.gen_expr(rng, len(args), 1)}])
        pool.append(f"ro{i}")
    if len(ros) > 1 and rng.random() < 0.5:
        ros.reverse()  # declared in another order than they depend on each other: a readout names a LATER-declared one
    content["readouts"] = ros


def _plain_pars(content):
    return [k for k, v in content["pars"] if "v" in v]


def gen_norm(rng, lens):
    nseg, total = len(lens), sum(lens)
    pw = ["2", "4", "1/2", "-2", "8", "1", "-1/4"]
    r = rng.random()
    if r < 0.35:
        return None
    if r < 0.5:
        return ["s", rng.choice(pw)]
    if r < 0.7:
        return ["l", [rng.choice(pw) for _ in range(nseg)]]
    if r < 0.92:
        return ["l", [rng.choice(pw) for _ in range(total)]]
    # wrong lengths: too short (ValueError unless it happens to equal the segment count), too long (tail ignored)
    n = rng.choice([max(0, total - 1), total + 1, total + 3, 1])
    return ["l", [rng.choice(pw) for _ in range(n)]]


def gen_event(rng, content, lens, var_names, plain):
    b = lambda p=0.5: rng.random() < p  # noqa: E731
    r = rng.random()
    norm = gen_norm(rng, lens)
    if r < 0.14:
        return ["args", [b() for _ in FLAG_ORDER], norm, b(0.6)]
    if r < 0.28:
        return ["vars", b(), b(), b(), norm, b(0.6)]
    if r < 0.40:
        return ["fluxes", b(0.6), norm, b(0.6)]
    if r < 0.44:
        return ["variables"]
    if r < 0.48:
        return ["fluxesprop"]
    if r < 0.54:
        return ["combined"]
    if r < 0.58:
        return ["newy0"]
    if r < 0.70:
        return ["rhs", norm, b(0.6)]
    if r < 0.86:
        v = rng.choice(var_names + (["nope"] if rng.random() < 0.05 else []))
        return [rng.choice(["prod", "cons"]), v, b(), norm, b(0.6)]
    if r < 0.89:
        return ["pvals"]
    if r < 0.92:
        return ["simgoes"]  # whoever produced the result goes on: the simulator simulates further / the caller's lists grow
    if plain:
        ks = rng.sample(plain, rng.randint(1, len(plain)))
        return ["setpars", [[k, str(rng.choice([-3, -1, 0, 1, 2, 5, "1/2"]))] for k in ks]]
    return ["fluxesprop"]


def gen_case(ctx, i, thorough=False):
    rng = ctx.rng
    content = C.gen_content(rng, n_vars=(1, 4), n_pars=(1, 4), n_comps=(1, 7), p_data=0.35)
    _add_readouts(rng, content)
    plain = _plain_pars(content)
    var_names = [k for k, _ in content["vars"]]
    nseg = rng.choice([1, 2, 2, 3, 3, 4])
    segs = []
    t = Fraction(rng.choice([0, 0, 1]))
    cur = {k: v["v"] for k, v in content["pars"] if "v" in v}
    for s in range(nseg):
        if s > 0 or rng.random() < 0.5:
            for k in plain:
                if rng.random() < 0.6:
                    cur[k] = str(rng.choice([-2, -1, 0, 1, 2, 3, "1/2", "-1/2"]))
        rows = []
        for j in range(rng.randint(1, 4)):
            if not (j == 0 and s > 0 and rng.random() < 0.3):  # a segment may start at the previous end time
                t += Fraction(rng.choice([1, 1, 2, "1/2"]))
            rows.append([rat_str(t), [[k, str(rng.choice([0, 1, 2, 3, 5, -1]))] for k in var_names]])
        segs.append({"pars": [[k, cur[k]] for k in plain], "rows": rows})
    lens = [len(s["rows"]) for s in segs]
    events = [gen_event(rng, content, lens, var_names, plain) for _ in range(rng.randint(3, 9))]
    case = {"content": content, "segs": segs, "events": events, "decl_seed": rng.randrange(1 << 30),
            "mode": "simulator" if rng.random() < 0.25 else "direct", "normform": rng.randrange(4)}
    if case["mode"] == "simulator" and nseg > 1 and rng.random() < 0.6:
        case["peek"] = rng.randrange(1, nseg)  # an intermediate result is taken and read after this many segments
    if case["mode"] == "simulator" and rng.random() < 0.35:
        # the segments are the steps of ONE protocol run; a step names only the parameters that change with it
        case["via_protocol"] = True
        case.pop("peek", None)
    if case["mode"] == "simulator" and rng.random() < 0.15:
        case["fails_after"] = True  # after the result was taken the next integration FAILS
    # malformed results: the wrong number of snapshots / an unknown parameter name / no segment at all
    r = rng.random()
    if r < 0.03:
        case["drop_pars"] = 1
        case["mode"] = "direct"
    elif r < 0.06:
        case["extra_pars"] = [segs[-1]["pars"]]
        case["mode"] = "direct"
    elif r < 0.09:
        segs[rng.randrange(nseg)]["pars"].append(["nope", "1"])
        case["mode"] = "direct"
    elif r < 0.10:
        case["segs"] = []
        case["mode"] = "direct"
    return case


def malformed(case):
    return bool(case.get("drop_pars") or case.get("extra_pars") or not case["segs"]
                or any(k == "nope" for s in case["segs"] for k, _ in s["pars"]))


# --------------------------------------------------------------------------- real code


def _f(x):
    return fexpr.to_float(Fraction(x))


def _norm_arg(norm, form):
    import numpy as np

    if norm is None:
        return None
    if norm[0] == "s":
        v = _f(norm[1])
        if form == 1 and v == int(v):
            return int(v)
        if form == 2:
            return np.float64(v)
        return v
    vals = [_f(x) for x in norm[1]]
    if form in (1, 3):
        return np.array(vals, dtype=float)
    return vals


def canon_df(df):
    cols = list(df.columns)
    out = []
    for t, row in zip(df.index, df.to_numpy()):
        out.append([C.num(t), sorted([c, C.num(v)] for c, v in zip(cols, row))])
    return out


def canon_view(v):
    import pandas as pd

    if isinstance(v, pd.DataFrame):
        return ["frame", canon_df(v)]
    if isinstance(v, list):
        return ["frames", [canon_df(x) for x in v]]
    if isinstance(v, dict):
        return ["dict", sorted([k, C.num(x)] for k, x in v.items())]
    raise TypeError(type(v))


def init_pars_of(case):
    """what the shared model holds when the history starts: a result recorded by the Simulator leaves the
    model with the last segment's parameters; a directly built one with the content's own"""
    if case.get("mode") == "simulator" and case["segs"]:
        return case["segs"][-1]["pars"]
    return []


def raw_pars_of(case):
    ps = [s["pars"] for s in case["segs"]]
    ps = ps[: len(ps) - case.get("drop_pars", 0)] + case.get("extra_pars", [])
    return ps


def _len(f):
    try:
        return len(f())
    except Exception as e:  # noqa: BLE001
        return type(e).__name__


_OWNER: dict = {}   # id(result) -> what the producer of the result does when it goes on
_MID: dict = {}     # id(model) -> the intermediate result taken by a `peek` case
_AFTER: dict = {}   # id(model) -> what the simulator says after a failed integration (`fails_after` cases)


def build_simulation(case):
    """-> (Simulation, Model)"""
    import numpy as np
    import pandas as pd
    from mxlpy.simulation import Simulation

    m = C.build_model(case["content"], random.Random(case.get("decl_seed", 0)))
    var_names = m.get_variable_names()
    segs = case["segs"]
    if case.get("mode") == "simulator" and segs:
        from mxlpy import Simulator
        from mxlpy.integrators.abstract import TimeCourse
        from mxlpy.types import Result

        script = []
        for i, s in enumerate(segs):
            times = [_f(t) for t, _ in s["rows"]]
            vals = [[_f(dict(r)[k]) for k in var_names] for _, r in s["rows"]]
            if i > 0:  # the Simulator drops the first row of every later segment
                times = [times[0] - 0.25, *times]
                vals = [vals[0], *vals]
            script.append((times, vals))
        state = {"n": 0}

        class Scripted:
            def __init__(self, rhs, y0, jacobian=None):
                pass

            def reset(self):
                pass

            def _next(self):
                if state.get("fail"):
                    from mxlpy.types import IntegrationFailure
                    return Result(IntegrationFailure())
                times, vals = script[state["n"]]
                state["n"] += 1
                return Result(TimeCourse(time=np.array(times, dtype=float), values=np.array(vals, dtype=float)))

            def integrate(self, *, t_end, steps=None):
                return self._next()

            def integrate_time_course(self, *, time_points):
                return self._next()

            def integrate_to_steady_state(self, *, tolerance, rel_norm):
                return self._next()

        sim = Simulator(m, integrator=Scripted)
        mid = None
        if case.get("via_protocol"):
            from mxlpy import make_protocol
            cur = {k: _f(v) for k, v in m.get_parameter_values().items()}
            steps = []
            for s in segs:
                named = {k: _f(v) for k, v in s["pars"] if cur.get(k) != _f(v)}
                if not named and s["pars"]:
                    k0, v0 = s["pars"][0]
                    named = {k0: _f(v0)}  # a step has to name something
                cur.update(named)
                steps.append((1000.0, named))
            sim.simulate_protocol(make_protocol(steps))
            segs = []  # the loop below has nothing left to do
        for i, s in enumerate(segs):
            if case.get("peek") == i:
                # an intermediate result, read while the simulation is not over yet (fills its lazily computed tables)
                mid = sim.get_result().unwrap_or_err()
                _MID[id(m)] = {"obj": mid, "rows_before": [_len(lambda: mid.variables), _len(lambda: mid.fluxes),
                                                          _len(mid.get_right_hand_side)]}
            sim.update_parameters({k: _f(v) for k, v in s["pars"]})
            # the scripted integrator ignores the requested points; they only have to pass the Simulator's
            # "end time larger than the previous end" check
            sim.simulate_time_course([_f(s["rows"][-1][0]) + 1000.0])
        res = sim.get_result().unwrap_or_err()
        if case.get("fails_after"):
            # the next integration fails: the simulator then has no result any more and ignores further calls; the
            # result that was handed out before stays what it was
            nseg_before = len(res.raw_variables)
            state["fail"] = True
            sim.simulate_time_course([1e6])
            state["fail"] = False
            script.append(([2e6, 3e6], [script[-1][1][-1]] * 2))
            sim.simulate_time_course([4e6])  # ignored
            _AFTER[id(m)] = {"get_result": type(sim.get_result().value).__name__, "segments_of_earlier_result": len(res.raw_variables),
                             "segments_before": nseg_before}

        def go_on():
            # the simulator simulates one more (scripted) segment after the result was handed out
            last_t = script[-1][0][-1]
            script.append(([last_t + 1.0, last_t + 2.0, last_t + 3.0], [script[-1][1][-1]] * 3))
            sim.simulate_time_course([last_t + 5000.0 + 1000.0 * state["n"]])

        _OWNER[id(res)] = go_on
        return res, m
    raw_vars = []
    for s in segs:
        cols = [k for k, _ in s["rows"][0][1]] if s["rows"] else var_names
        raw_vars.append(pd.DataFrame(
            data=np.array([[_f(dict(r)[k]) for k in cols] for _, r in s["rows"]], dtype=float).reshape(len(s["rows"]), len(cols)),
            index=np.array([_f(t) for t, _ in s["rows"]], dtype=float), columns=cols))
    raw_pars = [{k: _f(v) for k, v in p} for p in raw_pars_of(case)]
    res = Simulation(model=m, raw_variables=raw_vars, raw_parameters=raw_pars)

    def grow():
        # the caller goes on using the lists it built the result from
        if raw_vars:
            extra = raw_vars[-1].copy()
            extra.index = extra.index + 1000.0
            raw_vars.append(extra)
        raw_pars.append(dict(raw_pars[-1]) if raw_pars else {})

    _OWNER[id(res)] = grow
    return res, m


def run_event(sim, m, ev, form):
    kind = ev[0]
    try:
        if kind == "setpars":
            m.update_parameters({k: _f(v) for k, v in ev[1]})
            return {"ok": ["dict", []]}
        if kind == "pvals":  # the shared model as its owner sees it
            return {"ok": ["dict", sorted([k, C.num(v)] for k, v in m.get_parameter_values().items())]}
        if kind == "simgoes":
            go = _OWNER.get(id(sim))
            if go is not None:
                go()
            return {"ok": ["dict", []]}
        if kind == "args":
            kw = {"include_variables": ev[1][0], "include_parameters": ev[1][1], "include_derived_parameters": ev[1][2],
                  "include_derived_variables": ev[1][3], "include_reactions": ev[1][4],
                  "include_surrogate_variables": ev[1][5], "include_surrogate_fluxes": ev[1][6],
                  "include_readouts": ev[1][7]}
            v = sim.get_args(**kw, normalise=_norm_arg(ev[2], form), concatenated=ev[3])
        elif kind == "vars":
            v = sim.get_variables(include_derived_variables=ev[1], include_readouts=ev[2],
                                  include_surrogate_variables=ev[3], normalise=_norm_arg(ev[4], form), concatenated=ev[5])
        elif kind == "fluxes":
            v = sim.get_fluxes(include_surrogates=ev[1], normalise=_norm_arg(ev[2], form), concatenated=ev[3])
        elif kind == "variables":
            v = sim.variables
        elif kind == "fluxesprop":
            v = sim.fluxes
        elif kind == "combined":
            v = sim.get_combined()
        elif kind == "newy0":
            v = sim.get_new_y0()
        elif kind == "rhs":
            v = sim.get_right_hand_side(normalise=_norm_arg(ev[1], form), concatenated=ev[2])
        elif kind in ("prod", "cons"):
            fn = sim.get_producers if kind == "prod" else sim.get_consumers
            v = fn(ev[1], scaled=ev[2], normalise=_norm_arg(ev[3], form), concatenated=ev[4])
        else:
            raise ValueError(ev)
        return {"ok": canon_view(v)}
    except Exception as e:  # noqa: BLE001
        return {"err": [type(e).__name__]}


def _real_worker(case):
    import warnings

    warnings.filterwarnings("ignore")
    try:
        sim, m = build_simulation(case)
    except Exception as e:  # noqa: BLE001
        return {"build_err": type(e).__name__ + ": " + str(e)[:200]}
    out = {"events": [], "fresh": []}
    if case.get("mode") == "simulator":
        # what the Simulator recorded must be what the (scripted) integrator produced and what was in force
        rec = [[[C.num(t), sorted([c, C.num(v)] for c, v in zip(df.columns, row))] for t, row in zip(df.index, df.to_numpy())]
               for df in sim.raw_variables]
        want = [[[t, sorted(r)] for t, r in s["rows"]] for s in case["segs"]]
        recp = [sorted([k, C.num(v)] for k, v in p.items()) for p in sim.raw_parameters]
        wantp = [sorted(s["pars"]) for s in case["segs"]]
        if rec != want or recp != wantp:
            out["recorded"] = {"rows": rec, "pars": recp}
    for ev in case["events"]:
        out["events"].append(run_event(sim, m, ev, case.get("normform", 0)))
    after = _AFTER.pop(id(m), None)
    if after is not None:
        out["after_failure"] = after
    mid = _MID.pop(id(m), None)
    if mid is not None:
        # the intermediate result, read again now that the simulation went on: still the segments it was taken with
        o = mid["obj"]
        out["mid"] = {"before": mid["rows_before"],
                      "after": [_len(lambda: o.variables), _len(lambda: o.fluxes), _len(o.get_right_hand_side)],
                      "raw_after": _len(lambda: o.get_variables(include_derived_variables=False, include_readouts=False,
                                                                 include_surrogate_variables=False))}
    _OWNER.clear()
    # idempotence oracle: every read again, each on a fresh object and a fresh model
    for ev in case["events"]:
        if ev[0] in ("setpars", "pvals", "simgoes"):
            out["fresh"].append(out["events"][len(out["fresh"])])
            continue
        try:
            sim2, m2 = build_simulation(dict(case, mode="direct"))
            out["fresh"].append(run_event(sim2, m2, ev, case.get("normform", 0)))
        except Exception as e:  # noqa: BLE001
            out["fresh"].append({"err": ["fresh-build:" + type(e).__name__]})
    return out


# --------------------------------------------------------------------------- independent pointwise oracle


def _guard(v):
    if not fexpr.is_dyadic_small(v):
        raise Inexact(str(v))
    return v


def _guard_sum(terms):
    """every partial sum of `terms`, in any order, is exactly representable as a double"""
    k = max((t.denominator for t in terms), default=1)
    n = sum(abs(t.numerator) * (k // t.denominator) for t in terms)
    if n.bit_length() > 52 or k.bit_length() > 60:
        raise Inexact("sum")
    return sum(terms, Fraction(0))


class KeyErr(Exception):
    pass


class ValErr(Exception):
    pass


class IdxErr(Exception):
    pass


def with_pars(content, pars):
    c = copy.deepcopy(content)
    d = dict((k, i) for i, (k, _) in enumerate(c["pars"]))
    for k, v in pars:
        if k not in d:
            raise KeyErr(k)
        c["pars"][d[k]] = [k, {"v": v}]
    return c


class Oracle:
    def __init__(self, case):
        self.case = case
        self.content = case["content"]
        self.segs = case["segs"]
        self.pars = raw_pars_of(case)
        self._spec = {}
        self.readouts = dict(self.content.get("readouts", []))
        # the shared model's plain parameter values as its owner left them: reads never change them
        self.cur = {k: v["v"] for k, v in self.content["pars"] if "v" in v}
        self.cur.update(dict(init_pars_of(case)))

    def spec(self, i):
        if i not in self._spec:
            self._spec[i] = C.Spec(with_pars(self.content, self.pars[i]))
        return self._spec[i]

    def lens(self):
        return [len(s["rows"]) for s in self.segs]

    def check_shape(self):
        if len(self.pars) != len(self.segs):
            # every snapshot that has a segment is still applied first
            for i in range(min(len(self.pars), len(self.segs))):
                self.spec(i)
            raise ValErr("snapshots != segments")
        for i in range(len(self.segs)):
            self.spec(i)

    def point(self, i, t, state):
        """every name's value at one row: order-free resolution under segment i's parameters"""
        sp = self.spec(i)
        env = dict(sp.at(dict(state), Fraction(t)))
        memo = {}

        def ro(name):
            if name not in memo:
                f = self.readouts[name]
                memo[name] = feval(f["e"], [env[a] if a in env else ro(a) for a in f["args"]])
            return memo[name]

        for k in self.readouts:
            env[k] = ro(k)
        return env

    def names(self, flags):
        sp = C.Spec(self.content)
        op = sp.only_params()
        c = self.content
        out = []
        if flags["vars"]:
            out += [k for k, _ in c["vars"]]
        if flags["pars"]:
            out += [k for k, _ in c["pars"]]
        if flags["dvars"]:
            out += [k for k, _ in c["derived"] if k not in op]
        if flags["dpars"]:
            out += [k for k, _ in c["derived"] if k in op]
        if flags["rxns"]:
            out += [k for k, _ in c["rxns"]]
        for _, s in c["surs"]:
            fl = [f for f, _ in s["st"]]
            if flags["svars"]:
                out += [o for o in s["outs"] if o not in fl]
            if flags["sflux"]:
                out += fl
        if flags["readouts"]:
            out += list(self.readouts)
        return out

    def selected(self, flags):
        self.check_shape()
        names = self.names(flags)
        tabs = []
        for i, s in enumerate(self.segs):
            tab = []
            for t, st in s["rows"]:
                env = self.point(i, t, st)
                tab.append([Fraction(t), {k: env[k] for k in names}])
            tabs.append(tab)
        return tabs

    def raw(self):
        return [[[Fraction(t), {k: Fraction(v) for k, v in st}] for t, st in s["rows"]] for s in self.segs]

    def rhs_at(self, i, state, t):
        """N(state, t) x v(state, t) per variable, every product and every partial sum checked to be exact"""
        sp = self.spec(i)
        env = sp.at(dict(state), Fraction(t))
        terms = {k: [] for k in sp.vars}
        for r, rx in sp.rxns.items():
            for cpd, cj in rx["st"]:
                terms[cpd].append(_guard(_guard(sp.coef(cj, env)) * env[r]))
        for su in sp.surs.values():
            for f, st in su["st"]:
                for cpd, cj in st:
                    terms[cpd].append(_guard(_guard(sp.coef(cj, env)) * env[f]))
        return {k: _guard_sum(ts) for k, ts in terms.items()}

    def rhs_tabs(self):
        self.check_shape()
        tabs = []
        for i, s in enumerate(self.segs):
            tabs.append([[Fraction(t), self.rhs_at(i, st, t)] for t, st in s["rows"]])
        return tabs

    def normalise(self, tabs, norm):
        if norm is None:
            return tabs
        lens = [len(t) for t in tabs]
        total = sum(lens)
        if norm[0] == "s":
            facs = [Fraction(norm[1])] * total
        else:
            fs = [Fraction(x) for x in norm[1]]
            if len(fs) == len(tabs):
                facs = [f for f, n in zip(fs, lens) for _ in range(n)]
            elif len(fs) < total:
                raise ValErr("too few factors")
            else:
                facs = fs[:total]
        out, r = [], 0
        for tab in tabs:
            new = []
            for t, row in tab:
                new.append([t, {k: _guard(v / facs[r]) for k, v in row.items()}])
                r += 1
            out.append(new)
        return out

    def finish(self, tabs, norm, concat):
        tabs = self.normalise(tabs, norm)
        if concat:
            if not tabs:
                raise ValErr("nothing to concatenate")
            return ["frame", [row for tab in tabs for row in tab]]
        return ["frames", tabs]

    def coefs_at(self, i, v, env):
        """{flux: coefficient of variable v} at one point"""
        sp = self.spec(i)
        out = {}
        for r, rx in sp.rxns.items():
            for cpd, cj in rx["st"]:
                if cpd == v:
                    out[r] = sp.coef(cj, env)
        for s in sp.surs.values():
            for f, st in s["st"]:
                for cpd, cj in st:
                    if cpd == v:
                        out[f] = sp.coef(cj, env)
        return out

    def has_dynamic_coef(self, v):
        sp = C.Spec(self.content)
        stat = set(sp.pars) | sp.only_params()
        cjs = [cj for rx in sp.rxns.values() for cpd, cj in rx["st"] if cpd == v]
        cjs += [cj for s in sp.surs.values() for _, st in s["st"] for cpd, cj in st if cpd == v]
        return any("c" not in cj and not all(a in stat for a in cj["args"]) for cj in cjs)

    def prodcons(self, prod, v, scaled, norm, concat):
        if not self.pars:
            raise IdxErr
        sp0 = self.spec(0)
        env0 = sp0.at(None, Fraction(0))  # the model's own initial state, time 0, segment-0 parameters
        c0 = self.coefs_at(0, v, env0)
        if v not in dict(self.content["vars"]) or not c0:
            raise KeyErr(v)
        names = [k for k, x in c0.items() if (x > 0 if prod else x < 0)]
        tabs = self.normalise(self.selected({**dict.fromkeys(FLAG_ORDER, False), "rxns": True, "sflux": True}), norm)
        out = []
        for i, (tab, s) in enumerate(zip(tabs, self.segs)):
            new = []
            for (t, row), (_, st) in zip(tab, s["rows"]):
                sel = {k: row[k] for k in names}
                if scaled:
                    env = self.spec(i).at(dict(st), t)
                    cf = self.coefs_at(i, v, env)  # the coefficient at THIS row
                    sel = {k: _guard(x * (cf[k] if prod else -cf[k])) for k, x in sel.items()}
                new.append([t, sel])
            out.append(new)
        return self.finish(out, None, concat)

    def answer(self, ev):
        kind = ev[0]
        try:
            if kind == "setpars":
                with_pars(self.content, ev[1])
                self.cur.update(dict(ev[1]))
                return {"ok": ["dict", []]}
            if kind == "pvals":
                return {"ok": ["dict", sorted([k, rat_str(Fraction(v))] for k, v in self.cur.items())]}
            if kind == "simgoes":  # a result is a record of what WAS simulated: its producer going on changes nothing
                return {"ok": ["dict", []]}
            if kind == "args":
                v = self.finish(self.selected(dict(zip(FLAG_ORDER, ev[1]))), ev[2], ev[3])
            elif kind == "vars":
                if not (ev[1] or ev[2] or ev[3]):
                    v = self.finish(self.raw(), ev[4], ev[5])
                else:
                    fl = {**dict.fromkeys(FLAG_ORDER, False), "vars": True, "dvars": ev[1], "readouts": ev[2], "svars": ev[3]}
                    v = self.finish(self.selected(fl), ev[4], ev[5])
            elif kind == "fluxes":
                fl = {**dict.fromkeys(FLAG_ORDER, False), "rxns": True, "sflux": ev[1]}
                v = self.finish(self.selected(fl), ev[2], ev[3])
            elif kind == "variables":
                fl = {**dict.fromkeys(FLAG_ORDER, False), "vars": True, "dvars": True, "readouts": True, "svars": True}
                v = self.finish(self.selected(fl), None, True)
            elif kind == "fluxesprop":
                fl = {**dict.fromkeys(FLAG_ORDER, False), "rxns": True, "sflux": True}
                v = self.finish(self.selected(fl), None, True)
            elif kind == "combined":
                fl = {**dict.fromkeys(FLAG_ORDER, False), "vars": True, "dvars": True, "readouts": True, "svars": True,
                      "rxns": True, "sflux": True}
                v = self.finish(self.selected(fl), None, True)
            elif kind == "newy0":
                raw = self.finish(self.raw(), None, True)[1]
                if not raw:
                    raise IdxErr
                v = ["dict", raw[-1][1]]
            elif kind == "rhs":
                v = self.finish(self.rhs_tabs(), ev[1], ev[2])
            elif kind in ("prod", "cons"):
                v = self.prodcons(kind == "prod", ev[1], ev[2], ev[3], ev[4])
            else:
                raise ValueError(ev)
            return {"ok": canon_oracle_view(v)}
        except KeyErr:
            return {"err": ["KeyError"]}
        except ValErr:
            return {"err": ["ValueError"]}
        except IdxErr:
            return {"err": ["IndexError"]}
        except (C.SpecMissing, C.SpecCircular) as e:
            return {"err": [type(e).__name__]}


def _rows(tab):
    return [[rat_str(t), sorted([k, rat_str(x)] for k, x in row.items())] for t, row in tab]


def canon_oracle_view(v):
    if v[0] == "frame":
        return ["frame", _rows(v[1])]
    if v[0] == "frames":
        return ["frames", [_rows(t) for t in v[1]]]
    return ["dict", sorted([k, rat_str(x)] for k, x in v[1].items())]


def _oracle(case):
    try:
        o = Oracle(case)
        return [o.answer(ev) for ev in case["events"]]
    except Inexact:
        return "inexact"


# --------------------------------------------------------------------------- Lean model / spec


def canon_M(r):
    if "err" in r:
        cls = r["err"][0]
        if cls == "Other":
            cls = r["err"][1]
        return {"err": [cls]}
    v = r["ok"]
    if v[0] == "frame":
        return {"ok": ["frame", [[t, sorted(row)] for t, row in v[1]]]}
    if v[0] == "frames":
        return {"ok": ["frames", [[[t, sorted(row)] for t, row in tab] for tab in v[1]]]}
    return {"ok": ["dict", sorted(v[1])]}


def _req(case, spec=False):
    events = [["setpars", []] if ev[0] == "simgoes" else ev for ev in case["events"]]
    return {"op": "c10", "content": case["content"], "segs": case["segs"], "events": events,
            "init_pars": init_pars_of(case),
            "extra_pars": case.get("extra_pars", []), "drop_pars": case.get("drop_pars", 0), "spec": spec}


def evaluate(cases, use_driver=True):
    import mxlpy  # noqa: F401  (imported before the pool forks, so the workers share it)
    import pandas  # noqa: F401

    Rs = cc.pool().map(_real_worker, cases, chunksize=4)
    Ss = [_oracle(c) for c in cases]
    if use_driver:
        Ms = driver.call_batch([_req(c) for c in cases])
        Ls = driver.call_batch([_req(c, True) for c in cases])
        Ms = [[canon_M(r) for r in M] for M in Ms]
        Ls = [[canon_M(r) for r in L] for L in Ls]
    else:
        Ms = Ls = [None] * len(cases)
    return list(zip(Rs, Ms, Ss, Ls))


# --------------------------------------------------------------------------- verdicts


def shape_of(case):
    c = case["content"]
    ndyn = sum(1 for _, r in c["rxns"] for _, cf in r["st"] if "c" not in cf)
    return (f"seg{len(case['segs'])}-{case.get('mode', 'direct')}" + ("-malformed" if malformed(case) else "")
            + f"-ro{len(c.get('readouts', []))}-sur{min(len(c['surs']), 1)}-dc{min(ndyn, 1)}")


def _sub(case, i):
    return dict(case, events=case["events"][: i + 1])


def _shrink(ctx, case, i, pred):
    """drop earlier events / segments' rows while `pred(sub, index)` still holds"""
    sub = _sub(case, i)
    changed = True
    budget = 40
    while changed and budget > 0:
        changed = False
        for j in range(len(sub["events"]) - 1):
            cand = dict(sub, events=sub["events"][:j] + sub["events"][j + 1:])
            budget -= 1
            if pred(cand):
                sub = cand
                changed = True
                break
    return sub


def judge_case(ctx, case, R, M, S, L, shrink=True):
    if S == "inexact":
        ctx.hist["skipped_inexact"] = ctx.hist.get("skipped_inexact", 0) + 1
        return
    if "build_err" in R:
        ctx.violation(case, R, "building the result object failed")
        return
    ctx.count({k: case[k] for k in ("content", "segs", "events")}, shape_of(case))
    _c = case["content"]
    _dn = {k for k, _ in _c.get("data", [])}
    if _dn:
        _ros = _c.get("readouts", [])
        if any(a in _dn for _, f in _ros for a in f["args"]):
            ctx.hist["readout-over-data-set"] = ctx.hist.get("readout-over-data-set", 0) + 1
        if any("c" not in cf and any(a in _dn for a in cf["args"]) for _, r in _c["rxns"] for _, cf in r["st"]):
            ctx.hist["computed-coefficient-over-data-set"] = ctx.hist.get("computed-coefficient-over-data-set", 0) + 1
    _names = [k for k, _ in _c.get("readouts", [])]
    if any(a in _names[i + 1:] for i, (_, f) in enumerate(_c.get("readouts", [])) for a in f["args"]):
        ctx.hist["readout-names-later-readout"] = ctx.hist.get("readout-names-later-readout", 0) + 1
    if "recorded" in R:
        ctx.violation(case, R["recorded"], "Simulator recorded other states / parameters than were produced / in force")
    if "after_failure" in R:
        ctx.hist["fails_after"] = ctx.hist.get("fails_after", 0) + 1
        n = R["after_failure"]["segments_before"]
        ctx.judge({**case, "check": "failed-integration-after-the-result"}, R["after_failure"],
                  {"get_result": "IntegrationFailure", "segments_of_earlier_result": n, "segments_before": n}, None,
                  what="after a failed integration the simulator reports the failure; the result taken before keeps its segments")
    if case.get("via_protocol"):
        ctx.hist["via_protocol"] = ctx.hist.get("via_protocol", 0) + 1
    if "mid" in R:
        # an intermediate result taken after `peek` segments and read before the simulation went on: it is a record of
        # those segments, whatever the simulator did afterwards
        want = sum(len(sg["rows"]) for sg in case["segs"][: case["peek"]])
        ctx.hist["peek"] = ctx.hist.get("peek", 0) + 1
        before = [b if isinstance(b, str) else want for b in R["mid"]["before"]]  # a view that raises for this content raises again
        ctx.judge({**case, "check": "intermediate-result"}, R["mid"],
                  {"before": before, "after": before, "raw_after": want}, None,
                  what="an intermediate result keeps its segments after the simulator went on (every view, same row count)")
    bad = malformed(case)
    o = Oracle(case)
    for i, ev in enumerate(case["events"]):
        r = R["events"][i]
        m = None if M is None else M[i]
        kind = "ev:" + ev[0] + ("" if "ok" in r else ":err")
        ctx.hist[kind] = ctx.hist.get(kind, 0) + 1
        if bad:
            # malformed result objects: the pointwise oracle only says "an error"; the idempotence oracle
            # (a single read of a fresh object) says which
            s = R["fresh"][i]
        else:
            s = S[i]
        finding = None
        if ev[0] in ("prod", "cons") and ev[2] and not bad and o.has_dynamic_coef(ev[1]):
            # the class of the former finding F-C10-2 (repaired: rows are scaled by the coefficient at the row)
            ctx.hist["scaled-with-dynamic-coefficient"] = ctx.hist.get("scaled-with-dynamic-coefficient", 0) + 1
        verdict_case = _sub(case, i)
        if (json.dumps(r, sort_keys=True) != json.dumps(s, sort_keys=True) and shrink and len(ctx.violations) < 3
                and not (finding and finding in ctx.known)):
            verdict_case = _shrink(ctx, case, i, lambda c: _differs(c, bad))
            (r2, m2, s2, _), = evaluate([verdict_case], M is not None)
            k = len(verdict_case["events"]) - 1
            if "events" in r2:
                r, m = r2["events"][k], None if m2 is None else m2[k]
                s = r2["fresh"][k] if bad else s2[k]
        ctx.judge(verdict_case, r, s, m, finding=finding, what=f"event {i} {ev[0]}")
        # reading again, alone, on a fresh object gives the same answer (any order, any history)
        if not bad and json.dumps(R["fresh"][i], sort_keys=True) != json.dumps(R["events"][i], sort_keys=True):
            ctx.violation(_sub(case, i), {"in_history": R["events"][i], "fresh_single_read": R["fresh"][i]},
                          f"event {i} {ev[0]}: answer depends on the history of reads / parameter changes")
        # the executable Lean specification agrees with the Python oracle (except where the oracle is the fresh read)
        if L is not None and not bad and json.dumps(L[i], sort_keys=True) != json.dumps(S[i], sort_keys=True):
            ctx.violation(_sub(case, i), {"lean_spec": L[i], "python_oracle": S[i]},
                          f"event {i} {ev[0]}: Lean specification and Python oracle disagree")


def _differs(case, bad):
    (R, _, S, _), = evaluate([case], False)
    if "events" not in R or S == "inexact":
        return False
    k = len(case["events"]) - 1
    s = R["fresh"][k] if bad else S[k]
    return json.dumps(R["events"][k], sort_keys=True) != json.dumps(s, sort_keys=True)


# --------------------------------------------------------------------------- entry points


def setup(ctx):
    ctx.build(PROPS)
    ctx.rule = (
        "random well-formed Content (as C01, plus readouts) x 1-4 segments of exact integer state rows with parameter "
        "changes between them (built directly or recorded by the real Simulator around a scripted integrator) x a "
        "history of 3-9 events: every view method x flag combination x normalisation shape (none/scalar/per-segment/"
        "per-row/wrong length; float/int/list/ndarray) interleaved with parameter changes on the shared model; "
        "distinct = distinct (content, segments, history); non-trivial = the oracle evaluates exactly"
    )
    ctx.assumptions += [
        "pandas DataFrame construction, .loc selection, concat and broadcasting are exercised by the tie, not modelled",
        "segments with repeated time points / without rows are outside the specification; the model covers them and is compared with the real code on them (edge stratum, R vs M only)",
        "per-segment normalisers that are themselves arrays, and zero normalisers (inf/nan), are not generated",
        "the sign rule of get_producers/get_consumers is taken as specified: sign of the coefficient at the model's initial state under segment-0 parameters",
    ]


def exhaustive_cases():
    """seed-independent stratum: one fixed two-variable model with a parameter-computed and a state-dependent
    coefficient, 3 segments, every query kind x every flag / normalisation shape once"""
    content = {
        "vars": [["x", {"v": "1"}], ["y", {"v": "2"}]],
        "pars": [["k", {"v": "2"}], ["q", {"ia": {"args": ["k"], "e": ["+", ["a", 0], ["c", "1"]]}}]],
        "derived": [["dk", {"args": ["k"], "e": ["neg", ["a", 0]]}], ["dx", {"args": ["x", "q"], "e": ["*", ["a", 0], ["a", 1]]}]],
        "rxns": [["r1", {"args": ["k", "x"], "e": ["*", ["a", 0], ["a", 1]], "st": [["x", {"c": "-1"}], ["y", {"args": ["dk"], "e": ["a", 0]}]]}],
                 ["r2", {"args": ["dx", "y"], "e": ["+", ["a", 0], ["a", 1]], "st": [["y", {"c": "-1"}], ["x", {"c": "1"}]]}]],
        "surs": [], "readouts": [["ro", {"args": ["x", "r1"], "e": ["-", ["a", 0], ["a", 1]]}]],
    }
    segs = [{"pars": [["k", "2"]], "rows": [["0", [["x", "1"], ["y", "3"]]], ["1", [["x", "2"], ["y", "4"]]]]},
            {"pars": [["k", "-3"]], "rows": [["1", [["x", "5"], ["y", "1"]]], ["2", [["x", "6"], ["y", "1"]]], ["3", [["x", "7"], ["y", "2"]]]]},
            {"pars": [["k", "1/2"]], "rows": [["4", [["x", "0"], ["y", "2"]]]]}]
    norms = [None, ["s", "2"], ["l", ["2", "4", "1/2"]], ["l", ["1", "2", "4", "8", "-2", "1/2"]], ["l", ["1", "2", "4", "8"]],
             ["l", ["1", "2", "4", "8", "-2", "1/2", "4"]]]
    evs = []
    for n in norms:
        for cc_ in (True, False):
            evs.append(["rhs", n, cc_])
            evs.append(["fluxes", True, n, cc_])
            evs.append(["vars", False, False, False, n, cc_])
            evs.append(["vars", True, True, False, n, cc_])
            for v in ("x", "y"):
                for sc in (False, True):
                    evs.append(["prod", v, sc, n, cc_])
                    evs.append(["cons", v, sc, n, cc_])
    for bits in range(256):
        evs.append(["args", [bool(bits >> b & 1) for b in range(8)], None, bool(bits & 1)])
    evs += [["variables"], ["fluxesprop"], ["combined"], ["newy0"]]
    cases = []
    for form in range(4):
        # chunks of the event list, each preceded / interrupted by a parameter change on the shared model
        for a in range(0, len(evs), 24):
            chunk = evs[a:a + 24]
            chunk = chunk[:7] + [["setpars", [["k", "5"]]], ["pvals"]] + chunk[7:] + [["pvals"]]
            cases.append({"content": content, "segs": segs, "events": chunk, "decl_seed": a, "mode": "direct" if form % 2 else "simulator",
                          "normform": form})
    return cases


def gen_edge_case(ctx):
    """inputs outside the specification's domain but inside the model's: a repeated time point within a
    segment (rows collapse in the dict keyed by time), a segment without rows (`.loc` on an empty frame)"""
    rng = ctx.rng
    while True:
        c = gen_case(ctx, 0)
        if malformed(c):
            continue
        c["mode"] = "direct"
        if rng.random() < 0.6:
            cand = [s for s in c["segs"] if len(s["rows"]) >= 2]
            if not cand:
                continue
            s = rng.choice(cand)
            j = rng.randrange(len(s["rows"]) - 1)
            s["rows"][j + 1][0] = s["rows"][j][0]
            c["edge"] = "dup-time"
        else:
            rng.choice(c["segs"])["rows"] = []
            c["edge"] = "empty-segment"
        return c


def run_edge(ctx, n):
    """model fidelity only (R vs M; no oracle claims anything about these inputs)"""
    if not ctx.driver_ok:
        return
    cases = [gen_edge_case(ctx) for _ in range(n)]
    Rs = cc.pool().map(_real_worker, cases, chunksize=4)
    Ms = driver.call_batch([_req(c) for c in cases])
    for c, R, M in zip(cases, Rs, Ms):
        ctx.hist["edge:" + c["edge"]] = ctx.hist.get("edge:" + c["edge"], 0) + 1
        if "events" not in R:
            ctx.add_drift(c, R, M, "edge stratum: build failed")
            continue
        for i, ev in enumerate(c["events"]):
            m = canon_M(M[i])
            if json.dumps(R["events"][i], sort_keys=True) != json.dumps(m, sort_keys=True):
                ctx.add_drift(_sub(c, i), R["events"][i], m, f"edge stratum ({c['edge']}): event {i} {ev[0]}")
                break


def check_hypotheses(ctx, cases):
    """the decidable hypotheses of the theorems evaluated BY THE DRIVER on the generated cases: `noDynCoefB` (hypothesis of
    the `_partial` theorems) must single out exactly the variables the harness files under finding F-C10-2, and the
    distribution of `rhsNamesOkB` (hypothesis of C10_reported_derivative_is_core_derivative) goes into the evidence"""
    if not ctx.driver_ok:
        return
    good = [c for c in cases if not malformed(c)]
    resp = driver.call_batch([dict(_req(c), checks=True) for c in good])
    for c, r in zip(good, resp):
        o = Oracle(c)
        want = [[k, not o.has_dynamic_coef(k)] for k, _ in c["content"]["vars"]]
        if sorted(r["no_dyn_coef"]) != sorted(want):
            ctx.add_drift({k: c[k] for k in ("content", "segs")}, {"finding_class_of_the_harness": want}, {"noDynCoefB": r["no_dyn_coef"]},
                          "the hypothesis of the _partial theorems and the harness's finding class F-C10-2 single out different variables")
        key = f"hyp:rhsNamesOk={r['rhs_names_ok']}:noDynCoef={'all' if all(b for _, b in r['no_dyn_coef']) else 'some-dynamic'}"
        ctx.hist[key] = ctx.hist.get(key, 0) + 1


def run(ctx):
    setup(ctx)
    done = 0
    ex = exhaustive_cases()
    check_hypotheses(ctx, ex[:1])
    for case, (R, M, S, L) in zip(ex, evaluate(ex, ctx.driver_ok)):
        judge_case(ctx, case, R, M, S, L)
        if len(ctx.violations) > 10:
            break
    n = ctx.n(500, 12000)
    if len(ctx.violations) > 10:
        n = 0
    if not ctx.proof_ok:
        n = max(n, 3000)
    batch = 100
    while done < n:
        cases = [gen_case(ctx, done + j) for j in range(min(batch, n - done))]
        for case, (R, M, S, L) in zip(cases, evaluate(cases, ctx.driver_ok)):
            judge_case(ctx, case, R, M, S, L)
        check_hypotheses(ctx, cases)
        done += len(cases)
        if len(ctx.violations) > 10:
            break
    if not ctx.violations:
        run_edge(ctx, ctx.n(60, 1000))
    if not ctx.proof_ok or ctx.drift:
        ctx.notes.append("proof/correspondence broken: the run above is the failing-input search")


def replay(ctx, rp):
    case = rp["case"]
    (R, M, S, L), = evaluate([case], ctx.driver_ok)
    print("R =", json.dumps(R.get("events", R))[:3000])
    print("M =", json.dumps(M)[:3000])
    print("S =", json.dumps(S)[:3000])
    judge_case(ctx, case, R, M, S, L, shrink=False)
