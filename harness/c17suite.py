"""harness/c17suite.py — documents of the SBML semantic test suite (tests/sbml/assets of the repo under test) that lie inside
the subset the C17 document semantics covers, converted with libsbml into the harness's document description.

The ORIGINAL file is what `sbml.read` gets (so the parser sees hand-written SBML: units, names, metaids, notes, reversible
reactions, modifiers, other spatial dimensions, decimal literals); the description feeds the independent reading (DocSpec) and the
Lean semantics.  Anything outside the subset is refused with a reason; the reasons are counted into the evidence."""
from __future__ import annotations

import os
from fractions import Fraction
from pathlib import Path

from .c08 import _val

REPO = Path(os.environ.get("MXLPY_REPO", "/repo"))
ASSETS = REPO / "tests" / "sbml" / "assets"

#: node types the document semantics (Lean `MType`, DocSpec.ev) knows
MATH_TYPES = {
    "AST_PLUS", "AST_MINUS", "AST_TIMES", "AST_DIVIDE", "AST_POWER", "AST_FUNCTION_POWER", "AST_FUNCTION_QUOTIENT",
    "AST_FUNCTION_REM", "AST_FUNCTION_ROOT", "AST_FUNCTION_ABS", "AST_FUNCTION_CEILING", "AST_FUNCTION_FLOOR",
    "AST_FUNCTION_EXP", "AST_FUNCTION_LN", "AST_FUNCTION_LOG", "AST_FUNCTION_SIN", "AST_FUNCTION_COS", "AST_FUNCTION_TANH",
    "AST_FUNCTION_ARCTAN", "AST_FUNCTION_MAX", "AST_FUNCTION_MIN", "AST_FUNCTION_PIECEWISE", "AST_LOGICAL_AND",
    "AST_LOGICAL_OR", "AST_LOGICAL_NOT", "AST_LOGICAL_XOR", "AST_RELATIONAL_EQ", "AST_RELATIONAL_NEQ", "AST_RELATIONAL_LT",
    "AST_RELATIONAL_LEQ", "AST_RELATIONAL_GT", "AST_RELATIONAL_GEQ",
}


class Outside(Exception):
    """the file uses something the C17 document semantics does not cover"""


_type_names: dict[int, str] = {}


def _tname(t: int) -> str:
    import libsbml

    if not _type_names:
        for n in dir(libsbml):
            if n.startswith("AST_") and isinstance(getattr(libsbml, n), int):
                _type_names.setdefault(getattr(libsbml, n), n)
    return _type_names.get(t, f"AST?{t}")


def from_ast(n, fundefs: set[str]):
    import libsbml

    t = n.getType()
    if t == libsbml.AST_NAME:
        return ["ci", n.getName()]
    if t == libsbml.AST_INTEGER:
        return ["cn", str(n.getInteger())]
    if t in (libsbml.AST_REAL, libsbml.AST_REAL_E, libsbml.AST_RATIONAL):
        v = n.getReal()
        if v != v or v in (float("inf"), float("-inf")):
            raise Outside("math:inf/nan")
        return ["cn", _val(v)]
    if t == libsbml.AST_CONSTANT_PI:
        return ["csym", "pi"]
    if t == libsbml.AST_CONSTANT_E:
        return ["csym", "e"]
    if t == libsbml.AST_CONSTANT_TRUE:
        return ["csym", "true"]
    if t == libsbml.AST_CONSTANT_FALSE:
        return ["csym", "false"]
    kids = [from_ast(n.getChild(i), fundefs) for i in range(n.getNumChildren())]
    if t == libsbml.AST_FUNCTION:
        if n.getName() not in fundefs:
            raise Outside("math:call of an undefined function")
        return ["call", n.getName(), kids]
    name = _tname(t)
    if name not in MATH_TYPES:
        raise Outside(f"math:{name}")
    if name in ("AST_PLUS", "AST_TIMES") and len(kids) == 0:
        raise Outside("math:empty sum/product")
    if name == "AST_MINUS" and len(kids) not in (1, 2):
        raise Outside("math:minus arity")
    return [name, kids]


def _subst(m, env):
    if m[0] == "ci":
        return env.get(m[1], m)
    if m[0] in ("cn", "csym"):
        return m
    if m[0] == "call":
        return ["call", m[1], [_subst(k, env) for k in m[2]]]
    return [m[0], [_subst(k, env) for k in m[1]]]


def _num(v: float) -> str:
    if v != v or v in (float("inf"), float("-inf")):
        raise Outside("inf / nan value")
    return _val(v)


def suite_to_doc(path: Path) -> dict:
    """the document description of a suite file, or Outside(reason)"""
    import libsbml

    d = libsbml.readSBMLFromFile(str(path))
    if d.getNumErrors(libsbml.LIBSBML_SEV_ERROR) or d.getModel() is None:
        raise Outside("libsbml reports errors")
    if " xmlns:" in Path(path).read_text().split("<model")[0]:
        raise Outside("package")
    m = d.getModel()
    if m.getNumEvents():
        raise Outside("event")
    if m.getNumConstraints():
        raise Outside("constraint")
    if m.isSetConversionFactor():
        raise Outside("conversionFactor")
    fundefs = {f.getId() for f in m.getListOfFunctionDefinitions()}
    rules = []
    for r in m.getListOfRules():
        if r.getTypeCode() != libsbml.SBML_ASSIGNMENT_RULE:
            raise Outside("rateRule" if r.getTypeCode() == libsbml.SBML_RATE_RULE else "algebraicRule")
        if r.getMath() is None:
            raise Outside("rule without math")
        rules.append([r.getVariable(), from_ast(r.getMath(), fundefs)])
    ruled = {k for k, _ in rules}
    comps = []
    for c in m.getListOfCompartments():
        if not c.getConstant():
            raise Outside("non-constant compartment")
        if not c.isSetSize() or c.getSize() == 0:
            raise Outside("compartment size unset / zero")
        if c.getId() in ruled:
            raise Outside("rule on a compartment")
        comps.append([c.getId(), _num(c.getSize())])
    inits = []
    for ia in m.getListOfInitialAssignments():
        if ia.getMath() is None:
            raise Outside("initial assignment without math")
        inits.append([ia.getSymbol(), from_ast(ia.getMath(), fundefs)])
    ia_syms = {k for k, _ in inits}
    if ia_syms & {c for c, _ in comps}:
        raise Outside("initial assignment on a compartment")
    species = []
    for s in m.getListOfSpecies():
        fixed = bool(s.getBoundaryCondition() or s.getConstant())
        if s.isSetConversionFactor():
            raise Outside("conversionFactor")
        if s.getId() in ruled:
            raise Outside("rule on a species")
        if s.isSetInitialAmount():
            init, is_amount = _num(s.getInitialAmount()), True
        elif s.isSetInitialConcentration():
            init, is_amount = _num(s.getInitialConcentration()), False
        elif s.getId() in ia_syms:
            init, is_amount = None, False
        else:
            raise Outside("species without initial value")
        if s.getHasOnlySubstanceUnits() and not is_amount and s.getId() in ia_syms:
            raise Outside("initial assignment on a hasOnlySubstanceUnits species given as concentration")  # see design notes
        species.append({"id": s.getId(), "comp": s.getCompartment(), "init": init, "isAmount": is_amount,
                        "hosu": bool(s.getHasOnlySubstanceUnits()), "fixed": fixed})
    sids = {s["id"] for s in species}
    params = []
    for p in m.getListOfParameters():
        if not p.isSetValue() and p.getId() not in ruled and p.getId() not in ia_syms:
            raise Outside("parameter without value")
        if not p.getConstant() and p.getId() not in ruled:
            pass  # a non-constant parameter nothing changes (no events / rate rules here) is a constant
        params.append([p.getId(), None if p.getId() in ruled or not p.isSetValue() else _num(p.getValue())])
    pids = {p for p, _ in params}
    fds = []
    for f in m.getListOfFunctionDefinitions():
        lam = f.getMath()
        if lam is None or lam.getType() != libsbml.AST_LAMBDA:
            raise Outside("function definition without lambda")
        nb = lam.getNumBvars()
        ps = [lam.getChild(i).getName() for i in range(nb)]
        if lam.getNumChildren() != nb + 1:
            raise Outside("function definition without body")
        fds.append({"id": f.getId(), "params": ps, "body": from_ast(lam.getChild(nb), fundefs)})
    rxns = []
    sref_ids = set()
    for r in m.getListOfReactions():
        if r.isSetFast() and r.getFast():
            raise Outside("fast reaction")
        kl = r.getKineticLaw()
        if kl is None or kl.getMath() is None:
            raise Outside("reaction without kinetic law")
        local = {}
        for lp in list(kl.getListOfLocalParameters()) or list(kl.getListOfParameters()):
            if not lp.isSetValue():
                raise Outside("local parameter without value")
            local[lp.getId()] = ["cn", _num(lp.getValue())]
        sides = []
        for lst in (r.getListOfReactants(), r.getListOfProducts()):
            side = []
            for sr in lst:
                if sr.getSpecies() not in sids:
                    raise Outside("species reference to an unknown species")
                rid = sr.getId() if sr.isSetId() else None
                if rid is not None and rid in ia_syms:
                    raise Outside("initial assignment on a species reference")
                if rid is not None and rid not in ruled:
                    rid = None if sr.isSetStoichiometry() else rid
                if rid is None and not sr.isSetStoichiometry():
                    raise Outside("stoichiometry unset")
                if rid is not None:
                    sref_ids.add(rid)
                side.append([sr.getSpecies(), _num(sr.getStoichiometry()) if sr.isSetStoichiometry() else None, rid])
            sides.append(side)
        law = from_ast(kl.getMath(), fundefs)
        if local:
            law = _subst(law, local)  # a local parameter shadows every global symbol of its name inside this law
        rxns.append({"id": r.getId(), "reactants": sides[0], "products": sides[1], "law": law})
    known = sids | pids | {c for c, _ in comps} | sref_ids | {r["id"] for r in rxns}
    for k in ruled:
        if k not in pids and k not in sref_ids:
            raise Outside("rule on something else")
    for k in ia_syms:
        if k not in pids and k not in sids:
            raise Outside("initial assignment on something else")

    def names(mm, bound=()):
        if mm[0] == "ci":
            return set() if mm[1] in bound else {mm[1]}
        if mm[0] in ("cn", "csym"):
            return set()
        out = set()
        for k in (mm[2] if mm[0] == "call" else mm[1]):
            out |= names(k, bound)
        return out

    for mm in [x for _, x in rules] + [x for _, x in inits] + [r["law"] for r in rxns]:
        if names(mm) - known:
            raise Outside("math mentions an unknown symbol (time, avogadro, ...)")
    for f in fds:
        if names(f["body"], set(f["params"])):
            raise Outside("function definition with free symbols")
    return {"comps": comps, "species": species, "params": params, "fundefs": fds, "inits": inits, "rules": rules, "rxns": rxns}


def suite_files() -> list[tuple[int, Path]]:
    out = []
    if not ASSETS.is_dir():
        return out
    for p in sorted(ASSETS.iterdir()):
        if p.name.isdigit():
            f = p / f"{p.name}-sbml-l3v2.xml"
            if f.exists():
                out.append((int(p.name), f))
    return out


def classify() -> tuple[list[tuple[int, Path, dict]], dict[str, int]]:
    """(documents inside the subset, histogram of refusal reasons)"""
    inside, why = [], {}
    for n, f in suite_files():
        try:
            inside.append((n, f, suite_to_doc(f)))
        except Outside as e:
            k = str(e).split(":")[0] if str(e).startswith("math:") and False else str(e)
            why[k] = why.get(k, 0) + 1
    return inside, why


def states_for(doc, rng, fixed_amounts=None) -> list:
    """three generic positive states; a boundary / constant species keeps the amount the document gives it (the
    imported model may hold it as a parameter)"""
    fixed_amounts = fixed_amounts or {}
    sts = []
    for _ in range(3):
        sts.append([[s["id"], fixed_amounts.get(s["id"]) or rng.choice(["1/2", "1", "3/2", "2", "3", "1/4"])]
                    for s in doc["species"]])
    return sts
