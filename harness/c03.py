"""C03 — edit histories: answers depend only on the model's current content (DESIGN §6/C03).

R = the real `Model` driven through an op history;
M = the Lean state machine `Mxl.C03.step` (driver op "c03") on the same history;
S = after EVERY op, a freshly built real `Model` with R's own current content (read back into wire form and
    rebuilt from scratch) answering the same query / reporting its ids, plus the order-free restatement of the
    name-space rules (`c03spec`) for the outcome class, plus "a rejected edit leaves content and ids untouched".
"""
from __future__ import annotations

import json
import logging
import multiprocessing as mp
import os

from vlib import driver

from . import c03gen as G
from . import c03ops as O
from . import c03spec

PROPS = ["MxlVerif.Props.C03"]
PLURAL_FINDING = "F-C03-10"

# --------------------------------------------------------------------------- real code + oracle (worker)


def _prefix_applied(before, op, after):
    """plural form that raised: is the state exactly `before` + the accepted prefix of its elements?"""
    try:
        rep = O.fresh_model(before)
    except Exception:  # noqa: BLE001
        return False
    n_ok = 0
    for el in O.singular_ops(op):
        try:
            O.apply_mut(rep, el)
            n_ok += 1
        except Exception:  # noqa: BLE001
            break
    return n_ok > 0 and O.snapshot(rep) == after


def run_history(case):
    """-> (R, S): per op observation dicts (S is None before case['check_from'])"""
    import warnings

    warnings.filterwarnings("ignore")
    logging.disable(logging.CRITICAL)
    from mxlpy import Model

    ops, start = case["ops"], case.get("check_from", 0)
    import copy

    m = Model()
    O.reset_objects()
    vops = O.resolve_aliases(ops)  # what the oracles read: a kept surrogate object passed again = its original content
    R, S = [], []
    originals = []  # (model that was deep-copied, its content and ids at that moment)
    carried = None  # (model, its snapshot, its ids) as read after the previous op — nothing touched the model since
    for i, op in enumerate(ops):
        check = i >= start
        if check and carried is not None and carried[0] is m:
            before, ids_before = carried[1], carried[2]
        else:
            before = O.snapshot(m) if check else None
            ids_before = O.ids_of(m) if check else None
        ans = None
        out = "ok"
        entry = None
        if op[0] == "q":
            ans = O.run_query(m, op)
            entry = O.LAST_ENTRY[0]
        elif op[0] == "fork":
            old = m
            if len(op) > 1 and op[1] == "pickle":
                import pickle

                m = pickle.loads(pickle.dumps(old))  # noqa: S301
            else:
                m = copy.deepcopy(old)
            # `==` between the copy and its original: True at once, and still True after a query has filled the
            # cache of one of them only (the memoised cache is not part of a model's value)
            eq_now = bool(m == old) and m is not old and (old._cache is None or m._cache is not old._cache)
            probe = copy.deepcopy(old)  # a third model on which the cache state is flipped (old itself stays as it is)
            try:
                if probe._cache is None:
                    probe.get_initial_conditions()
                else:
                    probe._cache = None
            except Exception:  # noqa: BLE001
                pass
            eq_after = bool(m == probe) and bool(probe == m)
            originals.append((old, O.snapshot(old), O.ids_of(old), eq_now, eq_after))
        elif op[0] == "call":
            try:
                O.apply_call(m, op)
            except Exception as e:  # noqa: BLE001
                out = type(e).__name__
        else:
            try:
                O.apply_mut(m, op)
            except Exception as e:  # noqa: BLE001
                out = type(e).__name__
        r = {"out": out, "ids": O.ids_of(m), "keys": O.keylists(m), "ans": ans, "changed": False,
             "effect": "as documented"}
        if op[0] == "q":
            r["entry"] = entry  # the public method the query reached first (Lean: `Query.entry`)
        s = None
        if check:
            try:
                after = O.snapshot(m)
            except Exception:  # noqa: BLE001
                if any(o[0] == "call" for o in ops):
                    break  # a probe call stored something that is not a model component: the history ends here
                raise
            carried = (m, after, r["ids"])
            if out != "ok":
                r["changed"] = after != before or r["ids"] != ids_before
            s = {"keys": r["keys"], "changed": False, "ans": None, "effect": "as documented"}
            if out == "ok" and op[0] not in ("q", "fork", "call"):
                exp = c03spec.expected_content(before, vops[i])
                if exp is not None and exp != after:
                    r["effect"] = {"content differs in": [k for k in O.KEYS if exp[k] != after[k]]}
            exp = (c03spec.expected_outcome(before, vops[i]) if op[0] not in ("q", "fork", "call")
                   else None if op[0] == "call" else "ok")
            s["out"] = r["out"] if exp is None else exp
            fresh = None
            try:
                fresh = O.fresh_model(after)
                s["ids"] = O.ids_of(fresh)
                if op[0] == "q":
                    s["ans"] = O.run_query(fresh, op)
            except Exception as e:  # noqa: BLE001
                s["ids"] = {"content cannot be rebuilt": type(e).__name__}
                s["ans"] = {"content cannot be rebuilt": type(e).__name__} if op[0] == "q" else None
            if op[0] == "q":
                # the real freshly built model's answer, also under its own key: the Lean model's `freshAnswer` is
                # compared with it (M["fresh"] vs R["fresh"], a correspondence check of the theorems' right-hand side)
                r["fresh"] = s["ans"]
                s["fresh"] = s["ans"]
            if i == len(ops) - 1:
                # the freshly built real model itself (ids, key order of the seven containers): the counterpart of the
                # Lean model's `freshState`
                try:
                    r["rebuilt"] = {"ids": O.ids_of(fresh), "keys": O.keylists(fresh),
                                    # every declared name: the keys of the seven containers and all surrogate outputs
                                    "names": sorted([k for ks in O.keylists(fresh) for k in ks]
                                                    + [o for su in fresh.get_raw_surrogates().values() for o in su.outputs])}
                except Exception as e:  # noqa: BLE001
                    r["rebuilt"] = {"content cannot be rebuilt": type(e).__name__}
                s["rebuilt"] = r["rebuilt"]
            if r["changed"] and op[0] in O.PLURAL and _prefix_applied(before, op, after):
                r["prefix"] = True
                s["prefix"] = True
        if check and out != "ok" and op[0] in c03spec.SURROGATE_PATHS:
            r["surpath"] = c03spec.surrogate_reject_path(before, vops[i])
        R.append(r)
        S.append(s)
    if originals and S and S[-1] is not None:
        # edits of a deep copy never reach the model it was copied from
        probe = ["q", "argsro", ["2", "3", "1"], "1"]
        bad = []
        for j, (orig, snap, ids, eq_now, eq_after) in enumerate(originals):
            if not eq_now:
                bad.append([j, "the copy is not equal to (or shares its cache with) the model it was copied from"])
                continue
            if not eq_after:
                bad.append([j, "copy and original differ in == once only one of them has a cache"])
                continue
            if O.snapshot(orig) != snap or O.ids_of(orig) != ids:
                bad.append([j, "content or ids of the original changed"])
                continue
            try:
                want = O.run_query(O.fresh_model(snap), probe)
            except Exception:  # noqa: BLE001
                continue
            if O.run_query(orig, probe) != want:
                bad.append([j, "the original answers differently from a fresh model with its content"])
        R[-1]["forks"] = bad or "intact"
        S[-1]["forks"] = "intact"
    return R, S


_pool = None


def pool():
    global _pool
    if _pool is None:
        _pool = mp.get_context("fork").Pool(min(16, os.cpu_count() or 4))
    return _pool


# --------------------------------------------------------------------------- Lean model


def model_histories(cases):
    """M: per history, per op >= check_from {"out","ids","keys","ans"} from the Lean state machine
    (None for the build prefix)"""
    res = driver.call_batch([{"op": "c03", "ops": [O.canon_op(o) for o in O.resolve_aliases(c["ops"])], "from": c.get("check_from", 0)}
                             for c in cases])
    out = []
    for c, r in zip(cases, res):
        start = c.get("check_from", 0)
        obs = [None] * start
        for o in r:
            q = c["ops"][len(obs)]
            ob = {"out": o["out"], "ids": sorted(o["ids"]), "keys": o["keys"], "ans": _canon_q(o.get("ans"), q)}
            if q[0] == "q":
                # what `freshAnswer` (the right-hand side of C03_fresh_equiv) says; compared with the real fresh model
                ob["fresh"] = _canon_q(o.get("fresh"), q)
                ob["entry"] = o.get("entry")
            if "rebuilt" in o:
                # the Lean model built from scratch by `rebuild` (C03_refines_fresh); compared with the real fresh model
                ob["rebuilt"] = {"ids": sorted(o["rebuilt"]["ids"]), "keys": o["rebuilt"]["keys"],
                                 "names": sorted(o["rebuilt"]["names"])}
            obs.append(ob)
        out.append(obs)
    return out


def _canon_q(ans, q):
    if ans is None:
        return None
    ans = canon_model_ans(ans)
    if "ok" in ans and q[1] == "stoich":
        from vlib import content as C

        ans = {"ok": C.canon_stoich({cp: dict(row) for cp, row in ans["ok"]})}
    elif "ok" in ans and q[1] == "stoichvar":
        ans = {"ok": sorted(ans["ok"])}
    elif "ok" in ans and q[1] == "names" and q[2] == "unused":
        ans = {"ok": sorted(ans["ok"])}
    return ans


def canon_model_ans(a):
    if "err" in a:
        cls = a["err"][0]
        if cls == "Other":  # Err.other carries the class name (ArityMismatchError)
            cls = a["err"][1]
        if cls == "MissingDependenciesError":
            return {"err": [cls, sorted([k, sorted(v)] for k, v in a["err"][1])]}
        return {"err": [cls]}
    return a


# --------------------------------------------------------------------------- comparing (in the workers)


def _big(x, bits=48):
    """does an answer contain a number outside the range in which double arithmetic was certainly exact?"""
    if isinstance(x, str):
        try:
            n, _, d = x.partition("/")
            return abs(int(n)).bit_length() > bits or bool(d and int(d).bit_length() > bits)
        except ValueError:
            return x in ("nan", "inf", "-inf")
    if isinstance(x, dict):
        return any(_big(v) for v in x.values())
    if isinstance(x, list):
        return any(_big(v) for v in x)
    return False


def diffs(R, S):
    """(index, kind) of every op where R and S disagree"""
    out = []
    for i, (r, s) in enumerate(zip(R, S)):
        if s is None:
            continue
        for key in ("out", "changed", "effect", "ids", "ans", "forks"):
            if r.get(key) != s.get(key):
                out.append((i, key))
                break
    return out


def first_diff(R, S):
    d = diffs(R, S)
    return d[0] if d else None


def m_view(r, mobs):
    """M has no notion of 'changed'/'prefix' (they are R-vs-oracle facts): copy them"""
    v = dict(mobs)
    v["changed"] = r["changed"]
    v["effect"] = r["effect"]
    if "prefix" in r:
        v["prefix"] = True
    if "forks" in r:
        v["forks"] = r["forks"]
    if "surpath" in r:
        v["surpath"] = r["surpath"]
    return v


def is_plural_class(r, s, kind):
    """the listed class: a plural form raised after applying exactly its accepted prefix, nothing else is off"""
    return (kind == "changed" and bool(r.get("prefix"))
            and {k: v for k, v in r.items() if k != "changed"} == {k: v for k, v in s.items() if k != "changed"})


def check_history(arg):
    """worker: run R and S, compare with each other and with M; return a small report"""
    case, M = arg
    R, S = run_history(case)
    idx = [i for i, s in enumerate(S) if s is not None]
    ops = case["ops"]
    rep = {"skipped": False, "plural": [], "diff": None, "drift": None, "outcomes": {}, "muts": []}
    if any(_big(R[i]["ans"]) for i in idx):
        rep["skipped"] = True
        return rep
    rep["muts"] = [ops[i][0] for i in idx if ops[i][0] not in ("q", "fork")]
    rep["surpaths"] = [f"{ops[i][0]}:{R[i]['surpath']}:{R[i]['out']}" for i in idx if "surpath" in R[i]]
    rep["queries"] = [ops[i][1] + (":" + ops[i][2] if ops[i][1] == "names" else "") for i in idx if ops[i][0] == "q"]
    for i in idx:
        if ops[i][0] == "fork":
            k = "fork"
        elif ops[i][0] == "q":
            a = R[i]["ans"] or {}
            k = "query:" + ("ok" if "ok" in a else a.get("err", ["?"])[0])
        else:
            k = "accepted" if R[i]["out"] == "ok" else "rejected:" + R[i]["out"]
        rep["outcomes"][k] = rep["outcomes"].get(k, 0) + 1
    for i, kind in diffs(R, S):
        mv = None if M is None else m_view(R[i], M[i])
        if is_plural_class(R[i], S[i], kind):
            rep["plural"].append({"i": i, "R": R[i], "S": S[i], "M": mv})
        else:
            rep["diff"] = {"i": i, "kind": kind, "R": R[i], "S": S[i], "M": mv}
            break
    if M is not None:
        for i in idx:
            mv = m_view(R[i], M[i])
            if mv != R[i]:
                rep["drift"] = {"i": i, "R": R[i], "M": mv}
                break
    return rep


# --------------------------------------------------------------------------- shrinking and verdicts (main process)


def signature(case, i, kind):
    op = case["ops"][i]
    prev = next((o[0] for o in reversed(case["ops"][:i]) if o[0] != "q"), "-")
    if op[0] == "q" and op[1] not in ("init", "pvals", "classes", "args", "argsro", "rhs", "fluxes", "call", "stoich",
                                      "stoichvar"):
        return f"{kind}@{op[1]}-after-{prev}"
    if op[0] == "call":
        return f"{kind}@call:{op[1]}"
    if prev == "call":
        prev = next("call:" + o[1] for o in reversed(case["ops"][:i]) if o[0] == "call")
    return f"{kind}@{op[0] if op[0] != 'q' else 'query-after-' + prev}"


def fails_like(ops, kind, plural):
    R, S = run_history({"ops": ops, "check_from": 0})
    for i, k in diffs(R, S):
        if is_plural_class(R[i], S[i], k) == plural and k == kind:
            return True
        if not is_plural_class(R[i], S[i], k):
            return False
    return False


def ddmin(ops, kind, plural=False):
    """delta debugging over the op list with the fresh-rebuild oracle (needs no Lean)"""
    n = 2
    ops = list(ops)
    while len(ops) >= 2:
        chunk = max(1, len(ops) // n)
        subsets = [ops[i:i + chunk] for i in range(0, len(ops), chunk)]
        reduced = False
        for i in range(len(subsets)):
            comp = [o for j, sub in enumerate(subsets) if j != i for o in sub]
            if comp and fails_like(comp, kind, plural):
                ops = comp
                n = max(n - 1, 2)
                reduced = True
                break
        if not reduced:
            if chunk == 1:
                break
            n = min(n * 2, len(ops))
    return ops


class Judge:
    def __init__(self, ctx):
        self.ctx = ctx
        self.seen_sigs: dict[str, int] = {}
        self.plural_reported = 0

    def _shrunk(self, ops, kind, plural):
        """shrink, re-run R/S (and M) on the small history, return (case, R_i, S_i, M_i)"""
        ctx = self.ctx
        small = ddmin(ops, kind, plural)
        R2, S2 = run_history({"ops": small, "check_from": 0})
        j = next(i for i, k in diffs(R2, S2) if is_plural_class(R2[i], S2[i], k) == plural)
        M2 = None
        if ctx.driver_ok:
            try:
                M2 = m_view(R2[j], model_histories([{"ops": small}])[0][j])
            except Exception as e:  # noqa: BLE001
                ctx.notes.append(f"driver failed on shrunk history: {e!r}"[:300])
        return {"ops": small, "failing_op": j}, R2[j], S2[j], M2

    def report(self, case, rep):
        ctx = self.ctx
        if rep["skipped"]:
            ctx.hist["skipped_inexact"] = ctx.hist.get("skipped_inexact", 0) + 1
            return
        ctx.count(case["ops"], case.get("shape", ""), nontrivial=bool(rep["muts"]))
        cov = ctx.extra_cov
        for o in rep["muts"]:
            cov.setdefault("mutators_hit", {})[o] = cov.setdefault("mutators_hit", {}).get(o, 0) + 1
        for o in rep.get("queries", []):
            cov.setdefault("queries_hit", {})[o] = cov.setdefault("queries_hit", {}).get(o, 0) + 1
        for o in rep.get("surpaths", []):
            cov.setdefault("surrogate_rejections_hit", {})[o] = cov.setdefault("surrogate_rejections_hit", {}).get(o, 0) + 1
        for k, v in rep["outcomes"].items():
            cov.setdefault("outcomes_hit", {})[k] = cov.setdefault("outcomes_hit", {}).get(k, 0) + v
        for pl in rep["plural"]:
            self.plural_reported += 1
            if self.plural_reported <= 2:
                sub, r, s, m = self._shrunk(case["ops"][: pl["i"] + 1], "changed", True)
            elif PLURAL_FINDING in ctx.known:
                # further occurrences: only the R == M part of the rule matters
                if pl["M"] is not None and pl["M"] != pl["R"]:
                    ctx.add_drift({"ops": case["ops"][: pl["i"] + 1]}, pl["R"], pl["M"], "plural form")
                continue
            else:
                sub, r, s, m = {"ops": case["ops"][: pl["i"] + 1]}, pl["R"], pl["S"], pl["M"]
            ctx.judge(sub, r, s, m, finding=PLURAL_FINDING,
                      what="plural form raised after applying a prefix of its elements")
        d = rep["diff"]
        if d is None:
            if not rep["plural"]:
                ctx.judge({"ops": case["ops"]}, "R=S on every op", "R=S on every op", None, what="history")
            if rep["drift"] is not None:
                dr = rep["drift"]
                ctx.add_drift({"ops": case["ops"][: dr["i"] + 1]}, dr["R"], dr["M"], "history: real model vs Lean model")
            return
        sig = signature(case, d["i"], d["kind"])
        self.seen_sigs[sig] = self.seen_sigs.get(sig, 0) + 1
        cov.setdefault("violation_signatures", {})[sig] = self.seen_sigs[sig]
        if self.seen_sigs[sig] > 1 or len(self.seen_sigs) > 40:
            return  # same mechanism already shrunk and reported
        sub, r, s, m = self._shrunk(case["ops"][: d["i"] + 1], d["kind"], False)
        sub["differs_in"] = d["kind"]
        ctx.judge(sub, r, s, m, what=f"{sig}: real model vs freshly built model with the same content / name-space rules")


def evaluate(ctx, cases, judge, use_model=True):
    Ms = [None] * len(cases)
    if ctx.driver_ok and use_model:
        Ms = model_histories(cases)
    reps = pool().map(check_history, list(zip(cases, Ms)), chunksize=4)
    for c, rep in zip(cases, reps):
        judge.report(c, rep)


# --------------------------------------------------------------------------- entry points


def setup(ctx):
    from translate import c03 as T

    ctx.translate(T.generate)
    ctx.build(PROPS)
    if ctx.driver_ok:
        # the Lean lists (mutators from the generated table, `modelledEntries`, `outOfScope`) against the harness' own
        try:
            L = driver.call_batch([{"op": "c03", "lists": True}])[0]
            lean = (set(L["modelled"]) - {"__eq__"}) | set(L["out"]) | set(L["mutators"])
            if lean != O.KNOWN_PUBLIC or set(L["modelled"]) & set(L["out"]):
                ctx.add_drift({"lists": "public surface"}, sorted(O.KNOWN_PUBLIC ^ lean), sorted(set(L["modelled"]) & set(L["out"])),
                              "harness KNOWN_PUBLIC vs Lean mutators + modelledEntries + outOfScope")
        except Exception as e:  # noqa: BLE001
            ctx.notes.append(f"surface lists not comparable: {e!r}"[:200])
    ctx.rule = (
        "op histories over all 30 public Model mutators (valid and invalid arguments, keyword / object variants, "
        "functions with stated signatures) and 35 query forms, deep copies; distinct = "
        "distinct op lists; non-trivial = contains at least one mutator after the build prefix. Exhaustive stratum "
        "(seed-independent): build; q1|none; m; q2; battery for every mutator x every listed argument choice x "
        "(none + 2 query forms in quick, none + 10 in thorough) x 10 query forms (incl. get_stoichiometries[_of_variable])."
    )
    ctx.assumptions += [
        "data sets are scalars (the Model stores whatever object it is given; pandas objects are not modelled)",
        "units / sources of components are not modelled; functions are total (+ - * on dyadic rationals)",
        "the functions of surrogates and of computed stoichiometric coefficients are called with as many values as they "
        "take (no arity check exists for them in the code); functions with a stated signature are either rejected by "
        "the arity check or callable with their argument list",
    ]
    ctx.trusted_base += [
        "translate/c03.py: reads decorator lists and the order of self._ids / container statements of every public "
        "mutator from src/mxlpy/model.py with `ast`; refuses shapes it does not know",
    ]


def run(ctx):
    setup(ctx)
    judge = Judge(ctx)
    # corpus first: the minimal witnesses of every listed finding (a fix that regresses shows up at once)
    corpus = [{"ops": e["witness"]["ops"] + G.BATTERY[-2:], "check_from": 0, "shape": "corpus:" + e["id"]}
              for e in list(ctx.fixed.values()) + list(ctx.known.values())
              if e.get("witness", {}).get("ops") and e["witness"]["ops"][0] != "BASE"]
    evaluate(ctx, corpus, judge)
    evaluate(ctx, list(G.arity_histories()) + list(G.extra_histories()) + list(G.copy_histories())
             + list(G.empty_flux_histories()) + list(G.degenerate_histories()) + list(G.shadow_histories())
             + list(G.scan_histories()) + list(G.alias_histories()) + list(G.readout_data_histories())
             + list(G.readout_order_histories()), judge)
    ctx.exhaustive = True
    thorough = ctx.tier == "thorough"
    cur = []
    for c in G.pairs(None if thorough else 2):
        cur.append(c)
        if len(cur) == 1600:  # few, large batches: every batch ends with a barrier (stragglers cost under load)
            evaluate(ctx, cur, judge)
            cur = []
    if cur:
        evaluate(ctx, cur, judge)
    p2 = list(G.pairs2())
    for i in range(0, len(p2), 400):
        evaluate(ctx, p2[i:i + 400], judge)
    hit = {k.rsplit(":", 1)[0] for k in ctx.extra_cov.get("surrogate_rejections_hit", {})}
    want = {f"{m}:{p_}" for m, ps in c03spec.SURROGATE_PATHS.items() for p_ in ps}
    ctx.extra_cov["surrogate_rejection_paths_missed"] = sorted(want - hit)
    if want - hit:
        ctx.notes.append(f"rejecting paths of the surrogate mutators not reached by the generator: {sorted(want - hit)}")
    # public methods nobody has described (a NEW method in the source: C03_table_surface / the translator have already
    # broken the proof side): look for a failing input by calling them inside histories — the fresh-rebuild oracle
    # needs no model of the method (edits without invalidation, ids out of step, half-applied rejections show)
    unknown = O.unknown_public()
    if unknown:
        ctx.notes.append(f"public methods of Model unknown to the check: {unknown}; probed with {len(O.PROBE_ARGS)} "
                         "argument lists each (real code vs freshly built model, no Lean model)")
        ctx.extra_cov["unknown_public_methods"] = unknown
        evaluate(ctx, list(G.probe_histories(unknown, O.PROBE_ARGS)), judge, use_model=False)
    # a broken proof / drifting model without a failing input so far: widen the search (thorough generator)
    widen = thorough or ((not ctx.proof_ok or bool(ctx.drift)) and not ctx.violations)
    if widen and not thorough:
        ctx.notes.append("proof/correspondence broken and no failing input among the pairs: thorough generator used")
        extra = [c for c in G.pairs(None) if c["ops"][len(G.BASE)] in G.QUERIES[3:]]
        for i in range(0, len(extra), 400):
            evaluate(ctx, extra[i:i + 400], judge)
            if ctx.violations:
                break
    tri = list(G.triples()) if widen else list(G.triples(ctx.rng, 1500))
    for i in range(0, len(tri), 400):
        evaluate(ctx, tri[i:i + 400], judge)
        if len(ctx.violations) > 10 or (ctx.violations and not thorough):
            break
    n_rand = 20000 if widen else 400
    for i in range(0, n_rand, 200):
        cases = [G.random_history(ctx.rng, ctx.rng.randint(4, 25)) for _ in range(min(200, n_rand - i))]
        evaluate(ctx, cases, judge)
        if len(ctx.violations) > 10 or (ctx.violations and not thorough):
            break


def replay(ctx, rp):
    case = rp["case"]
    ops = case["ops"]
    if ops and ops[0] == "BASE":
        print("replay of the former R-vs-fresh arity stratum: the arity histories are part of the stream now")
        evaluate(ctx, list(G.arity_histories()), Judge(ctx))
        return
    R, S = run_history({"ops": ops, "check_from": 0})
    probe = any(o[0] == "call" for o in ops)  # a call of a method the Lean model has no op for: R vs S only
    M = model_histories([{"ops": ops}])[0] if ctx.driver_ok and not probe else None
    for i, op in enumerate(ops):
        print(f"--- op {i}: {json.dumps(op)}")
        if i >= len(R):
            print("  (history ended: the content could not be read back after a probe call)")
            break
        print("  R:", json.dumps(R[i]))
        print("  S:", json.dumps(S[i]))
        if M is not None and i < len(M):
            print("  M:", json.dumps(M[i]))
    c = {"ops": ops, "check_from": 0}
    Judge(ctx).report(c, check_history((c, M)))
