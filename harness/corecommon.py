"""Shared by C01 / C02 / C13 (and C03): evaluate (content, queries) cases on the real Model,
the Lean model (driver op "core") and the order-free Python spec."""
from __future__ import annotations

import multiprocessing as mp
import os
import random

from vlib import content as C
from vlib import driver
from vlib.fexpr import Inexact


def _real_worker(case):
    import warnings

    warnings.filterwarnings("ignore")
    rng = random.Random(case.get("decl_seed", 0))
    try:
        m = C.build_model(case["content"], rng)
    except Exception as e:  # noqa: BLE001
        return [{"err": ["build:" + type(e).__name__]}] * len(case["queries"])
    if case.get("pre_edit"):
        # mutators applied through the public API BEFORE anything is asked; model and oracle get the content
        # these edits amount to (`effective_content`)
        try:
            apply_edit(m, case["pre_edit"])
        except Exception as e:  # noqa: BLE001
            return [{"err": ["pre_edit:" + type(e).__name__]}] * len(case["queries"])
    out = []
    for q in case["queries"]:
        out.append(C.run_query(m, q))
    if case.get("edit"):
        # second round: change plain parameter values through the public API, ask again
        try:
            apply_edit(m, case["edit"])
        except Exception as e:  # noqa: BLE001
            return out + [{"err": ["edit:" + type(e).__name__]}] * len(case["queries"])
        for q in case["queries"]:
            out.append(C.run_query(m, q))
    return out


def apply_edit(m, edit):
    """edit = list of [op, name, payload]; all through the public Model API"""
    from fractions import Fraction

    from vlib import fexpr

    for op, name, payload in edit:
        if op == "update_parameter":
            m.update_parameter(name, fexpr.to_float(Fraction(payload)))
        elif op == "update_parameters":
            m.update_parameters({name: fexpr.to_float(Fraction(payload))})
        elif op == "scale_parameter":
            old = m.get_parameter_values()[name]
            m.scale_parameter(name, fexpr.to_float(Fraction(payload)) / old)
        elif op == "update_variable":
            m.update_variable(name, fexpr.to_float(Fraction(payload)))
        elif op == "update_derived_fn":
            m.update_derived(name, fn=C._fn(payload))
        elif op == "update_reaction_fn":
            m.update_reaction(name, fn=C._fn(payload))
        elif op == "update_reaction_st":
            m.update_reaction(name, stoichiometry={c: C._coef(cj) for c, cj in payload})
        elif op == "make_variable_static":
            m.make_variable_static(name)
        elif op == "make_parameter_dynamic":
            m.make_parameter_dynamic(name)
        elif op == "update_data":
            import pandas as pd

            m.update_data(name, pd.Series([fexpr.to_float(Fraction(payload))]))
        elif op == "remove_data":
            m.remove_data(name)
        elif op == "update_derived":  # new function AND new argument list (possibly empty)
            m.update_derived(name, fn=C._fn(payload), args=list(payload["args"]))
        elif op == "update_reaction":
            m.update_reaction(name, fn=C._fn(payload), args=list(payload["args"]))
        else:
            raise ValueError(op)


def effective_content(case):
    """the content the declared one amounts to after the `pre_edit` mutators"""
    if not case.get("pre_edit"):
        return case["content"]
    return edited_content({"content": case["content"], "edit": case["pre_edit"]})


def edited_content(case):
    import copy

    c = copy.deepcopy(effective_content(case))
    for op, name, payload in case["edit"]:
        if op in ("update_parameter", "update_parameters", "scale_parameter"):
            for kv in c["pars"]:
                if kv[0] == name:
                    kv[1] = {"v": payload}
        elif op == "update_variable":
            for kv in c["vars"]:
                if kv[0] == name:
                    kv[1] = {"v": payload}
        elif op == "make_variable_static":
            # the variable leaves every stoichiometry and comes back as a parameter with the same (plain or
            # assignment-defined) value
            val = next(v for k, v in c["vars"] if k == name)
            c["vars"] = [kv for kv in c["vars"] if kv[0] != name]
            for _, r in c["rxns"]:
                r["st"] = [e for e in r["st"] if e[0] != name]
            for _, su in c["surs"]:
                su["st"] = [[f, [e for e in st if e[0] != name]] for f, st in su["st"]]
            c["pars"] = c["pars"] + [[name, val]]
        elif op == "make_parameter_dynamic":
            val = next(v for k, v in c["pars"] if k == name)
            c["pars"] = [kv for kv in c["pars"] if kv[0] != name]
            c["vars"] = c["vars"] + [[name, val]]
        elif op == "update_data":
            for kv in c.get("data", []):
                if kv[0] == name:
                    kv[1] = payload
        elif op == "remove_data":
            c["data"] = [kv for kv in c.get("data", []) if kv[0] != name]
        elif op == "update_derived_fn":
            for kv in c["derived"]:
                if kv[0] == name:
                    kv[1] = dict(kv[1], e=payload["e"])
        elif op == "update_reaction_fn":
            for kv in c["rxns"]:
                if kv[0] == name:
                    kv[1] = dict(kv[1], e=payload["e"])
        elif op == "update_reaction_st":
            for kv in c["rxns"]:
                if kv[0] == name:
                    kv[1] = dict(kv[1], st=payload)
        elif op == "update_derived":
            for kv in c["derived"]:
                if kv[0] == name:
                    kv[1] = dict(kv[1], args=list(payload["args"]), e=payload["e"])
        elif op == "update_reaction":
            for kv in c["rxns"]:
                if kv[0] == name:
                    kv[1] = dict(kv[1], args=list(payload["args"]), e=payload["e"])
    return c


def gen_edit(rng, content, n=(1, 3)):
    """random edits that keep the dependency graph (only values, function bodies, numeric stoichiometry)"""
    from vlib import fexpr

    ops = []
    plain_p = [k for k, v in content["pars"] if "v" in v]
    plain_v = [k for k, v in content["vars"] if "v" in v]
    for _ in range(rng.randint(*n)):
        kinds = []
        if plain_p:
            kinds += ["update_parameter", "update_parameters", "scale_parameter"]
        if plain_v:
            kinds += ["update_variable"]
        if content["derived"]:
            kinds += ["update_derived_fn"] * 2
        if content["rxns"]:
            kinds += ["update_reaction_fn"] * 2 + ["update_reaction_st"]
        live_data = [k for k, _ in content.get("data", []) if ["remove_data", k, None] not in ops]
        if live_data:
            # data sets edited through the API: a new value; a removal (whatever names it is then missing)
            kinds += ["update_data"] * 2 + ["remove_data"]
        if not kinds:
            break
        op = rng.choice(kinds)
        if op == "update_data":
            ops.append([op, rng.choice(live_data), str(rng.choice([1, 2, 4, 5]))])
            continue
        if op == "remove_data":
            # last edit of the round: the harness' own scale_parameter reads the model, which a removal may break
            ops.append([op, rng.choice(live_data), None])
            break
        if op in ("update_parameter", "update_parameters", "scale_parameter"):
            ops.append([op, rng.choice(plain_p), str(rng.choice([1, 2, 4, 5]))])
        elif op == "update_variable":
            ops.append([op, rng.choice(plain_v), str(rng.choice([1, 2, 4, 5]))])
        elif op == "update_derived_fn":
            k, f = rng.choice(content["derived"])
            ops.append([op, k, {"args": f["args"], "e": fexpr.gen_expr(rng, len(f["args"]), 1)}])
        elif op == "update_reaction_fn":
            k, f = rng.choice(content["rxns"])
            ops.append([op, k, {"args": f["args"], "e": fexpr.gen_expr(rng, len(f["args"]), 1)}])
        else:
            k, f = rng.choice(content["rxns"])
            ops.append([op, k, [[c, {"c": str(rng.choice([-3, -1, 1, 2, "1/2"]))}] for c, _ in f["st"]]])
    return ops


def _spec(case):
    out = []
    for content in [effective_content(case)] + ([edited_content(case)] if case.get("edit") else []):
        sp = C.Spec(content)
        for q in case["queries"]:
            try:
                out.append(sp.answer(q))
            except Inexact:
                out.append("inexact")
    return out


_pool = None


def pool():
    global _pool
    if _pool is None:
        # import the library (pandas, sympy, … behind it) ONCE in the parent: the forked workers inherit the
        # loaded modules instead of each importing them again (16 concurrent cold imports cost ~40 s under load)
        import mxlpy  # noqa: F401
        from mxlpy.surrogates import qss  # noqa: F401
        import pandas  # noqa: F401
        from mxlpy import Simulator  # noqa: F401

        _pool = mp.get_context("fork").Pool(min(16, os.cpu_count() or 4))
    return _pool


def canon_M(q, r):
    if q[0] == "stoich":
        return C.canon_stoich_model(r)
    if q[0] == "tc":
        return C.canon_tc_model(r)
    r = C.canon_model_res(r)
    if "ok" in r and q[0] in ("pvals", "stoichvar"):
        return {"ok": sorted(r["ok"])}
    return r


def canon_R(q, r):
    if "ok" in r and q[0] == "pvals":
        return {"ok": sorted(r["ok"])}
    return r


def evaluate(cases, use_driver=True):
    """-> list of (R, M, S) lists per case (M is None when the driver is unavailable)"""
    cs = max(1, min(64, len(cases) // 64))
    Rs_async = pool().map_async(_real_worker, cases, chunksize=cs)
    Ss_async = pool().map_async(_spec, cases, chunksize=cs)
    if use_driver:
        reqs, owner = [], []
        for i, c in enumerate(cases):
            reqs.append({"op": "core", "content": effective_content(c), "queries": c["queries"]})
            owner.append(i)
            if c.get("edit"):
                reqs.append({"op": "core", "content": edited_content(c), "queries": c["queries"]})
                owner.append(i)
        res = driver.call_batch(reqs)
        Ms = [[] for _ in cases]
        for i, r in zip(owner, res):
            Ms[i] = Ms[i] + r
    else:
        Ms = [None] * len(cases)
    # the Lean driver (one process) ran while the pool worked on the real code and the oracle
    Rs, Ss = Rs_async.get(), Ss_async.get()
    out = []
    for c, R, M, S in zip(cases, Rs, Ms, Ss):
        qs = c["queries"] * (2 if c.get("edit") else 1)
        R = [canon_R(q, r) for q, r in zip(qs, R)]
        M2 = None if M is None else [canon_M(q, r) for q, r in zip(qs, M)]
        out.append((R, M2, S))
    return out


def standard_queries(rng, content, n_states=2, flags=False):
    qs = [["init"], ["classes"], ["pvals"], ["args", None, "0"], ["rhs", None, "0"], ["fluxes", None, "0"]]
    for _ in range(n_states):
        st = C.gen_state(rng, content)
        t = str(rng.choice([0, 1, 2, "1/2"]))
        qs += [["args", st, t], ["fluxes", st, t], ["rhs", st, t], ["call", t, [v for _, v in st]], ["stoich", st, t]]
    touched = C.Spec(content).touched_vars()
    if touched:
        st = C.gen_state(rng, content)
        qs.append(["stoichvar", st, str(rng.choice([0, 1, 2, "1/2"])), rng.choice(touched)])
    times = rng.sample(["0", "1/2", "1", "2", "3"], rng.randint(1, 3))
    qs.append(["tc", [[t, C.gen_state(rng, content)] for t in sorted(times, key=lambda x: eval(x))]])
    if flags:
        # get_arg_names / get_args / get_args_time_course with the nine include_* flags (selection and order observable)
        ro = bool(content.get("readouts"))
        for _ in range(2):
            fl = C.gen_flags(rng)
            if ro and rng.random() < 0.6:
                fl[8] = True
            st = rng.choice([None, C.gen_state(rng, content)])
            qs += [["argnames", fl], ["argsf", st, str(rng.choice([0, 1, 2, "1/2"])), fl]]
        fl = C.gen_flags(rng)
        if ro:
            fl[8] = True
        qs.append(["argsftc", [[t, C.gen_state(rng, content)] for t in sorted(rng.sample(["0", "1", "2"], 2))], fl])
        # get_fluxes is get_args with its own flags
        qs.append(["argsf", None, "0", [False, False, False, False, False, True, False, True, False]])
    return qs


# --------------------------------------------------------------------------- shrinking


def well_posed(case) -> bool:
    """the queries still talk about the content: states name exactly the variables, a per-variable
    stoichiometry query names a variable some stoichiometry mentions (shrinking must not leave that domain)"""
    c0 = case["content"]
    for op, name, _ in case.get("pre_edit") or []:
        if op == "make_variable_static" and name not in [k for k, _ in c0.get("vars", [])]:
            return False
        if op == "make_parameter_dynamic" and name not in [k for k, _ in c0.get("pars", [])]:
            return False
    c = effective_content(case)
    vnames = [k for k, _ in c.get("vars", [])]
    touched = set(C.Spec(c).touched_vars())
    for q in case["queries"]:
        if q[0] in ("args", "argsf", "fluxes", "rhs", "stoich", "stoichvar") and q[1] is not None and [k for k, _ in q[1]] != vnames:
            return False
        if q[0] == "call" and len(q[2]) != len(vnames):
            return False
        if q[0] == "stoichvar" and q[3] not in touched:
            return False
        if q[0] in ("tc", "argsftc") and any([k for k, _ in st] != vnames for _, st in q[1]):
            return False
        if q[0] == "simupd" and any(k not in vnames for k, _ in q[1]):
            return False
    return True


def _fails(case):
    """R != S on this (single-query) case, judged on real code and oracle only"""
    if not well_posed(case):
        return False
    try:
        R = [canon_R(q, r) for q, r in zip(case["queries"], _real_worker(case))]
        S = _spec(case)
    except Exception:  # noqa: BLE001
        return False
    return any(s != "inexact" and C.canon(r) != C.canon(s) for r, s in zip(R, S))


def shrink_case(case, budget=400):
    """greedy delta-debugging over components / arguments / expressions while R != S persists"""
    import copy

    cur = copy.deepcopy(case)
    if not _fails(cur):
        return cur
    steps = 0
    changed = True
    while changed and steps < budget:
        changed = False
        c = cur["content"]
        for kind in ("surs", "rxns", "derived", "pars", "vars"):
            i = 0
            while i < len(c.get(kind, [])) and steps < budget:
                trial = copy.deepcopy(cur)
                del trial["content"][kind][i]
                steps += 1
                if _fails(trial):
                    cur = trial
                    c = cur["content"]
                    changed = True
                else:
                    i += 1
        # simplify function bodies to their first argument / a constant
        for kind in ("derived", "rxns"):
            for i, (_, f) in enumerate(c.get(kind, [])):
                for repl in (["a", 0], ["c", "1"]):
                    if f["e"] == repl or (repl[0] == "a" and not f["args"]):
                        continue
                    trial = copy.deepcopy(cur)
                    trial["content"][kind][i][1]["e"] = repl
                    steps += 1
                    if _fails(trial):
                        cur = trial
                        c = cur["content"]
                        changed = True
                        break
    return cur
