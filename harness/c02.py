"""C02 — dependency resolution is order-independent; bad graphs are rejected (DESIGN §6/C02).

Tie through the public API only: components are declared in a chosen order, then
get_initial_conditions / get_args are asked; outcome = values | exception class (+ the
names a MissingDependenciesError lists)."""
from __future__ import annotations

import itertools

from vlib import content as C

from . import corecommon as cc

PROPS = ["MxlVerif.Props.C02", "MxlVerif.Props.C01Tie"]
QUERIES = [["init"], ["args", None, "0"]]


def setup(ctx):
    ctx.build(PROPS)
    ctx.shrinker = cc.shrink_case
    ctx.rule = (
        "exhaustive: every dependency graph on <=3 components, each requiring any subset of {the 3 provided names, "
        "1 available parameter, 1 missing name} (32^3 graphs), in declaration orders (all 6 in thorough; quick: 1 per labelled "
        "graph cycling through all six + all 6 on every 16th graph), component kinds (derived / IA parameter / reaction / 2-output surrogate) "
        "assigned by a fixed hash of the graph index; sampled: chains, reverse chains (worst case n(n+1)/2 iterations) up "
        "to n=40, diamonds, k-cycles with tails, self-loops, missing names, mixed kinds; re-wiring through update_derived / "
        "update_reaction and data sets updated / removed through update_data / remove_data between two rounds of queries. distinct = distinct (graph, order); "
        "non-trivial = at least one dependency edge"
    )
    ctx.assumptions += ["exception messages are parsed only for the names a MissingDependenciesError lists"]


def sum_expr(n):
    e = ["c", "1"]
    for i in range(n):
        e = ["+", e, ["a", i]]
    return e


def mk_content(reqs, kinds, order):
    """reqs[i] = list of names required by component i (named c{i}); kinds[i] in d/q/r/s."""
    vars_ = [["x", {"v": "1"}]]
    pars = [["p", {"v": "2"}]]
    derived, rxns, surs = [], [], []
    for i in order:
        name = f"c{i}"
        fn = {"args": list(reqs[i]), "e": sum_expr(len(reqs[i]))}
        k = kinds[i]
        if k == "d":
            derived.append([name, fn])
        elif k == "q":
            pars.append([name, {"ia": fn}])
        elif k == "r":
            rxns.append([name, dict(fn, st=[["x", {"c": "1"}]])])
        else:  # surrogate providing c{i} and c{i}b
            surs.append([name + "_s", {"args": fn["args"], "outs": [name, name + "b"],
                                       "es": [fn["e"], ["c", "7"]], "st": []}])
    return {"vars": vars_, "pars": pars, "derived": derived, "rxns": rxns, "surs": surs}


def small_graphs(n=3):
    univ = [f"c{i}" for i in range(n)] + ["p", "zz"]
    subsets = [[u for j, u in enumerate(univ) if m >> j & 1] for m in range(1 << len(univ))]
    for idx, combo in enumerate(itertools.product(range(len(subsets)), repeat=n)):
        yield idx, [subsets[c] for c in combo]


def kinds_for(idx, n):
    if idx % 3 == 0:
        return ["d"] * n
    h = (idx * 2654435761) & 0xFFFFFFFF
    return ["dqrs"[(h >> (2 * i)) & 3] for i in range(n)]


def sampled(rng, n_cases):
    out = []
    for _ in range(n_cases):
        shape = rng.choice(["chain", "revchain", "diamond", "cycle_tail", "self", "missing", "random", "random"])
        n = rng.choice([2, 3, 5, 8, 13, 20, 40]) if shape in ("chain", "revchain") else rng.randint(3, 9)
        reqs = [[] for _ in range(n)]
        if shape in ("chain", "revchain"):
            for i in range(1, n):
                reqs[i] = [f"c{i-1}"]
            reqs[0] = ["p"]
        elif shape == "diamond":
            for i in range(1, n - 1):
                reqs[i] = ["c0"]
            reqs[n - 1] = [f"c{i}" for i in range(1, n - 1)] or ["c0"]
        elif shape == "cycle_tail":
            k = rng.randint(2, n)
            for i in range(k):
                reqs[i] = [f"c{(i+1) % k}"]
            for i in range(k, n):
                reqs[i] = [f"c{rng.randrange(i)}"]
        elif shape == "self":
            for i in range(1, n):
                reqs[i] = [f"c{rng.randrange(i)}"]
            j = rng.randrange(n)
            reqs[j] = reqs[j] + [f"c{j}"]
        elif shape == "missing":
            for i in range(1, n):
                reqs[i] = [f"c{rng.randrange(i)}"]
            for j in rng.sample(range(n), rng.randint(1, 2)):
                reqs[j] = reqs[j] + rng.sample(["zz", "yy", "p"], rng.randint(1, 2))
        else:
            for i in range(n):
                # the pool also holds the registered names of (potential) surrogates: those are
                # names of components, not of values, so requiring one is a missing dependency
                reqs[i] = rng.sample([f"c{j}" for j in range(n)] + ["p", "x", "time"]
                                     + [f"c{j}_s" for j in range(n)] + [f"c{j}b" for j in range(n)],
                                     rng.randint(0, 3))
        kinds = ["d"] * n if rng.random() < 0.4 else [rng.choice("dqrss") for _ in range(n)]
        order = list(range(n))
        if shape == "revchain":
            order.reverse()
        elif shape != "chain":
            rng.shuffle(order)
        out.append({"content": mk_content(reqs, kinds, order), "queries": QUERIES, "decl_seed": rng.randrange(1 << 30),
                    "shape": f"{shape}{n}"})
    return out


def rewired(rng, n_cases):
    """declare a graph, ask, then re-wire components through update_derived / update_reaction (new argument
    lists, including the empty list) and ask again: the answer must be the one of the re-wired graph"""
    out = []
    for _ in range(n_cases):
        n = rng.randint(2, 6)
        reqs = [rng.sample([f"c{j}" for j in range(n)] + ["p", "x", "zz"], rng.randint(0, 2)) for _ in range(n)]
        kinds = [rng.choice("dr") for _ in range(n)]
        order = list(range(n))
        rng.shuffle(order)
        content = mk_content(reqs, kinds, order)
        edits = []
        for i in rng.sample(range(n), rng.randint(1, min(3, n))):
            new = rng.sample([f"c{j}" for j in range(n) if j != i] + ["p", "x"], rng.choice([0, 0, 1, 2]))
            edits.append(["update_derived" if kinds[i] == "d" else "update_reaction", f"c{i}",
                          {"args": new, "e": sum_expr(len(new))}])
        out.append({"content": content, "queries": QUERIES, "decl_seed": rng.randrange(1 << 30), "edit": edits,
                    "shape": "rewired"})
    return out


def data_edits(rng, n_cases):
    """a graph in which components name a data set; ask, then update_data / remove_data through the API and ask
    again: after a removal whatever names the data set is missing, after an update the new value is used"""
    out = []
    for _ in range(n_cases):
        n = rng.randint(1, 5)
        reqs = [rng.sample([f"c{j}" for j in range(i)] + ["p", "x"], rng.randint(0, min(2, i + 2))) for i in range(n)]
        for i in rng.sample(range(n), rng.randint(1, min(2, n))):
            reqs[i] = reqs[i] + ["dat"]
        kinds = [rng.choice("dqrs") for _ in range(n)]
        order = list(range(n))
        rng.shuffle(order)
        content = mk_content(reqs, kinds, order)
        content["data"] = [["dat", "3"]]
        edits = [rng.choice([["remove_data", "dat", None], ["update_data", "dat", str(rng.choice([1, 5]))]])]
        out.append({"content": content, "queries": QUERIES, "decl_seed": rng.randrange(1 << 30), "edit": edits,
                    "shape": "data_" + edits[0][0]})
    return out


def _tally(ctx, q, r):
    """distribution of what the generator reaches: query kind x outcome class of the real code"""
    if isinstance(r, dict) and "err" in r:
        cls = r["err"][0]
    elif isinstance(r, dict) and "ok" in r:
        cls = "ok"
    else:
        cls = "parts"
    d = ctx.extra_cov.setdefault("reached_outcomes", {})
    key = f"{q[0]}:{cls}"
    d[key] = d.get(key, 0) + 1


def coef_missing(rng, n_cases):
    """F-C02-2 stratum: a reaction whose COMPUTED stoichiometric coefficient names something that does not exist.  The
    property asks for the missing-dependency error listing exactly those names and no numbers; the code checks only the
    dependency-sorted components, so get_initial_conditions / get_args return numbers (KeyError only on the right-hand side)"""
    out = []
    for _ in range(n_cases):
        n = rng.randint(1, 4)
        reqs = [rng.sample([f"c{j}" for j in range(i)] + ["p", "x"], rng.randint(0, min(2, i + 2))) for i in range(n)]
        kinds = [rng.choice("dr") for _ in range(n)]
        if "r" not in kinds:
            kinds[rng.randrange(n)] = "r"
        order = list(range(n))
        rng.shuffle(order)
        content = mk_content(reqs, kinds, order)
        name, r = rng.choice(content["rxns"])
        miss = rng.sample(["zz", "yy"], rng.randint(1, 2))
        args = miss + rng.sample(["p", "x"], rng.randint(0, 1))
        rng.shuffle(args)
        r["st"] = [["x", {"args": args, "e": sum_expr(len(args))}]]
        out.append({"content": content, "queries": QUERIES, "decl_seed": rng.randrange(1 << 30),
                    "shape": "coef_missing", "expect_missing": [[name, sorted(miss)]]})
    return out


def judge_case(ctx, case, R, M, S):
    if any(s == "inexact" for s in S):
        return
    if case.get("expect_missing"):
        # what the property demands (the order-free oracle `Spec` follows the code's scope of the check instead)
        want = {"err": ["MissingDependenciesError", case["expect_missing"]]}
        ctx.count({k: case[k] for k in ("content", "queries")}, "coef_missing", True)
        for i, q in enumerate(case["queries"]):
            _tally(ctx, q, R[i])
            sub = {"content": case["content"], "queries": [q], "decl_seed": case.get("decl_seed", 0),
                   "expect_missing": case["expect_missing"]}
            ctx.judge(sub, R[i], want, None if M is None else M[i], finding="F-C02-2", what=f"query {q[0]} (computed coefficient names a missing name)")
        return
    nontrivial = any(f["args"] for _, f in case["content"]["derived"]) or len(case["content"]["pars"]) > 1 \
        or any(r["args"] for _, r in case["content"]["rxns"]) or bool(case["content"]["surs"])
    ctx.count({k: case[k] for k in ("content", "queries")}, case.get("shape", ""), nontrivial)
    nq = len(case["queries"])
    for i in range(len(R)):
        q = case["queries"][i % nq]
        _tally(ctx, q, R[i])
        sub = {"content": case["content"], "queries": [q], "decl_seed": case.get("decl_seed", 0)}
        if i >= nq:
            sub["edit"] = case["edit"]
            Ri, Si, Mi = [R[i - nq], R[i]], [S[i - nq], S[i]], None if M is None else [M[i - nq], M[i]]
        else:
            Ri, Si, Mi = R[i], S[i], None if M is None else M[i]
        ctx.judge(sub, Ri, Si, Mi, what=f"query {q[0]}" + (" after re-wiring" if i >= nq else ""))


def run_batch(ctx, cases):
    for case, (R, M, S) in zip(cases, cc.evaluate(cases, ctx.driver_ok)):
        judge_case(ctx, case, R, M, S)


def run(ctx):
    setup(ctx)
    thorough = ctx.tier == "thorough" or not ctx.proof_ok
    perms = list(itertools.permutations(range(3)))
    batch = []
    for idx, reqs in small_graphs(3):
        kinds = kinds_for(idx, 3)
        if thorough or idx % 16 == 0:
            orders = perms
        else:
            # every labelled graph is enumerated, so one order per graph (cycling through all six) already meets
            # every (unlabelled graph, declaration order) pair
            orders = [perms[(idx + idx // 6) % 6]]
        for o in orders:
            batch.append({"content": mk_content(reqs, kinds, list(o)), "queries": QUERIES, "decl_seed": idx,
                          "shape": "exh3"})
        if len(batch) >= 4000:
            run_batch(ctx, batch)
            batch = []
            if len(ctx.violations) > 20:
                break
    if batch:
        run_batch(ctx, batch)
    if thorough:
        # all graphs on 4 components, each requiring at most 2 of {c0..c3, p, zz}, two orders each
        univ = [f"c{i}" for i in range(4)] + ["p", "zz"]
        choices = [[]] + [[u] for u in univ] + [list(c) for c in itertools.combinations(univ, 2)]
        perms4 = list(itertools.permutations(range(4)))
        batch = []
        for idx, combo in enumerate(itertools.product(choices, repeat=4)):
            kinds = kinds_for(idx, 4)
            for o in (perms4[idx % 24], perms4[(idx * 7 + 5) % 24]):
                batch.append({"content": mk_content(list(combo), kinds, list(o)), "queries": QUERIES,
                              "decl_seed": idx, "shape": "exh4"})
            if len(batch) >= 8000:
                run_batch(ctx, batch)
                batch = []
                if len(ctx.violations) > 20:
                    break
        if batch:
            run_batch(ctx, batch)
        ctx.extra_cov.setdefault("exhaustive_strata", []).append("all 22^4 graphs on 4 components with <=2 requirements each x 2 orders")
    ctx.exhaustive = False  # the sampled stratum below is not exhaustive
    ctx.extra_cov.setdefault("exhaustive_strata", []).insert(0, "all 32768 graphs on <=3 components" + (" x all 6 orders" if thorough else " x 1 order per labelled graph, cycling (all 6 on 1/16)"))
    run_batch(ctx, sampled(ctx.rng, ctx.n(1500, 40000)))
    run_batch(ctx, rewired(ctx.rng, ctx.n(600, 10000)))
    run_batch(ctx, data_edits(ctx.rng, ctx.n(400, 5000)))
    run_batch(ctx, coef_missing(ctx.rng, ctx.n(150, 2000)))
    if thorough:
        # long chains declared back to front / shuffled: the iteration budget must cover n(n+1)/2
        big = []
        for n in (60, 100, 150, 220):
            for mode in ("rev", "shuffle"):
                reqs = [["p"]] + [[f"c{i-1}"] for i in range(1, n)]
                order = list(range(n))
                if mode == "rev":
                    order.reverse()
                else:
                    ctx.rng.shuffle(order)
                big.append({"content": mk_content(reqs, ["d"] * n, order), "queries": [["init"]], "decl_seed": n,
                            "shape": f"bigchain{n}"})
        run_batch(ctx, big)


def replay(ctx, rp):
    case = rp["case"]
    case.setdefault("decl_seed", 0)
    (R, M, S), = cc.evaluate([case], ctx.driver_ok)
    print("R =", R, "\nM =", M, "\nS =", S)
    judge_case(ctx, case, R, M, S)
