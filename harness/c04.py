"""C04 — continued simulation: absolute increasing time axis, piecewise-exact states (DESIGN §6/C04).

R: the real `Simulator` on  x' = -k x + u,  z' = -k z + w  (closed form, sensitive to restart
   state and switching time) driven through its public methods / attributes.
M: Lean impl-faithful model (`Mxl.C04.run`, driver op "c04"), states as symbolic flow terms.
S: Lean absolute-time specification machine (`Mxl.C04.Spec.run`, same driver call).
Exact: per-op outcome (accepted / exception class), per-segment time index, per-segment
parameters, failed flag.  To 1e-6 relative: every state against the closed-form evaluation of
the term the machine prescribes.  (harness.c14 reuses the runner with protocol ops.)
"""
from __future__ import annotations

import itertools
import math
import multiprocessing as mp
import os
from fractions import Fraction

from vlib import driver
from vlib.content import num, rat_str

PROPS = ["MxlVerif.Props.C04"]
VARS = ["x", "z"]
INPUT = {"x": "u", "z": "w"}
Y0 = {"x": 4.0, "z": 1.0}
RTOL, ATOL = 1e-6, 1e-6  # |a-b| <= 1e-6 * (1 + max|a|,|b|): LSODA runs at rtol = atol = 1e-8 per step
STEP_SIZE = 100  # Scipy.integrate_to_steady_state's default step_size (python oracle only; the Lean side reads it from the source)


# ----------------------------------------------------------------------------- numbers
def F(s) -> Fraction:
    return Fraction(s)


def fs(x) -> str:
    return rat_str(Fraction(x))


# ----------------------------------------------------------------------------- real code
def _rate(k, x, u):
    return -k * x + u


def build_model(pars):
    from mxlpy import Model

    m = Model()
    m.add_parameters({k: float(F(v)) for k, v in pars})
    m.add_variables(dict(Y0))
    m.add_reaction("vx", _rate, args=["k", "x", "u"], stoichiometry={"x": 1})
    m.add_reaction("vz", _rate, args=["k", "z", "w"], stoichiometry={"z": 1})
    return m


def _snapshot(sim):
    """public attributes `variables` / `simulation_parameters` and `get_result()`"""
    res = sim.get_result()
    failed = False
    try:
        res.unwrap_or_err()
    except Exception as e:  # noqa: BLE001
        # `IntegrationFailure` with nothing recorded is also what a simulator that has not simulated yet answers; the two
        # are told apart by the (private) error list
        failed = type(e).__name__ != "IntegrationFailure" or bool(sim.variables) or bool(getattr(sim, "_errors", None))
    segs = None
    if sim.variables is not None:
        pl = sim.simulation_parameters or []
        segs = []
        for i, df in enumerate(sim.variables):
            p = pl[i] if i < len(pl) else {}
            segs.append({
                "idx": [float(t) for t in df.index],
                "pars": sorted([k, num(v)] for k, v in p.items()),
                "cols": list(df.columns),
                "vals": [[float(v) for v in row] for row in df.to_numpy()],
            })
        if not failed:
            # get_result() must expose the same frames
            r = res.unwrap_or_err()
            if len(r.raw_variables) != len(segs) or len(r.raw_parameters) != len(segs):
                segs.append({"idx": [], "pars": [["raw-length-mismatch", "1"]], "cols": [], "vals": []})
    return {"failed": failed, "segs": segs,
            "pars": sorted([k, num(v)] for k, v in sim.model.get_parameter_values().items())}


def real_run(case):
    """-> {"outs": [...], "snaps": [...], "ops": ops with the steady-state oracle filled in}"""
    import logging
    import warnings

    warnings.filterwarnings("ignore")
    logging.disable(logging.CRITICAL)
    import numpy as np
    from mxlpy import Simulator, make_protocol
    from mxlpy.integrators.int_scipy import Scipy

    import inspect

    log = []
    step_size = inspect.signature(Scipy.integrate_to_steady_state).parameters["step_size"].default

    class Recording(Scipy):
        """the steady-state solver's answer is an input of the model: the loop iteration k at which it stopped,
        read off the reported time  t0 + step_size * (k + 1)  (t0 = the integrator's clock before the call)"""

        def integrate_to_steady_state(self, **kw):
            t0 = float(self.t0)
            r = super().integrate_to_steady_state(**kw)
            v = r.value
            if hasattr(v, "time"):
                q = (Fraction(float(v.time[0])) - Fraction(t0)) / Fraction(step_size) - 1
                log.append(int(q) if q.denominator == 1 and q >= 0 else f"off-grid:{float(v.time[0])!r} from {t0!r}")
            else:
                log.append(None)
            return r

        def integrate_time_course(self, *, time_points):
            """ops "simF" / "tcF": the solver reports failure.  `solve_ivp` runs as usual (its argument validation
            included); `res.success` is turned off when it hands the result back, so the library's own failure branch
            (`Result(IntegrationFailure())`, no advance of t0 / y0) is what runs.  A zero-length span cannot fail."""
            idx = fail_plan[1]
            fail_plan[1] += 1
            if not (fail_next[0] or (fail_plan[0] is not None and idx == fail_plan[0])):
                return super().integrate_time_course(time_points=time_points)
            import mxlpy.integrators.int_scipy as mod

            real_spi = mod.spi

            class _Spi:
                def __getattr__(self, name):
                    if name != "solve_ivp":
                        return getattr(real_spi, name)

                    def solve_ivp(*a, **kw):
                        res = real_spi.solve_ivp(*a, **kw)
                        if len(res.t) > 0:
                            res.success = False
                            fail_next[1] += 1
                        return res

                    return solve_ivp

            mod.spi = _Spi()
            try:
                return super().integrate_time_course(time_points=time_points)
            finally:
                mod.spi = real_spi

    fail_next = [False, 0]
    fail_plan = [None, 0]  # ops "protoF" / "ptcF": the solver call (= protocol step) of this op that fails; calls so far
    # constructor options (public parameters): explicit y0, use_jacobian, test_run, integrator keyword arguments
    ctor = case.get("ctor") or {}
    integ = Recording
    if ctor.get("kw"):
        import functools

        integ = functools.partial(Recording, **ctor["kw"])
    kwargs = {}
    if case.get("y0"):
        kwargs["y0"] = {k: float(F(v)) for k, v in case["y0"]}
    if ctor.get("jac"):
        kwargs["use_jacobian"] = True
    if ctor.get("test_run") is False:
        kwargs["test_run"] = False
    sim = Simulator(build_model(case["pars"]), integrator=integ, **kwargs)
    outs, snaps, ops = [], [], []
    for op in case["ops"]:
        kind = op[0]
        n0 = len(log)
        op2 = list(op)
        try:
            touched = None
            fail_next[0] = kind in ("simF", "tcF")
            fail_plan[0], fail_plan[1] = (op[-1] if kind in ("protoF", "ptcF") else None), 0
            if kind in ("sim", "simF"):
                sim.simulate(float(F(op[1])), steps=op[2])
            elif kind == "scale":
                if len(op[1]) == 1:
                    sim.scale_parameter(op[1][0][0], float(F(op[1][0][1])))
                else:
                    sim.scale_parameters({k: float(F(v)) for k, v in op[1]})
            elif kind in ("tc", "tcF"):
                vals = [F(t) for t in op[1]]
                if vals and all(v.denominator == 1 for v in vals) and int(sum(vals)) % 2 == 1:
                    # callers also pass integer-typed grids (lists of ints / integer arrays)
                    arr = np.array([int(v) for v in vals], dtype=int) if len(vals) % 2 else [int(v) for v in vals]
                else:
                    arr = np.array([float(v) for v in vals], dtype=float)
                keep = np.array(arr).copy()
                sim.simulate_time_course(arr)
                if not np.array_equal(np.array(arr), keep):
                    touched = "caller's time-point array was modified"
            elif kind == "steady":
                sim.simulate_to_steady_state()
            elif kind == "par":
                if len(op[1]) == 1:
                    sim.update_parameter(op[1][0][0], float(F(op[1][0][1])))
                else:
                    sim.update_parameters({k: float(F(v)) for k, v in op[1]})
            elif kind == "var":
                if len(op[1]) == 1:
                    sim.update_variable(op[1][0][0], float(F(op[1][0][1])))
                else:
                    sim.update_variables({k: float(F(v)) for k, v in op[1]})
            elif kind == "clear":
                snaps.append(_snapshot(sim))
                sim.clear_results()
            elif kind in ("proto", "protoF"):
                prot = make_protocol([(float(F(d)), {k: float(F(v)) for k, v in kv}) for d, kv in op[1]])
                if op[2] is None:
                    sim.simulate_protocol(prot)
                else:
                    sim.simulate_protocol(prot, time_points_per_step=op[2])
            elif kind in ("ptc", "ptcF"):
                prot = make_protocol([(float(F(d)), {k: float(F(v)) for k, v in kv}) for d, kv in op[1]])
                arr = np.array([float(F(t)) for t in op[2]], dtype=float)
                keep, keep_prot = arr.copy(), prot.copy(deep=True)
                sim.simulate_protocol_time_course(prot, arr, time_points_as_relative=bool(op[3]))
                # the caller's arguments are not the library's to change (a reused grid would then be wrong)
                if not np.array_equal(arr, keep):
                    touched = "caller's time-point array was modified"
                elif not prot.equals(keep_prot):
                    touched = "caller's protocol table was modified"
            else:
                raise AssertionError(kind)
            outs.append(None if touched is None else "input-modified: " + touched)
        except (ValueError, IndexError, KeyError, TypeError) as e:
            outs.append(type(e).__name__)
        except Exception as e:  # noqa: BLE001
            outs.append("other:" + type(e).__name__)
        fail_next[0] = False
        fail_plan[0] = None
        if kind == "steady":
            got = log[n0:]
            k = got[0] if got else None
            if isinstance(k, str):
                # the reported time is not  integrator clock + a positive multiple of step_size
                outs[-1] = "steady-state time " + k
                k = None
            op2 = ["steady", k]
        ops.append(op2)
    snaps.append(_snapshot(sim))
    out = {"outs": outs, "snaps": snaps, "ops": ops}
    if case.get("fluxes"):
        out["fluxes"] = _flux_check(sim)
    return out


def _flux_check(sim):
    """C14: fluxes reported inside a segment use that segment's parameter values.  Done last: computing
    the fluxes writes the segments' parameters back into the model."""
    try:
        r = sim.get_result().unwrap_or_err()
    except Exception:  # noqa: BLE001
        return "segment-pars"
    try:
        fl = r.fluxes
        rows = [(p, float(x), float(z)) for df, p in zip(r.raw_variables, r.raw_parameters)
                for x, z in zip(df["x"], df["z"])]
        if len(rows) != len(fl):
            return f"fluxes have {len(fl)} rows for {len(rows)} states"
        for i, ((p, x, z), vx, vz) in enumerate(zip(rows, fl["vx"], fl["vz"])):
            if float(vx) != _rate(p["k"], x, p["u"]) or float(vz) != _rate(p["k"], z, p["w"]):
                return f"row {i}: fluxes {float(vx)!r}, {float(vz)!r} are not the rate laws under the segment's parameters {p}"
    except Exception as e:  # noqa: BLE001
        return "fluxes raise " + type(e).__name__
    return "segment-pars"


_pool = None


def pool():
    global _pool
    if _pool is None:
        import mxlpy  # noqa: F401  imported before the fork so that workers do not pay for it

        _pool = mp.get_context("fork").Pool(min(16, os.cpu_count() or 4))
    return _pool


# ----------------------------------------------------------------------------- closed form
def closed_flow(p, y, dt):
    """exact solution of v' = -k v + input_v after dt"""
    out = {}
    for v in VARS:
        k, inp = p["k"], p[INPUT[v]]
        if k == 0:
            out[v] = y[v] + inp * dt
        else:
            try:
                out[v] = inp / k + (y[v] - inp / k) * math.exp(-k * dt)
            except OverflowError:
                out[v] = math.inf
    return out


def eval_term(t, memo):
    """value (dict var -> float) of a symbolic state term: ["i"] | ["f", pars, dt, y] | ["o", kvs, y]"""
    key = id(t)
    if key in memo:
        return memo[key]
    if t[0] == "i":
        out = dict(memo.get("y0") or Y0)
    elif t[0] == "o":
        out = dict(eval_term(t[2], memo))
        for k, v in t[1]:
            if k in out:
                out[k] = float(F(v))
    else:
        out = closed_flow({k: float(F(v)) for k, v in t[1]}, eval_term(t[3], memo), float(F(t[2])))
    memo[key] = out
    return out


def close(a, b):
    if a == b:
        return True
    if math.isinf(a) or math.isinf(b) or math.isnan(a) or math.isnan(b):
        return False
    return abs(a - b) <= ATOL + RTOL * max(abs(a), abs(b))


def model_snap(js, y0=None):
    """driver snapshot -> (exact part, evaluated states); y0 = the initial state given to the constructor"""
    if js["segs"] is None:
        return {"failed": js["failed"], "pars": sorted(js["pars"]), "segs": None}, None
    memo = {"y0": {k: float(F(v)) for k, v in y0} if y0 else None}
    segs, vals = [], []
    for s in js["segs"]:
        segs.append({"idx": [r[0] for r in s["rows"]], "pars": sorted(s["pars"])})
        vals.append([[eval_term(r[1], memo)[v] for v in VARS] for r in s["rows"]])
    return {"failed": js["failed"], "pars": sorted(js["pars"]), "segs": segs}, vals


def real_snap(rs, inexact, refs):
    """real snapshot -> exact part (+ states snapped to the first reference they match)"""
    if rs["segs"] is None:
        return {"failed": rs["failed"], "pars": rs["pars"], "segs": None}
    segs = []
    for i, s in enumerate(rs["segs"]):
        idx = [fs(t) for t in s["idx"]]
        if inexact:  # default step counts (99 / 10 subdivisions): the grid itself is rounded
            for ref_exact, _ in refs:
                if ref_exact["segs"] is not None and i < len(ref_exact["segs"]):
                    ri = ref_exact["segs"][i]["idx"]
                    if len(ri) == len(idx) and all(close(float(F(a)), b) and abs(float(F(a)) - b) <= 1e-9 * max(1.0, abs(b))
                                                   for a, b in zip(ri, s["idx"])):
                        idx = ri
                        break
        segs.append({"idx": idx, "pars": s["pars"], "_cols": s["cols"], "_vals": s["vals"]})
    return {"failed": rs["failed"], "pars": rs["pars"], "segs": segs}


def states_view(exact, vals):
    """attach states to an exact snapshot as strings"""
    if exact["segs"] is None:
        return exact
    out = dict(exact)
    out["segs"] = [dict(s, states=[[repr(round(x, 12)) for x in row] for row in v]) for s, v in zip(exact["segs"], vals)]
    return out


def reconcile(R, refs):
    """Replace every real state by the reference value it agrees with to tolerance (first
    reference = spec, second = model), so that equality of the canonical objects means
    'same exact part and states within tolerance'."""
    if R["segs"] is None:
        return R
    out = dict(R)
    segs = []
    for i, s in enumerate(R["segs"]):
        cols, vals = s["_cols"], s["_vals"]
        order = [cols.index(v) if v in cols else None for v in VARS]
        rows = []
        for j, row in enumerate(vals):
            vec = [row[o] if o is not None else math.nan for o in order]
            pick = vec
            for ref_exact, ref_vals in refs:
                if ref_vals is None or i >= len(ref_vals) or j >= len(ref_vals[i]):
                    continue
                if all(close(a, b) for a, b in zip(vec, ref_vals[i][j])):
                    pick = ref_vals[i][j]
                    break
            rows.append([repr(round(x, 12)) for x in pick])
        segs.append({"idx": s["idx"], "pars": s["pars"], "states": rows})
    out["segs"] = segs
    return out


def _dyadic_steps(n):
    return n is not None and (n == 0 or (n & (n - 1)) == 0)


def is_inexact(case):
    """default / non-power-of-two step counts: np.linspace's grid is rounded, compare the index to 1e-9"""
    return any(op[0] in ("sim", "proto", "protoF") and not _dyadic_steps(op[2]) for op in case["ops"])


def assemble(case, real, drv):
    """-> (R, M, S, okhist) canonical observation objects"""
    inexact = is_inexact(case)
    S_parts = [model_snap(s, case.get("y0")) for s in drv["spec"]["snaps"]]
    M_parts = [model_snap(s, case.get("y0")) for s in drv["impl"]["snaps"]]
    # the model's states are snapped to the spec's when they agree to tolerance (different
    # but equivalent flow compositions evaluate to slightly different doubles)
    M_snaps = []
    for (me, mv), (se, sv) in zip(M_parts, S_parts):
        if mv is not None and sv is not None:
            mv = [[(sv[i][j] if i < len(sv) and j < len(sv[i]) and all(close(a, b) for a, b in zip(row, sv[i][j])) else row)
                   for j, row in enumerate(seg)] for i, seg in enumerate(mv)]
        M_snaps.append(states_view(me, mv) if mv is not None else me)
    S_snaps = [states_view(se, sv) if sv is not None else se for se, sv in S_parts]
    R_snaps = []
    for k, rs in enumerate(real["snaps"]):
        refs = []
        if k < len(S_parts):
            refs.append(S_parts[k])
        if k < len(M_parts):
            refs.append(M_parts[k])
        R_snaps.append(reconcile(real_snap(rs, inexact, refs), refs))
    R = {"outs": real["outs"], "snaps": R_snaps}
    M = {"outs": drv["impl"]["outs"], "snaps": M_snaps}
    S = {"outs": drv["spec"]["outs"], "snaps": S_snaps}
    if "fluxes" in real:
        R["fluxes"], M["fluxes"], S["fluxes"] = real["fluxes"], "segment-pars", "segment-pars"
    return R, M, S, drv["okhist"]


def evaluate(cases, use_driver=True, op="c04", parallel=True):
    reals = pool().map(real_run, cases, chunksize=16) if parallel and len(cases) > 1 else [real_run(c) for c in cases]
    if not use_driver:
        return [(r, None) for r in reals]
    drvs = driver.call_batch([{"op": op, "pars": c["pars"], "ops": r["ops"]} for c, r in zip(cases, reals)])
    return list(zip(reals, drvs))


# ----------------------------------------------------------------------------- python oracle (search only)
def py_oracle(case, real):
    """Independent, declarative restatement on R alone (used when the Lean side is unavailable or
    broken): absolute clock, closed form integrated directly.  Returns a list of complaints."""
    bad = []
    p = {k: F(v) for k, v in case["pars"]}
    init = {k: float(F(v)) for k, v in case["y0"]} if case.get("y0") else dict(Y0)
    now, cur, y0 = F(0), dict(init), dict(init)
    have = False
    failed = False
    snaps = iter(real["snaps"])
    expected = []  # list of (time, state) of the current result

    def check(snap):
        if bool(snap["failed"]) != failed:
            bad.append(f"failed flag {snap['failed']}, expected {failed}")
        if snap["segs"] is None:
            if expected:
                bad.append("results missing")
            return
        idx = [t for s in snap["segs"] for t in s["idx"]]
        if any(b <= a for a, b in zip(idx, idx[1:])):
            bad.append(f"time axis not strictly increasing: {idx}")
        vals = [v for s in snap["segs"] for v in s["vals"]]
        got = {t: v for t, v in zip(idx, vals)}
        for t, y in expected:
            if float(t) not in got:
                bad.append(f"requested point {t} missing")
            elif not all(close(a, y[v]) for a, v in zip(got[float(t)], VARS)):
                bad.append(f"state at {t} is {got[float(t)]}, expected {y}")

    for op, out in zip(real["ops"], real["outs"]):
        kind = op[0]
        if kind == "par":
            if all(k in p for k, _ in op[1]):
                for k, v in op[1]:
                    p[k] = F(v)
        elif kind == "scale":
            if all(k in p for k, _ in op[1]):
                new = {k: p[k] * F(v) for k, v in op[1]}
                p.update(new)
        elif kind == "var":
            cur = dict(cur)
            for k, v in op[1]:
                if k in cur:
                    cur[k] = float(F(v))
            y0 = dict(cur)
        elif kind == "clear":
            check(next(snaps))
            now, cur, have, failed, expected = F(0), dict(y0), False, False, []
        elif failed:
            if out is not None:
                bad.append(f"{kind} on a failed simulator: outcome {out}")
            continue
        elif kind in ("sim", "simF"):
            t = F(op[1])
            refuse = t <= now
            if refuse != (out == "ValueError") and (op[2] is None or op[2] >= 1):
                bad.append(f"simulate({t}) at {now}: outcome {out}")
            if out is None and kind == "simF":
                failed = True  # the solver failed: nothing recorded, the simulator is failed
            elif out is None:
                if not have:
                    expected.append((now, dict(cur)))
                cur2 = _flow(p, cur, t - now)
                expected.append((t, cur2))
                now, cur, have = t, cur2, True
        elif kind in ("tc", "tcF"):
            pts = [F(t) for t in op[1]]
            if not pts:
                continue
            refuse = pts[-1] <= now
            kept = [t for t in pts if t >= now]
            srt = all(a < b for a, b in zip(kept, kept[1:]))
            if srt and refuse != (out == "ValueError"):
                bad.append(f"time course {pts} at {now}: outcome {out}")
            if out is None and kind == "tcF":
                failed = True
            elif out is None:
                if not have:
                    expected.append((now, dict(cur)))
                for t in kept:
                    if t > now:
                        expected.append((t, _flow(p, cur, t - now)))
                cur = _flow(p, cur, pts[-1] - now)
                now, have = pts[-1], True
        elif kind == "steady":
            if op[1] is None:
                failed = True
            else:
                d = F(STEP_SIZE * (op[1] + 1))
                cur = _flow(p, cur, d)
                now, have = now + d, True
                expected.append((now, dict(cur)))
    check(next(snaps))
    return bad


def _flow(p, y, dt):
    return closed_flow({k: float(v) for k, v in p.items()}, y, float(dt))


# ----------------------------------------------------------------------------- generator
GRID = [Fraction(i, 4) for i in range(0, 33)]
PARS0 = [["k", "1/2"], ["u", "1"], ["w", "2"]]


def _q(x):
    return rat_str(Fraction(x))


ALPHABET_TIMES = ["0", "1", "3/2", "2", "4"]


def alphabet():
    """small op alphabet for the exhaustive stratum (5-value time alphabet)"""
    ops = [["sim", t, 2] for t in ALPHABET_TIMES]
    ops += [["tc", ["1", "2"]], ["tc", ["3/2", "4"]], ["tc", ["0", "3/2", "2"]], ["tc", ["2", "1", "4"]],
            ["tc", ["4", "4"]], ["tc", ["1"]]]
    ops += [["steady", "?"], ["par", [["k", "2"]]], ["par", [["u", "0"], ["k", "1"]]],
            ["var", [["x", "1"]]], ["var", [["z", "3"]]], ["clear"]]
    # round 4: a solver failure inside simulate / simulate_time_course, and scale_parameter(s)
    ops += [["simF", "2", 2], ["tcF", ["1", "2"]], ["scale", [["k", "2"]]]]
    return ops


def small_alphabet():
    return [["sim", "1", 2], ["sim", "2", 2], ["tc", ["1", "2"]], ["tc", ["3/2", "4"]], ["steady", "?"],
            ["par", [["k", "2"]]], ["var", [["x", "1"]]], ["var", [["z", "3"]]], ["clear"]]


def exhaustive_cases(max_len, alpha=None):
    alpha = alpha or alphabet()
    for n in range(1, max_len + 1):
        for ops in itertools.product(alpha, repeat=n):
            yield {"pars": PARS0, "ops": [list(o) for o in ops]}


def gen_random(rng, allow_steady=True, min_len=3, max_len=8):
    pars = [["k", rng.choice(["0", "1/2", "1", "2", "1/4"])], ["u", rng.choice(["0", "1", "2", "-1"])],
            ["w", rng.choice(["0", "1", "3"])]]
    n = rng.randint(min_len, max_len)
    now = Fraction(0)
    ops = []
    for _ in range(n):
        r = rng.random()
        if r < 0.30:
            if rng.random() < 0.8:
                t = now + Fraction(rng.randint(1, 12), 4)
            else:
                t = rng.choice(GRID[:17]) if rng.random() < 0.7 else now
            steps = rng.choice([1, 2, 2, 4, 4, 8, 3, 5]) if rng.random() < 0.9 else rng.choice([None, 0])
            fails = rng.random() < 0.05
            ops.append(["simF" if fails else "sim", _q(t), steps])
            if t > now and steps != 0 and not fails:
                now = t
        elif r < 0.55:
            k = rng.randint(1, 5)
            style = rng.random()
            lo = now if style < 0.7 else max(Fraction(0), now - 2)
            pts = sorted({lo + Fraction(rng.randint(0, 14), 4) for _ in range(k)})
            if now > 0 and rng.random() < 0.15:
                # a requested point just after the time reached (2^-20 later): still a distinct, later point
                pts = sorted(set(pts) | {now + Fraction(1, 2 ** 20)})
            if style > 0.9:
                rng.shuffle(pts)
            elif style > 0.85 and pts:
                pts.append(pts[rng.randrange(len(pts))])
            elif style > 0.82:
                pts = []
            fails = rng.random() < 0.05
            ops.append(["tcF" if fails else "tc", [_q(t) for t in pts]])
            kept = [t for t in pts if t >= now]
            if pts and pts[-1] > now and all(a < b for a, b in zip(kept, kept[1:])) and not fails:
                now = pts[-1]
        elif r < 0.65 and allow_steady:
            ops.append(["steady", "?"])
        elif r < 0.78:
            kv = [[rng.choice(["k", "u", "w"]), rng.choice(["0", "1/2", "1", "2", "3"])] for _ in range(rng.randint(1, 2))]
            if rng.random() < 0.05:
                kv.append(["nope", "1"])
            if rng.random() < 0.3:
                # scale_parameter(s): factors (a dict: distinct names), every product exact in doubles
                seen = {}
                for k, _ in kv:
                    seen[k] = rng.choice(["2", "1/2", "1", "0", "3/2", "1/4"])
                ops.append(["scale", [[k, f] for k, f in seen.items()]])
            else:
                ops.append(["par", kv])
        elif r < 0.93:
            names = rng.sample(VARS, rng.randint(1, 2))
            # also overrides that restate a value the variable had before (its initial value, an earlier override)
            kv = [[v, rng.choice(["0", "1", "5/2", "8", "4", "1"])] for v in names]
            if rng.random() < 0.05:
                kv.append(["ghost", "1"])
            ops.append(["var", kv])
        else:
            ops.append(["clear"])
            now = Fraction(0)
    case = {"pars": pars, "ops": ops}
    if rng.random() < 0.2:
        # constructor options: the results must not depend on them
        if rng.random() < 0.6:
            case["y0"] = [["x", rng.choice(["0", "1", "4", "6"])], ["z", rng.choice(["0", "1", "5/2"])]]
        ctor = {}
        r = rng.random()
        if r < 0.3:
            ctor["jac"] = True
        elif r < 0.5:
            ctor["test_run"] = False
        elif r < 0.8:
            ctor["kw"] = {"atol": 1e-10, "rtol": 1e-10}
        elif not any(o[0] == "steady" for o in ops):
            ctor["kw"] = {"method": "RK45", "atol": 1e-10, "rtol": 1e-10}
        if ctor:
            case["ctor"] = ctor
    return case


def shape_of(case):
    ab = {"sim": "S", "tc": "T", "steady": "Y", "par": "P", "var": "V", "clear": "C", "proto": "R", "ptc": "Q",
          "simF": "s", "tcF": "t", "scale": "X", "protoF": "r", "ptcF": "q"}
    pre = ""
    if case.get("y0"):
        pre += "y0="
    ctor = case.get("ctor") or {}
    if ctor:
        pre += ("jac" if ctor.get("jac") else "notest" if ctor.get("test_run") is False
                else "method" if "method" in ctor.get("kw", {}) else "tol") + ":"
    return pre + "".join(ab[o[0]] for o in case["ops"])


def nontrivial(real):
    return sum(1 for s in real["snaps"] if s["segs"] for _ in s["segs"]) >= 2


# ----------------------------------------------------------------------------- verdicts
def judge_one(ctx, case, real, drv, record=True):
    """one history -> 'ok' | 'finding' | 'violation'"""
    if drv is None:
        bad = py_oracle(case, real)
        if bad:
            ctx.violation(case, bad[:3], "python oracle (Lean side unavailable)")
            return "violation"
        return "ok"
    R, M, S, _ = assemble(case, real, drv)
    return ctx.judge(case, R, S, M, finding=None, what="history outcome / index / parameters / states")


def shrink(ctx, case, op="c04"):
    """ddmin over ops: keep removing single ops while the history still is a violation"""

    def is_violation(c):
        (real, drv), = evaluate([c], ctx.driver_ok, op=op, parallel=False)
        if drv is None:
            return bool(py_oracle(c, real))
        R, M, S, _ = assemble(c, real, drv)
        from vlib.framework import canon

        return canon(R) != canon(S)

    cur = case
    changed = True
    while changed and len(cur["ops"]) > 1:
        changed = False
        for i in range(len(cur["ops"])):
            cand = dict(cur, ops=cur["ops"][:i] + cur["ops"][i + 1:])
            try:
                if is_violation(cand):
                    cur, changed = cand, True
                    break
            except Exception:  # noqa: BLE001
                continue
    return cur


def process(ctx, cases, op="c04", shape=shape_of):
    for case, (real, drv) in zip(cases, evaluate(cases, ctx.driver_ok, op=op)):
        ctx.count(case, shape(case), nontrivial(real))
        before = len(ctx.violations)
        v = judge_one(ctx, case, real, drv)
        if v == "violation" and len(ctx.violations) <= 3:
            small = shrink(ctx, case, op=op)
            if len(small["ops"]) < len(case["ops"]):
                del ctx.violations[before:]
                (real2, drv2), = evaluate([small], ctx.driver_ok, op=op, parallel=False)
                judge_one(ctx, small, real2, drv2)


# ----------------------------------------------------------------------------- entry points
def setup(ctx):
    from translate import c04 as tr

    ctx.translate(tr.generate)
    ctx.build(PROPS)
    ctx.rule = (
        "op histories over simulate / simulate_time_course (also with a solver that reports failure: s / t in the shapes) / "
        "simulate_to_steady_state / update_parameter(s) / scale_parameter(s) / update_variable(s) / clear_results on x'=-kx+u, z'=-kz+w with times on a dyadic grid; exhaustive over all "
        "histories of length <= 3 on a 20-op alphabet with a 5-value time alphabet (thorough: also length 4 on 9 ops), "
        "random for lengths 3..8; distinct = distinct (parameters, history); non-trivial = at least two recorded segments"
    )
    ctx.assumptions += [
        "the ODE solver is a parameter of the model (exact flow); scipy's accuracy and its t_eval handling are "
        "exercised by the tie at 1e-6 relative, not proved",
        "the iteration at which the steady-state solver's loop stops is an input of the model (read from the real run: "
        "reported time = integrator clock + step_size * (k + 1), checked)",
        "float rounding of time arithmetic is not modelled: times are dyadic, step counts powers of two (other step "
        "counts: index compared to 1e-9)",
    ]
    ctx.trusted_base += ["scipy.integrate.solve_ivp / ode (LSODA), numpy.linspace, pandas DataFrame/Index (modelled, tied by test)",
                         "translate/c04.py (comparison operators, skipfirst flags, statement orders, defaults of simulator.py / "
                         "int_scipy.py -> Generated/C04Facts.lean)"]


def run(ctx):
    setup(ctx)
    thorough = ctx.tier == "thorough"
    # 1. exhaustive stratum
    ex = list(exhaustive_cases(3))
    if thorough:  # all length-4 histories over a reduced alphabet
        ex += [c for c in exhaustive_cases(4, alpha=small_alphabet()) if len(c["ops"]) == 4]
    # 1a. rejected calls in the middle of a history (round 4b): an unknown parameter name next to a known one in
    #     update_parameters / scale_parameters (all-or-nothing KeyError), a variable override naming an unknown variable
    #     (silently ignored by the library), a refused / empty / unsorted continuation — every a; X; b over the 9-op alphabet
    rejected = [["par", [["k", "2"], ["nope", "1"]]], ["scale", [["u", "2"], ["nope", "2"]]], ["par", [["nope", "1"]]],
                ["var", [["ghost", "1"]]], ["var", [["x", "1"], ["ghost", "2"]]], ["tc", []], ["tc", ["4", "3"]], ["sim", "0", 2],
                ["sim", "3", 0]]
    sa = small_alphabet()
    ex += [{"pars": PARS0, "ops": [list(a), list(x), list(b)]} for x in rejected for a in sa for b in sa]
    ctx.exhaustive = True
    for i in range(0, len(ex), 800):
        process(ctx, ex[i:i + 800])
        if len(ctx.violations) > 10:
            return
    # 1b. oracle-only: simulate_time_course with requested points that are not dyadic, exact labels
    from . import c04grid

    c04grid.run(ctx, ctx.n(300, 4000), protocols=False)
    # 2. random longer histories
    n = ctx.n(1500, 60000) * (1 if ctx.proof_ok or thorough else 4)
    done = 0
    while done < n and len(ctx.violations) <= 10:
        cases = [gen_random(ctx.rng) for _ in range(min(400, n - done))]
        process(ctx, cases)
        done += len(cases)
    # 3. histories with protocol calls ("simulate, time-course and protocol calls" in the property text): C14's generator and
    #    judge through driver op "c14" (same machines + the protocol ops), incl. the R-only checks that the caller's
    #    time-point array / protocol table are left untouched
    if len(ctx.violations) <= 10:
        from . import c14

        c14.process(ctx, [c14.gen_case(ctx.rng) for _ in range(ctx.n(300, 3000) * (1 if ctx.proof_ok or thorough else 4))])
    if (not ctx.proof_ok or ctx.drift) and not ctx.violations:
        ctx.notes.append("proof/correspondence broken: exhaustive length-3 stratum and the random stratum above were the failing-input search")


def replay(ctx, rp):
    case = rp.get("case") or rp
    if case.get("grid"):
        from . import c04grid

        return c04grid.replay(ctx, case)
    if any(o[0] in ("proto", "ptc", "protoF", "ptcF") for o in case["ops"]):
        from . import c14

        return c14.replay(ctx, rp)
    (real, drv), = evaluate([case], ctx.driver_ok, parallel=False)
    if drv is not None:
        R, M, S, okhist = assemble(case, real, drv)
        print("ops (oracle filled) =", real["ops"])
        print("R =", R, "\nM =", M, "\nS =", S, "\nokhist =", okhist)
    print("python oracle:", py_oracle(case, real))
    ctx.count(case, shape_of(case))
    judge_one(ctx, case, real, drv)
