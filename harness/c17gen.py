"""C17 — the naming / glue stage of the import (`_codegen` of sbml/_import.py and
`generate_mxlpy_code_from_symbolic_repr` of meta/codegen_mxlpy.py) against its Lean model
(Model/C17Codegen.lean: `importSym`, `genModule`).

Observable (public level): the generated module's *source text*, parsed with `ast` to
  {"functions": [[name, expr, [params]]..],                 top-level defs in order
   "calls": [["add_variable", key, value] ..]}              the chain in create_model
which is the wire format of the driver's answer to {"op":"c17","symrepr":…} / {"op":"c17","pmodel":…}.

  R  the real generator (stream `codegen`: on generated SymbolicReprs; stream `import glue`: the module that
     `sbml.read` wrote for a generated document, with pysbml's transformed model as the input of the model)
  M  `genModule` / `genModule ∘ importSym` through the driver
  S  name-free reading of the representation (`spec_calls`): every reference looked up among the module's
     definitions must yield the (expression, parameters) of that very component
"""
from __future__ import annotations

import ast

from vlib import driver

# ---------------------------------------------------------------------------------------------- parsing a module


class Unparsable(Exception):
    pass


def _const(n):
    if isinstance(n, ast.Constant):
        return n.value
    raise Unparsable(ast.dump(n)[:80])


def _strs(n):
    if not isinstance(n, ast.List):
        raise Unparsable("args is not a list literal")
    return [_const(e) for e in n.elts]


def _kw(call):
    return {k.arg: k.value for k in call.keywords}


def _ref(call, ctor):
    """InitialAssignment(fn=<name>, args=[…]) / Derived(fn=<name>, args=[…])"""
    if not (isinstance(call, ast.Call) and isinstance(call.func, ast.Name) and call.func.id == ctor):
        raise Unparsable(f"expected {ctor}(…)")
    kw = _kw(call)
    if not isinstance(kw.get("fn"), ast.Name):
        raise Unparsable("fn= is not a name")
    return kw["fn"].id, _strs(kw["args"])


def parse_module(src: str, expr_of) -> dict:
    """`expr_of(ast node) -> id` names an expression / number by what is written"""
    tree = ast.parse(src)
    functions, calls = [], None
    for node in tree.body:
        if not isinstance(node, ast.FunctionDef):
            continue
        if node.name == "create_model":
            ret = node.body[0]
            if not isinstance(ret, ast.Return):
                raise Unparsable("create_model does not return")
            calls = _chain(ret.value, expr_of)
            continue
        if len(node.body) != 1 or not isinstance(node.body[0], ast.Return):
            raise Unparsable(f"def {node.name}: body is not one return")
        functions.append([node.name, expr_of(node.body[0].value), [a.arg for a in node.args.args]])
    if calls is None:
        raise Unparsable("no create_model")
    return {"functions": functions, "calls": calls}


def _chain(node, expr_of):
    out = []
    while True:
        if isinstance(node, ast.Call) and isinstance(node.func, ast.Name) and node.func.id == "Model":
            break
        if not (isinstance(node, ast.Call) and isinstance(node.func, ast.Attribute)):
            raise Unparsable("create_model is not a chain of calls on Model()")
        out.append(_call(node, expr_of))
        node = node.func.value
    return out[::-1]


def _call(node, expr_of):
    m = node.func.attr
    kw = _kw(node)
    key = _const(node.args[0])
    if m in ("add_variable", "add_parameter"):
        names = [k for k in kw if k != "unit"]
        if len(node.args) != 1 or len(names) != 1:
            raise Unparsable(f"{m}: unexpected arguments")
        v = kw[names[0]]
        if isinstance(v, ast.Call) and isinstance(v.func, ast.Name) and v.func.id == "InitialAssignment":
            fn, args = _ref(v, "InitialAssignment")
            return [m, key, ["ia", fn, args]]
        return [m, key, ["num", expr_of(v), names[0], "unit" in kw]]
    if m == "add_derived":
        if not isinstance(kw.get("fn"), ast.Name):
            raise Unparsable("add_derived: fn= is not a name")
        return [m, key, kw["fn"].id, _strs(kw["args"])]
    if m == "add_reaction":
        if not isinstance(kw.get("fn"), ast.Name) or not isinstance(kw.get("stoichiometry"), ast.Dict):
            raise Unparsable("add_reaction: unexpected arguments")
        sto = []
        for k, v in zip(kw["stoichiometry"].keys, kw["stoichiometry"].values):
            if isinstance(v, ast.Call) and isinstance(v.func, ast.Name) and v.func.id == "Derived":
                fn, args = _ref(v, "Derived")
                sto.append([_const(k), ["fn", fn, args]])
            elif isinstance(v, ast.Constant) and isinstance(v.value, str):
                sto.append([_const(k), ["name", v.value]])
            else:
                sto.append([_const(k), ["num", expr_of(v)]])
        return [m, key, kw["fn"].id, _strs(kw["args"]), sto]
    raise Unparsable(f"unexpected call {m}")


# ---------------------------------------------------------------------------------------------- name-free reading


def resolve_module(mod: dict) -> dict:
    """every reference of the calls looked up among the definitions (a later def of the same name wins, as in Python)"""
    defs = {}
    for name, expr, params in mod["functions"]:
        defs[name] = [expr, params]

    def ref(fn, args):
        return {"def": defs.get(fn), "call_args": args}

    out = []
    for c in mod["calls"]:
        if c[0] in ("add_variable", "add_parameter"):
            v = c[2]
            out.append([c[0], c[1], v if v[0] == "num" else ["ia", ref(v[1], v[2])]])
        elif c[0] == "add_derived":
            out.append([c[0], c[1], ref(c[2], c[3])])
        else:
            out.append([c[0], c[1], ref(c[2], c[3]),
                        [[var, (["fn", ref(x[1], x[2])] if x[0] == "fn" else x)] for var, x in c[4]]])
    names = [f[0] for f in mod["functions"]]
    return {"calls": out, "n_functions": len(names), "names_distinct": len(set(names)) == len(names)}


def spec_calls(sym: dict) -> dict:
    """what the representation prescribes, written without any function name"""
    def ref(f):  # f = [fnName, expr, args]
        return {"def": [f[1], f[2]], "call_args": f[2]}

    fns = []

    def qty(kind, kw, q):
        key, v, unit = q
        if v[0] == "fn":
            fns.append(v[1:])
            return [kind, key, ["ia", ref(v[1:])]]
        return [kind, key, ["num", v[1], "value" if unit else kw, unit]]

    out = [qty("add_variable", "initial_value", q) for q in sym["variables"]]
    out += [qty("add_parameter", "value", q) for q in sym["parameters"]]
    for key, f in sym["derived"]:
        fns.append(f)
        out.append(["add_derived", key, ref(f)])
    for key, f, sto in sym["reactions"]:
        fns.append(f)
        ss = []
        for var, c in sto:
            if c[0] == "fn":
                fns.append(c[1:])
                ss.append([var, ["fn", ref(c[1:])]])
            else:
                ss.append([var, c])
        out.append(["add_reaction", key, ref(f), ss])
    if any(len(set(f[2])) != len(f[2]) for f in fns):
        return {"err": "ValueError"}
    return {"calls": out, "n_functions": len(fns), "names_distinct": True}


# ---------------------------------------------------------------------------------------------- stream `codegen`

#: names of the shapes the generator itself produces: init_<x>, <x>_, <r>_stoich_<s>, a reaction called init
QTY = ["a", "a_", "a__", "x", "x_", "stoich_x", "stoich_x_", "init_a", "k", "q"]
COMP = ["init_a", "init_a_", "init_a__", "init_x", "init", "r", "r_", "r_stoich_x", "r_stoich_x_", "init_stoich_x",
        "init_stoich_x_", "v1", "a", "d1"]
ARGS = ["q", "x", "k", "a"]


def gen_sym(rng, dup_fn: bool) -> dict:
    nid = iter(range(1, 10_000))

    def args():
        n = rng.choice([0, 1, 1, 2, 2, 3])
        if rng.random() < 0.04 and n >= 2:
            a = rng.choice(ARGS)
            return [a, rng.choice(ARGS), a][:n] if n == 3 else [a, a]
        return rng.sample(ARGS, n)

    def fn(name):
        return [name, next(nid), args()]

    def value(key):
        if rng.random() < 0.6:
            # the import names the function after the key; generate_mxlpy_code after the Python function
            return ["fn", *fn(key if rng.random() < 0.7 else rng.choice(QTY))]
        return ["num", next(nid)]

    def qtys(keys):
        out = []
        for k in keys:
            v = value(k)
            out.append([k, v, v[0] == "num" and rng.random() < 0.25])
        return out

    vkeys = rng.sample(QTY, rng.choice([0, 1, 2, 3]))
    pkeys = rng.sample([k for k in QTY if k not in vkeys], rng.choice([0, 1, 2, 3, 4]))
    comp = rng.sample(COMP, rng.choice([0, 1, 2, 3, 4, 5]))
    nd = rng.randint(0, len(comp))
    dkeys, rkeys = comp[:nd], comp[nd:]
    derived = [[k, fn(k)] for k in dkeys]
    reactions = []
    for k in rkeys:
        sto = []
        for var in rng.sample(QTY, rng.choice([0, 1, 2, 3])):
            t = rng.random()
            if t < 0.55:
                sto.append([var, ["fn", *fn(var if rng.random() < 0.7 else rng.choice(QTY))]])
            elif t < 0.7:
                sto.append([var, ["name", rng.choice(QTY)]])
            else:
                sto.append([var, ["num", next(nid)]])
        reactions.append([k, fn(k), sto])
    if dup_fn and len(derived) + len(reactions) >= 2:
        # two components sharing one function name (outside the theorem's hypothesis; model against code only)
        fs = [d[1] for d in derived] + [r[1] for r in reactions]
        a, b = rng.sample(range(len(fs)), 2)
        fs[b][0] = fs[a][0]
    return {"variables": qtys(vkeys), "parameters": qtys(pkeys), "derived": derived, "reactions": reactions}


def real_symrepr(sym: dict):
    import sympy

    from mxlpy.meta import codegen_mxlpy as cg

    def fn(f):
        return cg.SymbolicFn(fn_name=f[0], expr=sympy.Integer(1000 + f[1]), args=list(f[2]))

    def val(v):
        return fn(v[1:]) if v[0] == "fn" else sympy.Float(v[1])

    unit = sympy.Symbol("mol")
    s = cg.SymbolicRepr()
    for k, v, u in sym["variables"]:
        s.variables[k] = cg.SymbolicVariable(value=val(v), unit=unit if u else None)
    for k, v, u in sym["parameters"]:
        s.parameters[k] = cg.SymbolicParameter(value=val(v), unit=unit if u else None)
    for k, f in sym["derived"]:
        s.derived[k] = fn(f)
    for k, f, sto in sym["reactions"]:
        s.reactions[k] = cg.SymbolicReaction(
            fn=fn(f), stoichiometry={var: (fn(c[1:]) if c[0] == "fn" else c[1] if c[0] == "name" else sympy.Float(c[1]))
                                     for var, c in sto})
    return s


def _expr_tag(node):
    v = ast.literal_eval(node)
    return int(v) - 1000 if isinstance(v, int) else int(v)


def run_real_sym(sym: dict) -> dict:
    from mxlpy.meta.codegen_mxlpy import generate_mxlpy_code_from_symbolic_repr

    try:
        src = generate_mxlpy_code_from_symbolic_repr(real_symrepr(sym), imports=["import math", "import scipy"])
    except ValueError:
        return {"err": "ValueError"}
    return {"ok": parse_module(src, _expr_tag)}


def components_distinct(sym: dict) -> bool:
    names = [f[0] for _, f in sym["derived"]] + [r[1][0] for r in sym["reactions"]]
    return len(set(names)) == len(names)


def check_codegen(ctx):
    n = ctx.n(300, 6000)
    cases = [gen_sym(ctx.rng, dup_fn=(i % 10 == 9)) for i in range(n)]
    Ms = driver.call_batch([{"op": "c17", "symrepr": c} for c in cases]) if ctx.driver_ok else [None] * n
    for sym, M in zip(cases, Ms):
        case = {"kind": "codegen", "symrepr": sym}
        judge_sym(ctx, case, run_real_sym(sym), M)


def judge_sym(ctx, case, R, M):
    sym = case["symrepr"]
    generated = sum(1 for _, v, _ in sym["variables"] + sym["parameters"] if v[0] == "fn") + sum(
        1 for r in sym["reactions"] for _, c in r[2] if c[0] == "fn")
    ctx.count(case, f"codegen generated-names={min(generated, 4)}{'+' if generated > 4 else ''}", "ok" in R)
    if "err" in R:
        ctx.hist["codegen raises ValueError"] = ctx.hist.get("codegen raises ValueError", 0) + 1
    if components_distinct(sym):
        Rv = resolve_module(R["ok"]) if "ok" in R else R
        ctx.judge(case, Rv, spec_calls(sym), None,
                  what="a reference of the generated module does not resolve to the definition of its component")
    else:
        ctx.hist["codegen shared component function name (model vs code only)"] = ctx.hist.get(
            "codegen shared component function name (model vs code only)", 0) + 1
    if M is not None and M != R:
        ctx.add_drift(case, R, M, "genModule differs from generate_mxlpy_code_from_symbolic_repr")


# ---------------------------------------------------------------------------------------------- stream `import glue`


def called_names(node) -> set[str]:
    """names an expression calls as functions or reaches into as modules"""
    out = set()
    for n in ast.walk(node):
        if isinstance(n, ast.Call) and isinstance(n.func, ast.Name):
            out.add(n.func.id)
        elif isinstance(n, ast.Attribute):
            r = n
            while isinstance(r, ast.Attribute):
                r = r.value
            if isinstance(r, ast.Name):
                out.add(r.id)
    return out


def rename_params(params: list[str], called: list[str]) -> list[str]:
    """the rule for parameters that would shadow a name the body calls (own statement of it): such a parameter gets
    underscores appended until the name is neither a parameter, nor called, nor handed out before"""
    taken, out = set(params) | set(called), []
    for a in params:
        if a in called:
            n = a + "_"
            while n in taken:
                n += "_"
            taken.add(n)
            out.append(n)
        else:
            out.append(a)
    return out


def with_renamed_defs(x, called: dict):
    """a resolved-call structure with every definition's parameters renamed by the rule above"""
    if isinstance(x, dict):
        if "def" in x and x["def"] is not None:
            e, ps = x["def"]
            x = dict(x, **{"def": [e, rename_params(ps, called.get(e, []))]})
        return {k: with_renamed_defs(v, called) if k != "def" else v for k, v in x.items()}
    if isinstance(x, list):
        return [with_renamed_defs(v, called) for v in x]
    return x


def abstract_pmodel(pm, printer_fn, printer_inline):
    """pysbml's transformed model as the model's `PModel`; expressions become numbers, equal numbers = equal text"""
    import sympy

    texts: dict[str, int] = {}

    def eid(text):
        text = ast.unparse(ast.parse(text, mode="eval"))
        return texts.setdefault(text, len(texts))

    called: dict[int, list[str]] = {}

    def free(expr):
        return [i.name for i in expr.free_symbols if isinstance(i, sympy.Symbol)]

    def body(expr):
        src = printer_fn(fn_name="f", args=[], expr=expr)
        ret = ast.parse(src).body[0].body[0]
        text = ast.unparse(ret.value)
        i = eid(text)
        # the names the printed body calls / reaches into; a parameter of that name is renamed inside the written function
        # (own reading of the rule, independent of the code under test): the body with the renamed parameters is the SAME
        # expression
        cn = sorted(called_names(ret.value))
        called[i] = cn
        fr = free(expr)
        if set(fr) & set(cn):
            taken, ren = set(fr) | set(cn), {}
            for a in fr:
                if a in cn:
                    n = a + "_"
                    while n in taken:
                        n += "_"
                    taken.add(n)
                    ren[a] = n
            tree = ast.parse(text, mode="eval")
            callees = {id(n.func) for n in ast.walk(tree) if isinstance(n, ast.Call)}
            roots = set()
            for n in ast.walk(tree):
                if isinstance(n, ast.Attribute):
                    r = n
                    while isinstance(r, ast.Attribute):
                        r = r.value
                    roots.add(id(r))
            for n in ast.walk(tree):
                if isinstance(n, ast.Name) and n.id in ren and id(n) not in callees and id(n) not in roots:
                    n.id = ren[n.id]
            texts.setdefault(ast.unparse(tree), i)
        return i

    def coef(v):
        if isinstance(v, sympy.Float):
            return ["float", eid(printer_inline(v))]
        if isinstance(v, sympy.Symbol):
            return ["symbol", v.name]
        return ["other", body(v), free(v)]

    out = {
        "variables": [[k, eid(printer_inline(v.value)), v.unit is not None] for k, v in pm.variables.items()],
        "parameters": [[k, eid(printer_inline(v.value)), v.unit is not None] for k, v in pm.parameters.items()],
        "derived": [[k, body(e), free(e)] for k, e in pm.derived.items()],
        "reactions": [[k, body(r.expr), free(r.expr), [[s, coef(v)] for s, v in r.stoichiometry.items()]]
                      for k, r in pm.reactions.items()],
        "inits": [[k, body(e), free(e)] for k, e in pm.initial_assignments.items()],
    }
    out["called"] = [[i, cn] for i, cn in sorted(called.items()) if cn]

    def expr_of(node):
        return texts.get(ast.unparse(node), -1)

    return out, expr_of


def glue_observation(path, module_file):
    """(PModel abstraction, parsed module) for a document that `sbml.read` has just imported"""
    import pysbml

    from mxlpy.meta.sympy_tools import sympy_to_inline_py, sympy_to_python_fn

    pm = pysbml.load_and_transform_model(path)
    pmodel, expr_of = abstract_pmodel(pm, sympy_to_python_fn, sympy_to_inline_py)
    with open(module_file) as f:
        src = f.read()
    return pmodel, parse_module(src, expr_of)


def sym_of_pmodel(pmodel: dict, msym: dict | None) -> dict:
    """the SymbolicRepr `_codegen` must build, read off the pysbml model independently of the Lean model:
    an initial assignment replaces the value of the parameter, else of the variable, of that key"""
    inits = {k: [e, fr] for k, e, fr in pmodel["inits"]}
    pkeys = {k for k, _, _ in pmodel["parameters"]}

    def qty(k, v, u, is_par):
        if k in inits and (is_par or k not in pkeys):
            return [k, ["fn", k, *inits[k]], u]
        return [k, ["num", v], u]

    def coef(var, c):
        return ["num", c[1]] if c[0] == "float" else ["name", c[1]] if c[0] == "symbol" else ["fn", var, c[1], c[2]]

    return {"variables": [qty(k, v, u, False) for k, v, u in pmodel["variables"]],
            "parameters": [qty(k, v, u, True) for k, v, u in pmodel["parameters"]],
            "derived": [[k, [k, e, fr]] for k, e, fr in pmodel["derived"]],
            "reactions": [[k, [k, e, fr], [[var, coef(var, c)] for var, c in sto]] for k, e, fr, sto in pmodel["reactions"]]}


def judge_glue(ctx, small, glue, M):
    """glue = {"pmodel":…, "module":…} from the worker; M = driver answer for the pmodel"""
    pmodel, mod = glue["pmodel"], glue["module"]
    case = dict(small, kind="import-glue", pmodel=pmodel)
    sym = sym_of_pmodel(pmodel, None)
    ctx.hist["import glue compared"] = ctx.hist.get("import glue compared", 0) + 1
    dropped = [k for k, _, _ in pmodel["inits"]
               if k not in {q[0] for q in pmodel["parameters"]} | {q[0] for q in pmodel["variables"]}]
    if dropped:
        ctx.hist["import glue: initial assignment on neither parameter nor variable"] = ctx.hist.get(
            "import glue: initial assignment on neither parameter nor variable", 0) + 1
    if components_distinct(sym):
        called = {e: cn for e, cn in pmodel.get("called", [])}
        ctx.judge(case, resolve_module(mod), with_renamed_defs(spec_calls(sym), called), None,
                  what="the module written by sbml.read: a reference does not resolve to the definition of its component")
    if M is not None and M.get("ok") != mod:
        ctx.add_drift(case, mod, M, "genModule (importSym pysbml-model) differs from the module sbml.read wrote")
