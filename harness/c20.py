"""C20 — fitting: losses measure discrepancy; fits are honest and spare the input (DESIGN §6/C20, design.d/C20.md).

Streams
  val    every function of fit/losses.py on dyadic data: real value (Fraction of the float) vs the GENERATED Lean
         definition evaluated at Rat by the driver (mean, mean_squared, mae, mape — exactly; rmse^2 against
         mean_squared and msle against an mpmath reference to 1e-12) vs an independent Fraction formula (oracle).
  prop   the property itself per loss on the same data: 0 at the data, >= 0, 0 only at the data, not lowered by
         scaling the prediction up — cosine_similarity and mean fail it (listed findings).
  scale  `_Settings.loss` with/without standard scaling vs the generated `settingsLoss` (tolerance 1e-9: std/sqrt).
  resid  residual functions at the true parameters of identifiable linear models (steady state, time course,
         protocol; scaled/unscaled; every good loss) are ~0.
  fit    real fits with LocalScipyMinimizer: loss <= residual(p0), loss == residual recomputed at best_pars, the
         minimiser contract on the recorded scipy result, the wrapper chain vs the Lean `fitWrap`, input model
         identical before/after (as_deepcopy default).
"""
from __future__ import annotations

import concurrent.futures as cf
import math
import os
from fractions import Fraction as F

from vlib import driver

PROPS = ["MxlVerif.Props.C20"]
EXACT = ["mean", "mean_squared", "mae", "mean_absolute_percentage"]
GOOD = ["mean_squared", "rmse", "mae", "mean_absolute_percentage", "mean_squared_logarithmic"]
FINDING = {"cosine_similarity": "F-C20-1", "mean": "F-C20-2"}
ALL = ["cosine_similarity", "mae", "mean", "mean_absolute_percentage", "mean_squared", "mean_squared_logarithmic", "rmse"]


def q(x) -> str:
    return str(F(x))


# ----------------------------------------------------------------------------- oracle formulas (Fractions / mpmath)
def oracle_value(name, d, p):
    """independent restatement with exact rationals; None where irrational (compared via a reference)"""
    n = len(d)
    if name == "mean":
        return sum(a - b for a, b in zip(d, p)) / n
    if name == "mean_squared":
        return sum((a - b) ** 2 for a, b in zip(d, p)) / n
    if name == "mae":
        return sum(abs(b - a) for a, b in zip(d, p)) / n
    if name == "mean_absolute_percentage":
        return 100 * sum(abs((b - a) / a) for a, b in zip(d, p)) / n
    return None


def reference_float(name, d, p):
    import mpmath
    mpmath.mp.dps = 40
    D = [mpmath.mpf(a.numerator) / a.denominator for a in d]
    P = [mpmath.mpf(a.numerator) / a.denominator for a in p]
    n = len(d)
    if name == "rmse":
        return float(mpmath.sqrt(sum((a - b) ** 2 for a, b in zip(D, P)) / n))
    if name == "mean_squared_logarithmic":
        return float(sum((mpmath.log(a + 1) - mpmath.log(b + 1)) ** 2 for a, b in zip(D, P)) / n)
    if name == "cosine_similarity":
        return float(-mpmath.sqrt(sum(a * a for a in D)) * mpmath.sqrt(sum(b * b for b in P)))
    raise ValueError(name)


# ----------------------------------------------------------------------------- real side: losses
def real_losses(batch):
    """batch of {"loss", "d", "p", "lam"} -> values of the real function (floats as exact fraction strings)"""
    import pandas as pd
    from mxlpy.fit import losses
    out = []
    for c in batch:
        fn = getattr(losses, c["loss"])
        d = pd.Series([float(F(x)) for x in c["d"]])
        p = pd.Series([float(F(x)) for x in c["p"]])
        lam = float(F(c["lam"]))
        with _np_quiet():
            vals = {"dp": float(fn(d, p)), "dd": float(fn(d, d)), "dlp": float(fn(d, lam * p))}
            if c.get("frame"):  # the same numbers as a 2-column DataFrame (time-course data shape)
                h = len(d) // 2
                df = pd.DataFrame({"a": d[:h].to_numpy(), "b": d[h:2 * h].to_numpy()})
                pf = pd.DataFrame({"a": p[:h].to_numpy(), "b": p[h:2 * h].to_numpy()})
                vals["frame"] = float(fn(df, pf))
        out.append(vals)
    return out


class _np_quiet:
    def __enter__(self):
        import numpy as np
        self.old = np.seterr(all="ignore")

    def __exit__(self, *a):
        import numpy as np
        np.seterr(**self.old)


def gen_loss_case(rng, name):
    n = rng.choice([1, 2, 2, 4, 4, 8, 3, 5, 6])
    pool = [F(k, 8) for k in range(-24, 41) if k != 0]
    pow2 = [F(s) * F(2) ** e for s in (1, -1) for e in range(-2, 4)]
    if name == "mean_absolute_percentage":
        d = [rng.choice(pow2) for _ in range(n)]  # division by the data is exact
    elif name == "mean_squared_logarithmic":
        d = [rng.choice([x for x in pool if x > -1]) for _ in range(n)]
    else:
        d = [rng.choice(pool) for _ in range(n)]
    mode = rng.random()
    if mode < 0.15:
        p = list(d)
    elif mode < 0.3:
        p = [x + rng.choice([F(1, 8), F(-1, 4), F(2)]) for x in d]  # shifted
    elif mode < 0.4:
        p = [x * rng.choice([2, 4, 10]) for x in d]  # scaled up
    else:
        p = [rng.choice(pool) for _ in range(n)]
    if name == "mean_squared_logarithmic":
        p = [x if x > -1 else -x for x in p]
        p = [x if x > -1 else F(1, 2) for x in p]
    return {"loss": name, "d": [q(x) for x in d], "p": [q(x) for x in p], "lam": q(rng.choice([2, 3, 10, F(3, 2)])),
            "frame": n in (2, 4, 8) and rng.random() < 0.3}


def judge_loss(ctx, c, r, m_all):
    m_val, mdd, mdlp = m_all if m_all is not None else (None, None, None)
    name = c["loss"]
    d = [F(x) for x in c["d"]]
    p = [F(x) for x in c["p"]]
    lam = F(c["lam"])
    n = len(d)
    ctx.count(c, f"loss:{name}:n{n}:{'at-data' if d == p else 'off-data'}{':frame' if c.get('frame') else ''}")
    exact_len = n in (1, 2, 4, 8)
    # --- value: "each residual equals the chosen loss"
    sv = oracle_value(name, d, p)
    if sv is not None:
        if exact_len:
            R = {"value": q(F(r["dp"]))}
            S = {"value": q(sv)}
            M = None if m_val is None else {"value": m_val}
        else:  # n not a power of two: the float division by n rounds
            ok = abs(r["dp"] - float(sv)) <= 1e-12 * max(1.0, abs(float(sv)))
            R, S = {"value_close": ok}, {"value_close": True}
            M = None if m_val is None else {"value_close": abs(float(F(m_val)) - float(sv)) <= 1e-12 * max(1.0, abs(float(sv)))}
        ctx.judge({"stream": "val", **c}, R, S, M, what=f"losses.{name}(data, prediction) value")
    else:
        ref = reference_float(name, d, p)
        R = {"value_close": abs(r["dp"] - ref) <= 1e-12 * max(1.0, abs(ref))}
        M = None
        if name == "rmse" and m_val is not None:  # the driver's mean_squared is rmse^2
            M = {"value_close": abs(math.sqrt(float(F(m_val))) - ref) <= 1e-12 * max(1.0, abs(ref))}
        ctx.judge({"stream": "val", **c}, R, {"value_close": True}, M, what=f"losses.{name} vs 40-digit reference")
    if "frame" in r and name != "cosine_similarity":  # norm(DataFrame, 2) is the spectral norm: not modelled
        ctx.judge({"stream": "frame", **c}, {"same": abs(r["frame"] - r["dp"]) <= 1e-12 * max(1.0, abs(r["dp"]))},
                  {"same": True}, None, what=f"losses.{name} on a DataFrame = on its flattened values")
    # --- the property on this input
    tol = 0.0 if (sv is not None and exact_len) else 1e-12
    R = {"zero_at_data": abs(r["dd"]) <= tol, "nonneg": r["dp"] >= -tol,
         "zero_only_at_data": (abs(r["dp"]) <= tol) == (d == p),
         "scaling_up_not_rewarded": not (r["dlp"] < r["dd"] - tol)}
    S = {"zero_at_data": True, "nonneg": True, "zero_only_at_data": True, "scaling_up_not_rewarded": True}
    M = None
    if name in EXACT and m_val is not None:
        mdp = F(m_val)
        M = {"zero_at_data": F(mdd) == 0, "nonneg": mdp >= 0, "zero_only_at_data": (mdp == 0) == (d == p),
             "scaling_up_not_rewarded": not (F(mdlp) < F(mdd))}
        if not exact_len:
            M = None  # float rounding of /n can turn an exact 0 into 1e-17; the model is compared on the exact stratum
    ctx.judge({"stream": "prop", **c}, R, S, M, finding=FINDING.get(name),
              what=f"losses.{name}: discrepancy-measure laws on this (data, prediction, factor)")


def model_losses(ctx, cases):
    """the generated definitions at (d, p), (d, d) and (d, lam*p), one driver batch"""
    if not ctx.driver_ok:
        return [None] * len(cases)
    reqs = []
    for c in cases:
        nm = "mean_squared" if c["loss"] == "rmse" else c["loss"]
        lam = F(c["lam"])
        reqs += [{"op": "c20", "loss": nm, "d": c["d"], "p": c["p"]}, {"op": "c20", "loss": nm, "d": c["d"], "p": c["d"]},
                 {"op": "c20", "loss": nm, "d": c["d"], "p": [q(lam * F(x)) for x in c["p"]]}]
    resp = driver.call_batch(reqs)
    return [tuple(resp[3 * i:3 * i + 3]) for i in range(len(cases))]


# ----------------------------------------------------------------------------- _Settings.loss scaling
def real_settings(batch):
    import pandas as pd
    from mxlpy.fit import losses
    from mxlpy.fit.abstract import _Settings
    out = []
    for c in batch:
        d = pd.Series([float(F(x)) for x in c["d"]], index=[f"x{i}" for i in range(len(c["d"]))])
        p = pd.Series([float(F(x)) for x in c["p"]], index=d.index)
        s = _Settings(model=None, data=d, y0=None, integrator=None, loss_fn=getattr(losses, c["loss"]), p_names=[],
                      v_names=[], standard_scale=c["on"])
        out.append({"v": float(s.loss(p)), "mean": float(d.mean()), "scale": float(d.std())})
    return out


def judge_settings(ctx, c, r, rng_unused=None):
    ctx.count(c, f"settings:{c['loss']}:{'scaled' if c['on'] else 'plain'}")
    d = [F(x) for x in c["d"]]
    p = [F(x) for x in c["p"]]
    m, s = (F(r["mean"]), F(r["scale"])) if c["on"] else (F(0), F(1))
    if c["on"]:
        sv = oracle_value(c["loss"], [(x - m) / s for x in d], [(x - m) / s for x in p])
    else:
        sv = oracle_value(c["loss"], d, p)
    M = None
    if ctx.driver_ok:
        (mv,) = driver.call_batch([{"op": "c20", "loss": c["loss"], "d": c["d"], "p": c["p"],
                                    "scaled": {"mean": q(m), "scale": q(s), "on": c["on"]}}])
        M = {"close": abs(float(F(mv)) - float(sv)) <= 1e-9 * max(1.0, abs(float(sv)))}
    R = {"close": abs(r["v"] - float(sv)) <= 1e-9 * max(1.0, abs(float(sv)))}
    ctx.judge({"stream": "scale", **c}, R, {"close": True}, M,
              what="_Settings.loss(prediction) = loss_fn(data, prediction), both sides scaled by the data's mean/std")


# ----------------------------------------------------------------------------- models for residuals and fits
def influx(k):
    return k


def massaction(k, x):
    return k * x


def chain_model(k1, k2, k3):
    """-> x -> y -> ; steady state x = k1/k2, y = k1/k3: all three parameters identifiable from (x, y, v1)"""
    from mxlpy import Model
    return (Model().add_variables({"x": 1.0, "y": 0.5}).add_parameters({"k1": k1, "k2": k2, "k3": k3})
            .add_reaction("v1", influx, args=["k1"], stoichiometry={"x": 1})
            .add_reaction("v2", massaction, args=["k2", "x"], stoichiometry={"x": -1, "y": 1})
            .add_reaction("v3", massaction, args=["k3", "y"], stoichiometry={"y": -1}))


def fingerprint(model):
    """what a caller can see of a model: parameters, initial conditions, names, and the rhs at a fixed state"""
    return {"pars": {k: repr(v) for k, v in model.get_parameter_values().items()},
            "init": {k: repr(v) for k, v in model.get_initial_conditions().items()},
            "rxn": list(model.get_reaction_names()),
            "rhs": [repr(float(x)) for x in model.get_right_hand_side({"x": 2.0, "y": 3.0}, time=0.0)]}


def make_data(kind, true):
    import numpy as np
    import pandas as pd
    from mxlpy import Simulator, make_protocol
    m = chain_model(**true)
    if kind == "steady_state":
        res = Simulator(m).simulate_to_steady_state().get_result().unwrap_or_err()
        return res.get_combined().iloc[-1], None
    if kind == "time_course":
        res = Simulator(m).simulate_time_course(np.linspace(0, 4, 9)).get_result().unwrap_or_err()
        return res.get_combined(), None
    proto = make_protocol([(2, {"k1": true["k1"]}), (2, {"k1": 2 * true["k1"]})])
    tp = pd.Index(np.linspace(0.5, 4, 8))
    res = Simulator(m).simulate_protocol_time_course(protocol=proto, time_points=np.array(tp)).get_result().unwrap_or_err()
    comb = res.get_combined()
    return comb.loc[[t for t in comb.index if any(abs(t - u) < 1e-12 for u in tp)]], proto


def settings_for(kind, model, data, proto, loss, scaled, p0):
    from mxlpy.fit import losses
    from mxlpy.fit.abstract import _Settings
    pn, vn = model.get_parameter_names(), model.get_variable_names()
    return _Settings(model=model, data=data, y0=None, integrator=None, loss_fn=getattr(losses, loss),
                     p_names=[i for i in p0 if i in pn], v_names=[i for i in p0 if i in vn], standard_scale=scaled,
                     protocol=proto)


def real_fit_case(c):
    """residual at the true parameters; optionally a full fit with a recording scipy minimiser"""
    import copy
    import logging

    import scipy.optimize
    logging.getLogger("mxlpy").setLevel(logging.ERROR)
    from mxlpy import fit
    from mxlpy.fit import losses, routines
    from mxlpy.minimizers import _scipy as ms

    true = {k: float(F(v)) for k, v in c["true"].items()}
    kind = c["kind"]
    data, proto = make_data(kind, true)
    if c.get("cols"):
        data = data[c["cols"]]
    if kind != "steady_state" and c["loss"] == "mean_absolute_percentage":
        data = data.loc[:, [col for col in data.columns if (data[col].abs() > 1e-9).all()]]
    resid = {"steady_state": routines.steady_state_residual, "time_course": routines.time_course_residual,
             "protocol": routines.protocol_time_course_residual}[kind]
    fitfn = {"steady_state": fit.steady_state, "time_course": fit.time_course, "protocol": fit.protocol_time_course}[kind]
    out = {}
    with _np_quiet():
        st = settings_for(kind, chain_model(**true), data, proto, c["loss"], c["scaled"], true)
        out["resid_true"] = float(resid(dict(true), st))
        if not c.get("fit"):
            return out
        p0 = {k: float(F(v)) for k, v in c["p0"].items()}
        rec = {}

        def recording_minimize(fun, x0, **kw):
            vals = {}

            def g(x):
                v = fun(x)
                vals[tuple(float(t) for t in x)] = float(v)
                return v

            res = scipy.optimize.minimize(g, x0=x0, **kw)
            rec.update(x0=[float(t) for t in x0], x=[float(t) for t in res.x], fun=float(res.fun), success=bool(res.success),
                       g_at_x=vals.get(tuple(float(t) for t in res.x)), g_at_x0=vals.get(tuple(float(t) for t in x0)))
            return res

        model = chain_model(**{**true, **p0})
        before = fingerprint(model)
        twin = copy.deepcopy(model)
        old = ms.minimize
        ms.minimize = recording_minimize
        try:
            kw = dict(p0=p0, data=data, minimizer=fit.LocalScipyMinimizer(tol=1e-8), loss_fn=getattr(losses, c["loss"]),
                      standard_scale=c["scaled"], bounds={k: (1e-3, 1e3) for k in p0})
            if kind == "protocol":
                kw["protocol"] = proto
            res = fitfn(model, **kw)
        finally:
            ms.minimize = old
        out["after_equal"] = fingerprint(model) == before
        out["rec"] = rec
        val = res.value
        if type(val).__name__ == "Fit":
            out["fit"] = {"best": [[k, float(v)] for k, v in val.best_pars.items()], "loss": float(val.loss),
                          "returned_model_is_input": val.model is model}
            st2 = settings_for(kind, copy.deepcopy(twin), data, proto, c["loss"], c["scaled"], p0)
            out["resid_best"] = float(resid({k: float(v) for k, v in val.best_pars.items()}, st2))
            st3 = settings_for(kind, copy.deepcopy(twin), data, proto, c["loss"], c["scaled"], p0)
            out["resid_p0"] = float(resid(dict(p0), st3))
        else:
            out["fit"] = type(val).__name__
    return out


def judge_fit(ctx, c, r):
    ctx.count(c, f"{'fit' if c.get('fit') else 'resid'}:{c['kind']}:{c['loss']}:{'scaled' if c['scaled'] else 'plain'}")
    # residual at the true parameters (data generated by the model itself)
    small = 1e-3 if c["kind"] == "steady_state" else 1e-5  # steady state: stop criterion 1e-6 per 100 time units
    ctx.judge({"stream": "resid", **c}, {"residual_at_truth_small": abs(r["resid_true"]) <= small},
              {"residual_at_truth_small": True}, None, finding="F-C20-3" if c.get("degenerate") else None,
              what="residual(true parameters) ~ 0")
    if not c.get("fit"):
        return
    rec = r["rec"]
    ctx.hist["fit_failed" if isinstance(r["fit"], str) else "fit_succeeded"] = ctx.hist.get(
        "fit_failed" if isinstance(r["fit"], str) else "fit_succeeded", 0) + 1
    if isinstance(r["fit"], str):  # minimiser reported failure: must be a failure value, and the input untouched
        R = {"result": r["fit"], "input_untouched": r["after_equal"]}
        S = {"result": "FitFailure", "input_untouched": True}
        M = None
        if ctx.driver_ok and not rec.get("success", True):
            (mv,) = driver.call_batch([{"op": "c20", "fit": {"p0": [[k, q(F(v))] for k, v in c["p0"].items()], "res": None}}])
            M = {"result": "FitFailure" if mv is None else "Fit", "input_untouched": True}
        ctx.judge({"stream": "fit", **c}, R, S, M, what="failed minimisation is reported as failure")
        return
    f = r["fit"]
    tolr = 1e-9 * max(1.0, abs(f["loss"]))
    R = {"loss_is_residual_at_best": abs(f["loss"] - r["resid_best"]) <= tolr,
         "loss_le_residual_p0": f["loss"] <= r["resid_p0"] + tolr,
         "names": [k for k, _ in f["best"]], "input_untouched": r["after_equal"],
         "works_on_a_copy": not f["returned_model_is_input"]}
    S = {"loss_is_residual_at_best": True, "loss_le_residual_p0": True, "names": list(c["p0"]),
         "input_untouched": True, "works_on_a_copy": True}
    ctx.judge({"stream": "fit", **c}, R, S, None, what="fit.* result: honest loss, input model untouched")
    # minimiser contract (trusted assumption of C20_fit_honest) on the recorded scipy result
    contract = {"fun_is_objective_at_x": rec["g_at_x"] is not None and abs(rec["g_at_x"] - rec["fun"]) <= tolr,
                "fun_le_start": rec["g_at_x0"] is not None and rec["fun"] <= rec["g_at_x0"] + tolr,
                "dimension": len(rec["x"]) == len(rec["x0"])}
    ctx.judge({"stream": "contract", **c}, contract, {k: True for k in contract}, None,
              what="scipy.optimize.minimize honours MinimiserContract on this run")
    # wrapper chain vs the Lean fitWrap/localScipyCall on the recorded result
    if ctx.driver_ok:
        (mv,) = driver.call_batch([{"op": "c20", "fit": {"p0": [[k, q(F(v))] for k, v in c["p0"].items()],
                                                         "res": [[q(F(x)) for x in rec["x"]], q(F(rec["fun"]))]}}])
        Rw = {"best": [[k, q(F(v))] for k, v in f["best"]], "loss": q(F(f["loss"]))}
        ctx.judge({"stream": "wrap", **c}, Rw, {"best": [[k, q(F(x))] for k, x in zip(c["p0"], rec["x"])], "loss": q(F(rec["fun"]))},
                  mv, what="Fit(best_pars, loss) = names of p0 zipped with res.x, res.fun")


def gen_fit_cases(ctx):
    rng = ctx.rng
    cases = []
    kinds = ["steady_state", "time_course", "protocol"]
    for kind in kinds:
        for loss in GOOD:
            for scaled in (False, True):
                true = {"k1": q(rng.choice([1, 2, F(3, 2)])), "k2": q(rng.choice([1, 2, 4])), "k3": q(rng.choice([F(1, 2), 1, 2]))}
                cases.append({"kind": kind, "loss": loss, "scaled": scaled, "true": true})
    cases = [c for c in cases if not (F(c["true"]["k1"]) / F(c["true"]["k2"]) == 1
                                      and F(c["true"]["k1"]) / F(c["true"]["k3"]) == F(1, 2))]  # would start AT the steady state
    # degenerate standard scaling (the default): a single measured value has std NaN, constant data has std 0
    cases += [{"kind": "steady_state", "loss": "rmse", "scaled": True, "true": {"k1": "1", "k2": "2", "k3": "1"},
               "cols": ["x"], "degenerate": True},
              {"kind": "time_course", "loss": "rmse", "scaled": True, "true": {"k1": "1", "k2": "2", "k3": "1"},
               "cols": ["v1"], "degenerate": True},
              {"kind": "steady_state", "loss": "rmse", "scaled": False, "true": {"k1": "1", "k2": "2", "k3": "1"},
               "cols": ["x"]}]
    nfit = ctx.n(9, 60)
    for i in range(nfit):
        kind = kinds[i % 3]
        loss = rng.choice(["rmse", "rmse", "mean_squared", "mae"])
        true = {"k1": q(rng.choice([1, 2])), "k2": q(rng.choice([2, 4])), "k3": q(rng.choice([1, 2]))}
        names = rng.sample(["k1", "k2", "k3"], rng.choice([1, 2, 3]) if kind != "protocol" else rng.choice([1, 2]))
        if kind == "protocol":
            names = [n for n in names if n != "k1"] or ["k2"]  # k1 is driven by the protocol
        p0 = {n: q(F(true[n]) * rng.choice([F(3, 4), F(5, 4), F(3, 2)])) for n in sorted(names)}
        cases.append({"kind": kind, "loss": loss, "scaled": rng.random() < 0.5, "true": true, "p0": p0, "fit": True})
    return cases


# ----------------------------------------------------------------------------- entry points
def setup(ctx):
    from translate import c20 as tr
    ctx.translate(tr.generate)
    ctx.build(PROPS)
    ctx.rule = (
        "val/prop: each shipped loss x dyadic data vectors (length 1-8; at the data, shifted, scaled up, random) x scale "
        "factor; scale: _Settings.loss scaled/plain; resid: 3 data shapes x 5 good losses x scaled/plain at true "
        "parameters; fit: real LocalScipyMinimizer fits (1-3 free parameters). distinct = distinct case descriptions"
    )
    ctx.assumptions += [
        "scipy.optimize.minimize honours MinimiserContract (fun = objective(x), fun <= objective(x0)) — assumed by C20_fit_honest, checked on every recorded fit",
        "a pandas Series/DataFrame is a flat list of numbers for the elementwise losses (checked: DataFrame = flattened); np.linalg.norm of a DataFrame (spectral norm) is not modelled",
        "the residual function is a pure function of the updates on the copied model (every evaluation rewrites all fitted names)",
        "float rounding: exact comparison only for vector lengths 1,2,4,8 on dyadic data; otherwise 1e-12 relative",
    ]
    ctx.trusted_base += ["translate/c20.py (numpy expression subset -> Lean definitions; refuses anything else)",
                         "scipy.optimize (MinimiserContract), scipy.integrate, pandas alignment/deepcopy"]


def run(ctx):
    setup(ctx)
    rng = ctx.rng
    loss_cases = [gen_loss_case(rng, name) for name in ALL for _ in range(ctx.n(60, 1500))]
    # the round-0 witnesses
    loss_cases += [{"loss": "cosine_similarity", "d": ["1", "2", "3"], "p": ["1", "2", "3"], "lam": "10", "frame": False},
                   {"loss": "mean", "d": ["1"], "p": ["101"], "lam": "2", "frame": False},
                   {"loss": "mean", "d": ["0", "2"], "p": ["1", "1"], "lam": "2", "frame": False}]
    set_cases = [{"loss": rng.choice(["mean_squared", "mae"]), "d": c["d"], "p": c["p"], "on": rng.random() < 0.6}
                 for c in (gen_loss_case(rng, "mean_squared") for _ in range(ctx.n(40, 600))) if len(set(c["d"])) > 1]
    # the percentage loss divides by its FIRST argument: this is where the argument order of _Settings.loss shows
    set_cases += [{"loss": "mean_absolute_percentage", "d": c["d"], "p": c["p"], "on": False}
                  for c in (gen_loss_case(rng, "mean_absolute_percentage") for _ in range(ctx.n(12, 200)))]
    fit_cases = gen_fit_cases(ctx)
    import mxlpy  # noqa: F401
    with cf.ProcessPoolExecutor(max_workers=min(16, os.cpu_count() or 4)) as ex:
        fut_fit = [ex.submit(real_fit_case, c) for c in fit_cases]
        chunks = [loss_cases[i:i + 100] for i in range(0, len(loss_cases), 100)]
        Rl = [r for ch in ex.map(real_losses, chunks) for r in ch]
        Rs = real_settings(set_cases)
        Rf = [f.result() for f in fut_fit]
    Ml = model_losses(ctx, loss_cases)
    for c, r, m in zip(loss_cases, Rl, Ml):
        judge_loss(ctx, c, r, m)
    for c, r in zip(set_cases, Rs):
        judge_settings(ctx, c, r)
    for c, r in zip(fit_cases, Rf):
        judge_fit(ctx, c, r)
    if not ctx.proof_ok or ctx.drift:
        ctx.notes.append("proof/correspondence broken: the run above is the failing-input search")
    if os.environ.get("C20_DEBUG"):
        import json
        for v in ctx.violations[:12]:
            print(json.dumps(v, default=str)[:900])


def replay(ctx, rp):
    c = dict(rp["case"])
    stream = c.pop("stream", "val")
    if stream in ("val", "prop", "frame"):
        (r,) = real_losses([c])
        (m,) = model_losses(ctx, [c])
        print("R =", r, "\nM =", m)
        judge_loss(ctx, c, r, m)
    elif stream == "scale":
        (r,) = real_settings([c])
        print("R =", r)
        judge_settings(ctx, c, r)
    else:
        r = real_fit_case(c)
        print("R =", r)
        judge_fit(ctx, c, r)
