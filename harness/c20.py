"""C20 — fitting: losses measure discrepancy; fits are honest and spare the input (DESIGN §6/C20, design.d/C20.md).

Streams
  val    every function of fit/losses.py on dyadic data: real value (Fraction of the float) vs the GENERATED Lean
         definition evaluated at Rat by the driver (mean, mean_squared, mae, mape — exactly; rmse^2 against
         mean_squared and msle against an mpmath reference to 1e-12) vs an independent Fraction formula (oracle).
  prop   the property itself per loss on the same data: 0 at the data, >= 0, 0 only at the data, not lowered by
         scaling the prediction up (cosine_similarity: -1 at the data, nothing below, scale invariant) — mean fails
         it (listed finding).
  scale  `_Settings.loss` with/without standard scaling vs the generated `settingsLoss` (tolerance 1e-9: std/sqrt).
  resid  residual functions at the true parameters of identifiable linear models (steady state, time course,
         protocol; scaled/unscaled; every good loss) are ~0.
  fit    real fits with LocalScipyMinimizer: loss <= residual(p0), loss == residual recomputed at best_pars, the
         minimiser contract on the recorded scipy result, the wrapper chain vs the Lean `fitWrap`, input model
         identical before/after (as_deepcopy default).
"""
from __future__ import annotations

import concurrent.futures as cf
import math
import os
from fractions import Fraction as F

from vlib import driver

PROPS = ["MxlVerif.Props.C20"]
EXACT = ["mean", "mean_squared", "mae", "mean_absolute_percentage"]
GOOD = ["mean_squared", "rmse", "mae", "mean_absolute_percentage", "mean_squared_logarithmic"]
FINDING = {}
ALL = ["cosine_similarity", "mae", "mean", "mean_absolute_percentage", "mean_squared", "mean_squared_logarithmic", "rmse"]


def q(x) -> str:
    return str(F(x))


# ----------------------------------------------------------------------------- oracle formulas (Fractions / mpmath)
def oracle_value(name, d, p):
    """independent restatement with exact rationals; None where irrational (compared via a reference)"""
    n = len(d)
    if name == "mean":
        return abs(sum(a - b for a, b in zip(d, p)) / n)  # the absolute mean error
    if name == "mean_squared":
        return sum((a - b) ** 2 for a, b in zip(d, p)) / n
    if name == "mae":
        return sum(abs(b - a) for a, b in zip(d, p)) / n
    if name == "mean_absolute_percentage":
        return 100 * sum(abs((b - a) / a) for a, b in zip(d, p)) / n
    return None


def reference_float(name, d, p):
    import mpmath
    mpmath.mp.dps = 40
    D = [mpmath.mpf(a.numerator) / a.denominator for a in d]
    P = [mpmath.mpf(a.numerator) / a.denominator for a in p]
    n = len(d)
    if name == "rmse":
        return float(mpmath.sqrt(sum((a - b) ** 2 for a, b in zip(D, P)) / n))
    if name == "mean_squared_logarithmic":
        return float(sum((mpmath.log(a + 1) - mpmath.log(b + 1)) ** 2 for a, b in zip(D, P)) / n)
    if name == "cosine_similarity":
        return float(-sum(a * b for a, b in zip(D, P)) / (mpmath.sqrt(sum(a * a for a in D)) * mpmath.sqrt(sum(b * b for b in P))))
    raise ValueError(name)


# ----------------------------------------------------------------------------- real side: losses
def real_losses(batch):
    """batch of {"loss", "d", "p", "lam"} -> values of the real function (floats as exact fraction strings)"""
    import pandas as pd
    from mxlpy.fit import losses
    out = []
    for c in batch:
        fn = getattr(losses, c["loss"])
        d = pd.Series([float(F(x)) for x in c["d"]])
        p = pd.Series([float(F(x)) for x in c["p"]])
        lam = float(F(c["lam"]))
        with _np_quiet():
            vals = {"dp": float(fn(d, p)), "dd": float(fn(d, d)), "dlp": float(fn(d, lam * p))}
            if c.get("frame"):  # the same numbers as a 2-column DataFrame (time-course data shape)
                h = len(d) // 2
                df = pd.DataFrame({"a": d[:h].to_numpy(), "b": d[h:2 * h].to_numpy()})
                pf = pd.DataFrame({"a": p[:h].to_numpy(), "b": p[h:2 * h].to_numpy()})
                vals["frame"] = float(fn(df, pf))
        out.append(vals)
    return out


class _np_quiet:
    def __enter__(self):
        import numpy as np
        self.old = np.seterr(all="ignore")

    def __exit__(self, *a):
        import numpy as np
        np.seterr(**self.old)


def gen_loss_case(rng, name):
    n = rng.choice([1, 2, 2, 4, 4, 8, 3, 5, 6])
    pool = [F(k, 8) for k in range(-24, 41) if k != 0]
    pow2 = [F(s) * F(2) ** e for s in (1, -1) for e in range(-2, 4)]
    if name == "mean_absolute_percentage":
        d = [rng.choice(pow2) for _ in range(n)]  # division by the data is exact
    elif name == "mean_squared_logarithmic":
        d = [rng.choice([x for x in pool if x > -1]) for _ in range(n)]
    else:
        d = [rng.choice(pool) for _ in range(n)]
    mode = rng.random()
    if mode < 0.15:
        p = list(d)
    elif mode < 0.3:
        p = [x + rng.choice([F(1, 8), F(-1, 4), F(2)]) for x in d]  # shifted
    elif mode < 0.4:
        p = [x * rng.choice([2, 4, 10]) for x in d]  # scaled up
    else:
        p = [rng.choice(pool) for _ in range(n)]
    if name == "mean_squared_logarithmic":
        p = [x if x > -1 else -x for x in p]
        p = [x if x > -1 else F(1, 2) for x in p]
    return {"loss": name, "d": [q(x) for x in d], "p": [q(x) for x in p], "lam": q(rng.choice([2, 3, 10, F(3, 2)])),
            "frame": n in (2, 4, 8) and rng.random() < 0.3}


def judge_loss(ctx, c, r, m_all):
    m_val, mdd, mdlp = m_all if m_all is not None else (None, None, None)
    name = c["loss"]
    d = [F(x) for x in c["d"]]
    p = [F(x) for x in c["p"]]
    lam = F(c["lam"])
    n = len(d)
    ctx.count(c, f"loss:{name}:n{n}:{'at-data' if d == p else 'off-data'}{':frame' if c.get('frame') else ''}")
    exact_len = n in (1, 2, 4, 8)
    # --- value: "each residual equals the chosen loss"
    sv = oracle_value(name, d, p)
    if sv is not None:
        if exact_len:
            R = {"value": q(F(r["dp"]))}
            S = {"value": q(sv)}
            M = None if m_val is None else {"value": m_val}
        else:  # n not a power of two: the float division by n rounds
            ok = abs(r["dp"] - float(sv)) <= 1e-12 * max(1.0, abs(float(sv)))
            R, S = {"value_close": ok}, {"value_close": True}
            M = None if m_val is None else {"value_close": abs(float(F(m_val)) - float(sv)) <= 1e-12 * max(1.0, abs(float(sv)))}
        ctx.judge({"stream": "val", **c}, R, S, M, what=f"losses.{name}(data, prediction) value")
    else:
        ref = reference_float(name, d, p)
        R = {"value_close": abs(r["dp"] - ref) <= 1e-12 * max(1.0, abs(ref))}
        M = None
        if name == "rmse" and m_val is not None:  # the driver's mean_squared is rmse^2
            M = {"value_close": abs(math.sqrt(float(F(m_val))) - ref) <= 1e-12 * max(1.0, abs(ref))}
        if name == "cosine_similarity" and m_val is not None:  # the driver's (inner product, |d|^2, |p|^2)
            M = {"value_close": abs(cos_from_parts(m_val) - ref) <= 1e-12 * max(1.0, abs(ref))}
        ctx.judge({"stream": "val", **c}, R, {"value_close": True}, M, what=f"losses.{name} vs 40-digit reference")
    if "frame" in r:
        ctx.judge({"stream": "frame", **c}, {"same": abs(r["frame"] - r["dp"]) <= 1e-12 * max(1.0, abs(r["dp"]))},
                  {"same": True}, None, what=f"losses.{name} on a DataFrame = on its flattened values")
    # --- the property on this input
    if name == "cosine_similarity":
        # minus the cosine of the angle: -1 at the data, nothing below it, unchanged by scaling the prediction up
        tol = 1e-12
        R = {"at_data": abs(r["dd"] + 1.0) <= tol, "minimal_at_data": r["dp"] >= r["dd"] - tol,
             "scale_invariant": abs(r["dlp"] - r["dp"]) <= tol, "scaling_up_not_rewarded": not (r["dlp"] < r["dd"] - tol)}
        S = {"at_data": True, "minimal_at_data": True, "scale_invariant": True, "scaling_up_not_rewarded": True}
        M = None
        if m_val is not None:
            vdp, vdd, vdlp = cos_from_parts(m_val), cos_from_parts(mdd), cos_from_parts(mdlp)
            M = {"at_data": abs(vdd + 1.0) <= tol, "minimal_at_data": vdp >= vdd - tol,
                 "scale_invariant": abs(vdlp - vdp) <= tol, "scaling_up_not_rewarded": not (vdlp < vdd - tol)}
        ctx.judge({"stream": "prop", **c}, R, S, M,
                  what="losses.cosine_similarity: -1 at the data, minimal there, invariant under scaling the prediction")
        return
    tol = 0.0 if (sv is not None and exact_len) else 1e-12
    if name == "mean":
        # the absolute bias: 0 at the data, never negative, not lowered below the data's score by a larger prediction;
        # it also vanishes when errors cancel, so "zero only at the data" is not among its laws
        R = {"zero_at_data": abs(r["dd"]) <= tol, "nonneg": r["dp"] >= -tol, "scaling_up_not_rewarded": not (r["dlp"] < r["dd"] - tol)}
        S = {"zero_at_data": True, "nonneg": True, "scaling_up_not_rewarded": True}
        M = None
        if m_val is not None and exact_len:
            M = {"zero_at_data": F(mdd) == 0, "nonneg": F(m_val) >= 0, "scaling_up_not_rewarded": not (F(mdlp) < F(mdd))}
        ctx.judge({"stream": "prop", **c}, R, S, M, what="losses.mean: absolute mean error — 0 at the data, never negative")
        return
    R = {"zero_at_data": abs(r["dd"]) <= tol, "nonneg": r["dp"] >= -tol,
         "zero_only_at_data": (abs(r["dp"]) <= tol) == (d == p),
         "scaling_up_not_rewarded": not (r["dlp"] < r["dd"] - tol)}
    S = {"zero_at_data": True, "nonneg": True, "zero_only_at_data": True, "scaling_up_not_rewarded": True}
    M = None
    if name in EXACT and m_val is not None:
        mdp = F(m_val)
        M = {"zero_at_data": F(mdd) == 0, "nonneg": mdp >= 0, "zero_only_at_data": (mdp == 0) == (d == p),
             "scaling_up_not_rewarded": not (F(mdlp) < F(mdd))}
        if not exact_len:
            M = None  # float rounding of /n can turn an exact 0 into 1e-17; the model is compared on the exact stratum
    ctx.judge({"stream": "prop", **c}, R, S, M, finding=FINDING.get(name),
              what=f"losses.{name}: discrepancy-measure laws on this (data, prediction, factor)")


def cos_from_parts(m):
    """the driver returns the exact inner product and squared norms (the vocabulary the generated definition is built
    from); the square roots are taken here"""
    dot, a, b = (F(x) for x in m)
    return -float(dot) / (math.sqrt(float(a)) * math.sqrt(float(b)))


def model_losses(ctx, cases):
    """the generated definitions at (d, p), (d, d) and (d, lam*p), one driver batch"""
    if not ctx.driver_ok:
        return [None] * len(cases)
    reqs = []
    for c in cases:
        nm = "mean_squared" if c["loss"] == "rmse" else c["loss"]
        lam = F(c["lam"])
        reqs += [{"op": "c20", "loss": nm, "d": c["d"], "p": c["p"]}, {"op": "c20", "loss": nm, "d": c["d"], "p": c["d"]},
                 {"op": "c20", "loss": nm, "d": c["d"], "p": [q(lam * F(x)) for x in c["p"]]}]
    resp = driver.call_batch(reqs)
    return [tuple(resp[3 * i:3 * i + 3]) for i in range(len(cases))]


# ----------------------------------------------------------------------------- _Settings.loss scaling
def real_settings(batch):
    import pandas as pd
    from mxlpy.fit import losses
    from mxlpy.fit.abstract import _Settings
    out = []
    for c in batch:
        if c.get("fcols"):
            # time-course shaped data: a DataFrame, one column per measured quantity, None = not measured at that time
            import numpy as np
            idx = [float(i) for i in range(len(next(iter(c["fcols"].values()))))]
            df = pd.DataFrame({k: [np.nan if x is None else float(F(x)) for x in col] for k, col in c["fcols"].items()}, index=idx)
            pf = pd.DataFrame({k: [float(F(x)) for x in col] for k, col in c["fpred"].items()}, index=idx)
            s = _Settings(model=None, data=df, y0=None, integrator=None, loss_fn=getattr(losses, c["loss"]), p_names=[],
                          v_names=[], standard_scale=c["on"])
            with _np_quiet():
                out.append({"v": float(s.loss(pf)), "at_data": float(s.loss(df.fillna(pf)))})
            continue
        d = pd.Series([float(F(x)) for x in c["d"]], index=[f"x{i}" for i in range(len(c["d"]))])
        p = pd.Series([float(F(x)) for x in c["p"]], index=d.index)
        s = _Settings(model=None, data=d, y0=None, integrator=None, loss_fn=getattr(losses, c["loss"]), p_names=[],
                      v_names=[], standard_scale=c["on"])
        out.append({"v": float(s.loss(p)), "mean": float(d.mean()), "scale": float(d.std(ddof=1)) if len(d) > 1 else float("nan")})
    return out


def gen_frame_settings_case(rng, shape):
    """data frames as time-course fits get them: dense, a constant column, ONE row, a column measured only once"""
    pool = [F(k, 4) for k in range(-8, 13) if k != 0]
    n = 1 if shape == "one-row" else rng.choice([2, 3, 4, 5])
    cols = {}
    for name in rng.sample(["x", "y", "v1"], rng.randint(1, 3)):
        col = [rng.choice(pool) for _ in range(n)]
        if shape == "constant-column" and len(cols) == 0:
            col = [col[0]] * n
        cols[name] = col
    pred = {k: [x + rng.choice([0, F(1, 2), -1, 2]) for x in col] for k, col in cols.items()}
    data = {k: [q(x) for x in col] for k, col in cols.items()}
    if shape == "measured-once" and n > 1:
        k = rng.choice(sorted(data))
        keep = rng.randrange(n)
        data[k] = [x if i == keep else None for i, x in enumerate(data[k])]
    return {"fcols": data, "fpred": {k: [q(x) for x in col] for k, col in pred.items()}, "loss": rng.choice(["mean_squared", "mae", "rmse"]),
            "on": rng.random() < 0.85, "shape": shape}


def judge_frame_settings(ctx, c, r):
    ctx.count(c, f"settings-frame:{c['shape']}:{c['loss']}:{'scaled' if c['on'] else 'plain'}:{len(c['fcols'])}cols")
    import numpy as np
    devs = []
    for k, col in c["fcols"].items():
        meas = [i for i, x in enumerate(col) if x is not None]
        d = np.array([float(F(col[i])) for i in meas])
        pr = np.array([float(F(c["fpred"][k][i])) for i in meas])
        mu, sd = 0.0, 1.0
        if c["on"]:
            mu = float(d.mean())
            sd = float(d.std(ddof=1)) if len(d) > 1 else float("nan")
            sd = sd if sd > 0 else 1.0  # no spread / a single measurement: compared unscaled
        devs += list(((d - mu) / sd) - ((pr - mu) / sd))
    devs = np.array(devs)
    sv = {"mean_squared": float(np.mean(devs ** 2)), "rmse": float(np.sqrt(np.mean(devs ** 2))), "mae": float(np.mean(np.abs(devs)))}[c["loss"]]
    R = {"close": abs(r["v"] - sv) <= 1e-9 * max(1.0, abs(sv)), "zero_at_data": abs(r["at_data"]) <= 1e-12}
    ctx.judge({"stream": "scale", **c}, R, {"close": True, "zero_at_data": True}, None,
              what="_Settings.loss on a data FRAME: per-column mean/std of the measured points, a column without spread unscaled")


def judge_settings(ctx, c, r, rng_unused=None):
    if c.get("fcols"):
        judge_frame_settings(ctx, c, r)
        return
    ctx.count(c, f"settings:{c['loss']}:{'scaled' if c['on'] else 'plain'}")
    d = [F(x) for x in c["d"]]
    p = [F(x) for x in c["p"]]
    m, s = (F(r["mean"]), F(r["scale"]) if r["scale"] == r["scale"] else F(0)) if c["on"] else (F(0), F(1))
    if c["on"]:
        se = s if s > 0 else F(1)  # a spread that is not positive (constant data, single value): unscaled
        sv = oracle_value(c["loss"], [(x - m) / se for x in d], [(x - m) / se for x in p])
    else:
        sv = oracle_value(c["loss"], d, p)
    M = None
    if ctx.driver_ok:
        (mv,) = driver.call_batch([{"op": "c20", "loss": c["loss"], "d": c["d"], "p": c["p"],
                                    "scaled": {"mean": q(m), "scale": q(s), "on": c["on"]}}])
        M = {"close": abs(float(F(mv)) - float(sv)) <= 1e-9 * max(1.0, abs(float(sv)))}
    R = {"close": abs(r["v"] - float(sv)) <= 1e-9 * max(1.0, abs(float(sv)))}
    ctx.judge({"stream": "scale", **c}, R, {"close": True}, M,
              what="_Settings.loss(prediction) = loss_fn(data, prediction), both sides scaled by the data's mean/std")


# ----------------------------------------------------------------------------- models for residuals and fits
def influx(k):
    return k


def massaction(k, x):
    return k * x


def constant_rate(k):
    return k


def proportional(k, s):
    return k * s


MODELS = {
    # -> x -> y -> : steady state x = k1/k2, y = k1/k3; every parameter identifiable from (x, y, v1)
    "chain": {"pars": ["k1", "k2", "k3"], "vars": {"x": 1.0, "y": 0.5}, "varying": ["x", "y", "v2", "v3"]},
    # x' = k_in + a x with a NEGATIVE coefficient a (a parameter need not be positive)
    "lin": {"pars": ["k_in", "a"], "vars": {"x": 0.2}, "varying": ["x", "v_lin"]},
}


def build(mname, values):
    """model `mname` with parameter values and (for names that are variables) initial values from `values`"""
    from mxlpy import Model
    spec = MODELS[mname]
    init = {k: float(values.get(k, v)) for k, v in spec["vars"].items()}
    pars = {k: float(values[k]) for k in spec["pars"]}
    m = Model().add_variables(init).add_parameters(pars)
    if mname == "chain":
        return (m.add_reaction("v1", influx, args=["k1"], stoichiometry={"x": 1})
                .add_reaction("v2", massaction, args=["k2", "x"], stoichiometry={"x": -1, "y": 1})
                .add_reaction("v3", massaction, args=["k3", "y"], stoichiometry={"y": -1}))
    return (m.add_reaction("v_in", constant_rate, args=["k_in"], stoichiometry={"x": 1})
            .add_reaction("v_lin", proportional, args=["a", "x"], stoichiometry={"x": 1}))


def chain_model(k1, k2, k3):
    return build("chain", {"k1": k1, "k2": k2, "k3": k3})


def fingerprint(model):
    """everything a caller can see of a model: values through the cache AND the raw containers behind it, and what a
    fresh copy computes once its cache is rebuilt (a write into a shared container shows up at the latest there)"""
    import copy
    twin = copy.deepcopy(model)
    pname = next(iter(twin.get_parameter_names()))
    twin.update_parameter(pname, twin.get_parameter_values()[pname])  # same value: only drops the cache
    state = {k: 2.0 + i for i, k in enumerate(model.get_variable_names())}
    return {"pars": {k: repr(v) for k, v in model.get_parameter_values().items()},
            "init": {k: repr(v) for k, v in model.get_initial_conditions().items()},
            "raw_vars": {k: repr(v.initial_value) for k, v in model.get_raw_variables().items()},
            "raw_pars": {k: repr(v.value) for k, v in model.get_raw_parameters().items()},
            "init_after_cache_rebuild": {k: repr(v) for k, v in twin.get_initial_conditions().items()},
            "rxn": list(model.get_reaction_names()),
            "rhs": [repr(float(x)) for x in model.get_right_hand_side(state, time=0.0)]}


TIME = {"chain": (4.0, 9), "lin": (2.0, 11)}


def simulate_kind(kind, model, mname, true, index=None):
    """(combined frame / series, protocol) of `model` for the data shape `kind`"""
    import numpy as np
    from mxlpy import Simulator, make_protocol
    if kind == "steady_state":
        res = Simulator(model).simulate_to_steady_state().get_result().unwrap_or_err()
        return res.get_combined().iloc[-1], None
    t_end, n = TIME[mname]
    if kind == "time_course":
        tp = np.linspace(0, t_end, n) if index is None else np.array(index, dtype=float)
        res = Simulator(model).simulate_time_course(tp).get_result().unwrap_or_err()
        return res.get_combined(), None
    first = MODELS[mname]["pars"][0]
    proto = make_protocol([(t_end / 2, {first: true[first]}), (t_end / 2, {first: 2 * true[first]})])
    tp = np.linspace(t_end / 8, t_end, 8) if index is None else np.array(index, dtype=float)
    res = Simulator(model).simulate_protocol_time_course(protocol=proto, time_points=tp).get_result().unwrap_or_err()
    comb = res.get_combined()
    return comb.loc[[t for t in comb.index if any(abs(t - u) < 1e-12 for u in tp)]], proto


def make_data(kind, true, mname="chain"):
    return simulate_kind(kind, build(mname, true), mname, true)


def hand_loss(name, d, p):
    """the loss between data d and prediction p (flat float arrays), written out independently of fit/losses.py"""
    import numpy as np
    if name == "mean_squared":
        return float(np.mean((d - p) ** 2))
    if name == "rmse":
        return float(np.sqrt(np.mean((d - p) ** 2)))
    if name == "mae":
        return float(np.mean(np.abs(p - d)))
    if name == "mean_absolute_percentage":
        return float(100 * np.mean(np.abs((p - d) / d)))
    if name == "mean_squared_logarithmic":
        return float(np.mean((np.log(d + 1) - np.log(p + 1)) ** 2))
    raise ValueError(name)


def hand_residual(c, data, values, true):
    """the property's own words: simulate the model at the candidate values, take the data's columns BY LABEL, scale
    both sides with the data's per-label mean/std if asked, apply the loss.  Independent of fit/routines.py."""
    import numpy as np
    vals = dict(true)
    if c.get("y0"):
        vals.update({k: float(F(v)) for k, v in c["y0"].items()})
    vals.update(values)
    pred, _ = simulate_kind(c["kind"], build(c["model"], vals), c["model"], true,
                            index=None if c["kind"] == "steady_state" else list(data.index))
    labels = list(data.index) if c["kind"] == "steady_state" else list(data.columns)
    if c["kind"] == "steady_state":
        d = np.array([float(data[k]) for k in labels])
        p = np.array([float(pred[k]) for k in labels])
        if c["scaled"]:
            mu, sd = d.mean(), (d.std(ddof=1) if len(d) > 1 else float("nan"))
            sd = sd if sd > 0 else 1.0  # no spread (constant / single value): compared unscaled
            d, p = (d - mu) / sd, (p - mu) / sd
    else:
        cols_d, cols_p = [], []
        for k in labels:
            dk, pk = data[k].to_numpy(dtype=float), pred[k].to_numpy(dtype=float)
            if c["scaled"]:
                mu, sd = dk.mean(), (dk.std(ddof=1) if len(dk) > 1 else float("nan"))
                sd = sd if sd > 0 else 1.0
                dk, pk = (dk - mu) / sd, (pk - mu) / sd
            cols_d.append(dk)
            cols_p.append(pk)
        d, p = np.concatenate(cols_d), np.concatenate(cols_p)
    return hand_loss(c["loss"], d, p)


def settings_for(kind, model, data, proto, loss, scaled, p0, y0=None):
    from mxlpy.fit import losses
    from mxlpy.fit.abstract import _Settings
    pn, vn = model.get_parameter_names(), model.get_variable_names()
    return _Settings(model=model, data=data, y0=y0, integrator=None, loss_fn=getattr(losses, loss),
                     p_names=[i for i in p0 if i in pn], v_names=[i for i in p0 if i in vn], standard_scale=scaled,
                     protocol=proto)


def real_fit_case(c):
    """residuals at the true and at other candidate values vs the by-hand residual; optionally a full fit with a
    recording scipy minimiser"""
    import copy
    import logging
    import warnings

    import scipy.optimize
    logging.getLogger("mxlpy").setLevel(logging.ERROR)
    warnings.filterwarnings("ignore")
    from mxlpy import fit
    from mxlpy.fit import losses, routines
    from mxlpy.minimizers import _scipy as ms

    c = {"model": "chain", **c}
    mname = c["model"]
    true = {k: float(F(v)) for k, v in c["true"].items()}
    kind = c["kind"]
    data, proto = make_data(kind, true, mname)
    if c.get("cols"):
        data = data[c["cols"]]  # selection AND order are the user's
    if kind != "steady_state" and c["loss"] == "mean_absolute_percentage":
        data = data.loc[:, [col for col in data.columns if (data[col].abs() > 1e-9).all()]]
    y0 = {k: float(F(v)) for k, v in c["y0"].items()} if c.get("y0") else None
    resid = {"steady_state": routines.steady_state_residual, "time_course": routines.time_course_residual,
             "protocol": routines.protocol_time_course_residual}[kind]
    fitfn = {"steady_state": fit.steady_state, "time_course": fit.time_course, "protocol": fit.protocol_time_course}[kind]
    out = {}
    # the by-hand residual is defined where the scaling is (every measured column varies) and the loss has its domain
    hand_ok = True
    if c["scaled"]:
        hand_ok = c["loss"] not in ("mean_squared_logarithmic", "mean_absolute_percentage")
    with _np_quiet():
        fitted = list(c["p0"]) if c.get("p0") else list(true)
        truth = {k: true[k] for k in fitted} if c.get("p0") else dict(true)
        st = settings_for(kind, build(mname, true), data, proto, c["loss"], c["scaled"], truth, y0)
        out["resid_true"] = float(resid(dict(truth), st))
        if c.get("other") and hand_ok:
            other = {k: float(F(v)) for k, v in c["other"].items()}
            st = settings_for(kind, build(mname, true), data, proto, c["loss"], c["scaled"], other, y0)
            out["resid_other"] = float(resid(dict(other), st))
            out["hand_other"] = hand_residual(c, data, other, true)
            if not math.isfinite(out["hand_other"]):  # outside the loss's domain (log of a non-positive number ...)
                del out["hand_other"], out["resid_other"]
        if not c.get("fit"):
            return out
        p0 = {k: float(F(v)) for k, v in c["p0"].items()}
        rec = {}

        def recording_minimize(fun, x0, **kw):
            vals = {}

            def g(x):
                v = fun(x)
                vals[tuple(float(t) for t in x)] = float(v)
                return v

            res = scipy.optimize.minimize(g, x0=x0, **kw)
            rec.update(x0=[float(t) for t in x0], x=[float(t) for t in res.x], fun=float(res.fun), success=bool(res.success),
                       g_at_x=vals.get(tuple(float(t) for t in res.x)), g_at_x0=vals.get(tuple(float(t) for t in x0)),
                       bounds=[list(b) for b in kw.get("bounds") or []])
            return res

        model = build(mname, {**true, **p0})
        before = fingerprint(model)
        twin = copy.deepcopy(model)
        args_before = (dict(p0), None if y0 is None else dict(y0), data.copy())
        old = ms.minimize
        ms.minimize = recording_minimize
        try:
            kw = dict(p0=p0, data=data, minimizer=fit.LocalScipyMinimizer(tol=1e-8, method=c.get("method", "L-BFGS-B")),
                      loss_fn=getattr(losses, c["loss"]), standard_scale=c["scaled"])
            if c.get("bounds"):
                kw["bounds"] = {k: tuple(float(F(t)) for t in v) for k, v in c["bounds"].items()}
            if y0 is not None:
                kw["y0"] = y0
            if kind == "protocol":
                kw["protocol"] = proto
            try:
                res = fitfn(model, **kw)
            except Exception as e:  # noqa: BLE001  scipy's optimisers can raise from inside a line search
                res = None
                out["raised"] = type(e).__name__
        finally:
            ms.minimize = old
        out["after_equal"] = fingerprint(model) == before
        out["args_untouched"] = (p0 == args_before[0] and y0 == args_before[1] and data.equals(args_before[2]))
        out["rec"] = rec
        if res is None:
            return out
        val = res.value
        if type(val).__name__ == "Fit":
            best = {k: float(v) for k, v in val.best_pars.items()}
            out["fit"] = {"best": [[k, v] for k, v in best.items()], "loss": float(val.loss),
                          "returned_model_is_input": val.model is model}
            st2 = settings_for(kind, copy.deepcopy(twin), data, proto, c["loss"], c["scaled"], p0, y0)
            out["resid_best"] = float(resid(dict(best), st2))
            st3 = settings_for(kind, copy.deepcopy(twin), data, proto, c["loss"], c["scaled"], p0, y0)
            out["resid_p0"] = float(resid(dict(p0), st3))
            if hand_ok:
                out["hand_best"] = hand_residual(c, data, best, true)
                if not math.isfinite(out["hand_best"]):
                    del out["hand_best"]
        else:
            out["fit"] = type(val).__name__
    return out


BOUNDED_METHODS = {"L-BFGS-B", "Nelder-Mead", "Powell", "TNC", "SLSQP", "trust-constr", "COBYLA", "COBYQA"}


def judge_boxes(ctx, c, rec, local):
    """the boxes recorded at the scipy entry point, entry by entry in the order of p0: the caller's box for a name that has
    one (S, from the request); for the others whatever the shipped default rule gives (M: `fillBoundsLocal` / `fillBounds`
    with the generated constants) — and, for the local minimiser, never a default box that excludes the start value"""
    fl = lambda t: None if t is None else float(t)  # noqa: E731
    want = [[float(F(t)) for t in c["bounds"][k]] if k in (c.get("bounds") or {}) else None for k in c["p0"]]
    Rb = [[fl(t) for t in b] for b in rec["bounds"]]
    Mb = None
    if ctx.driver_ok:
        rq = {"names": list(c["p0"]), "given": [[k, v] for k, v in (c.get("bounds") or {}).items()]}
        if local:
            rq["values"] = [q(F(x)) for x in rec["x0"]]
        (mb,) = driver.call_batch([{"op": "c20", "bounds": rq}])
        Mb = [[None if t is None else float(F(t)) for t in b] for b in mb]
    Sb = [w if w is not None else (Mb[i] if Mb is not None else Rb[i]) for i, w in enumerate(want)]
    R = {"boxes": Rb}
    S = {"boxes": Sb}
    M = None if Mb is None else {"boxes": Mb}
    if local:
        inside = [w is not None or ((lo is None or lo <= x) and (hi is None or x <= hi)) for w, x, (lo, hi) in zip(want, rec["x0"], Rb)]
        R["default_box_holds_the_start"], S["default_box_holds_the_start"] = all(inside), True
        if M is not None:
            M["default_box_holds_the_start"] = True
    ctx.judge({"stream": "bounds", **c}, R, S, M, what="boxes passed to scipy follow the names of p0; a default box never excludes the start")


def start_outside_bounds(c, rec) -> bool:
    """the class of F-C20-4: a bounds-respecting method whose start value lies outside the (default) box"""
    if c.get("method", "L-BFGS-B") not in BOUNDED_METHODS or not rec.get("bounds"):
        return False
    return any((lb is not None and x < lb) or (ub is not None and x > ub) for x, (lb, ub) in zip(rec["x0"], rec["bounds"]))


def powell_from_edge(c, rec) -> bool:
    """the class of F-C20-5: scipy's bounded Powell started with a coordinate exactly on the edge of its box"""
    if c.get("method") != "Powell" or not rec.get("bounds"):
        return False
    return any(x == lb or x == ub for x, (lb, ub) in zip(rec["x0"], rec["bounds"]))


def judge_fit(ctx, c, r):
    c = {"model": "chain", **c}
    if r.get("timeout"):
        ctx.hist["fit_timeout_skipped"] = ctx.hist.get("fit_timeout_skipped", 0) + 1
        return
    tags = [c["model"], c["kind"], c["loss"], "scaled" if c["scaled"] else "plain"]
    if c.get("cols"):
        tags.append("cols-reordered" if c["cols"] != sorted(c["cols"], key=(MODELS[c["model"]]["varying"] + ["v1", "v_in"]).index) else "cols-subset")
    if c.get("fit"):
        tags += [c.get("method", "L-BFGS-B"), "bounds" if c.get("bounds") else "default-bounds"]
        if any(k in MODELS[c["model"]]["vars"] for k in c["p0"]):
            tags.append("fits-initial-value")
        if c.get("y0"):
            tags.append("y0")
    ctx.count(c, ("fit:" if c.get("fit") else "resid:") + ":".join(tags))
    # residual at the true parameters (data generated by the model itself)
    small = 1e-3 if c["kind"] == "steady_state" else 1e-5  # steady state: stop criterion 1e-6 per 100 time units
    ctx.judge({"stream": "resid", **c}, {"residual_at_truth_small": abs(r["resid_true"]) <= small},
              {"residual_at_truth_small": True}, None, finding="F-C20-3" if c.get("degenerate") else None,
              what="residual(true parameters) ~ 0")
    if "resid_other" in r:
        ok = abs(r["resid_other"] - r["hand_other"]) <= 1e-8 * max(1.0, abs(r["hand_other"]))
        ctx.judge({"stream": "resid", **c}, {"residual_is_loss_of_prediction": ok}, {"residual_is_loss_of_prediction": True},
                  None, what=f"residual(candidate) = {r['resid_other']!r} vs loss(data, simulated prediction) by hand = {r['hand_other']!r}")
    if not c.get("fit"):
        return
    rec = r["rec"]
    if "raised" in r:  # an exception out of scipy is not a fit; the caller's objects must still be as they were
        ctx.hist["fit_raised_inside_scipy"] = ctx.hist.get("fit_raised_inside_scipy", 0) + 1
        ctx.judge({"stream": "fit", **c}, {"input_untouched": r["after_equal"], "arguments_untouched": r["args_untouched"]},
                  {"input_untouched": True, "arguments_untouched": True}, None, what=f"fit raised {r['raised']}")
        return
    ctx.hist["fit_failed" if isinstance(r["fit"], str) else "fit_succeeded"] = ctx.hist.get(
        "fit_failed" if isinstance(r["fit"], str) else "fit_succeeded", 0) + 1
    if isinstance(r["fit"], str):  # minimiser reported failure: must be a failure value, and the input untouched
        R = {"result": r["fit"], "input_untouched": r["after_equal"], "arguments_untouched": r["args_untouched"]}
        S = {"result": "FitFailure", "input_untouched": True, "arguments_untouched": True}
        M = None
        if ctx.driver_ok and not rec.get("success", True):
            (mv,) = driver.call_batch([{"op": "c20", "fit": {"p0": [[k, q(F(v))] for k, v in c["p0"].items()], "res": None}}])
            M = {"result": "FitFailure" if mv is None else "Fit", "input_untouched": True, "arguments_untouched": True}
        ctx.judge({"stream": "fit", **c}, R, S, M, what="failed minimisation is reported as failure")
        return
    f = r["fit"]
    outside = start_outside_bounds(c, rec)
    tolr = 1e-9 * max(1.0, abs(f["loss"]))
    R = {"loss_is_residual_at_best": abs(f["loss"] - r["resid_best"]) <= tolr,
         "loss_le_residual_p0": f["loss"] <= r["resid_p0"] + tolr,
         "names": [k for k, _ in f["best"]], "input_untouched": r["after_equal"],
         "arguments_untouched": r["args_untouched"], "works_on_a_copy": not f["returned_model_is_input"]}
    S = {"loss_is_residual_at_best": True, "loss_le_residual_p0": True, "names": list(c["p0"]),
         "input_untouched": True, "arguments_untouched": True, "works_on_a_copy": True}
    if c.get("bounds") and c.get("method", "L-BFGS-B") in BOUNDED_METHODS:
        # each reported value lies in the box the caller gave FOR THAT NAME
        slack = 1e-9
        R["best_within_requested_bounds"] = all(
            float(F(c["bounds"][k][0])) - slack <= v <= float(F(c["bounds"][k][1])) + slack for k, v in f["best"] if k in c["bounds"])
        S["best_within_requested_bounds"] = True
    if "hand_best" in r:
        R["loss_is_loss_of_prediction_at_best"] = abs(f["loss"] - r["hand_best"]) <= 1e-8 * max(1.0, abs(r["hand_best"]))
        S["loss_is_loss_of_prediction_at_best"] = True
    fid = "F-C20-4" if outside else ("F-C20-5" if powell_from_edge(c, rec) else None)
    ctx.judge({"stream": "fit", **c}, R, S, None, finding=fid,
              what=f"fit.* result: honest loss {f['loss']!r} (recomputed {r['resid_best']!r}, at p0 {r['resid_p0']!r}), input untouched")
    # minimiser contract (trusted assumption of C20_fit_honest) on the recorded scipy result
    contract = {"fun_is_objective_at_x": rec["g_at_x"] is not None and abs(rec["g_at_x"] - rec["fun"]) <= tolr,
                "fun_le_start": (rec["g_at_x0"] is not None or outside) and rec["fun"] <= r["resid_p0"] + tolr,
                "dimension": len(rec["x"]) == len(rec["x0"])}
    ctx.judge({"stream": "contract", **c}, contract, {k: True for k in contract}, None, finding=fid,
              what="scipy.optimize.minimize honours MinimiserContract on this run")
    # the boxes handed to scipy, entry by entry in the order of p0
    judge_boxes(ctx, c, rec, local=True)
    # wrapper chain vs the Lean fitWrap/localScipyCall on the recorded result
    if ctx.driver_ok:
        (mv,) = driver.call_batch([{"op": "c20", "fit": {"p0": [[k, q(F(v))] for k, v in c["p0"].items()],
                                                         "res": [[q(F(x)) for x in rec["x"]], q(F(rec["fun"]))]}}])
        Rw = {"best": [[k, q(F(v))] for k, v in f["best"]], "loss": q(F(f["loss"]))}
        ctx.judge({"stream": "wrap", **c}, Rw, {"best": [[k, q(F(x))] for k, x in zip(c["p0"], rec["x"])], "loss": q(F(rec["fun"]))},
                  mv, what="Fit(best_pars, loss) = names of p0 zipped with res.x, res.fun")


def gen_true(rng, mname):
    if mname == "chain":
        while True:
            t = {"k1": q(rng.choice([1, 2, F(3, 2)])), "k2": q(rng.choice([1, 2, 4])), "k3": q(rng.choice([F(1, 2), 1, 2]))}
            if not (F(t["k1"]) / F(t["k2"]) == 1 and F(t["k1"]) / F(t["k3"]) == F(1, 2)):  # would start AT the steady state
                return t
    return {"k_in": q(rng.choice([1, 2])), "a": q(rng.choice([-1, -2, F(-1, 2)]))}


def gen_cols(rng, mname, kind, loss):
    """the user's choice of measured columns, in the user's order (None = everything the model produces)"""
    if kind == "steady_state" or rng.random() < 0.35:
        return None
    pool = list(MODELS[mname]["varying"])
    if loss == "mean_squared_logarithmic" and mname == "lin":
        pool = ["x"]  # v_lin is negative: outside the domain of log(1 + .)
    cols = rng.sample(pool, rng.randint(min(2, len(pool)), len(pool)))
    return cols


def gen_fit_cases(ctx):
    rng = ctx.rng
    cases = []
    kinds = ["steady_state", "time_course", "protocol"]
    for kind in kinds:
        for loss in GOOD:
            for scaled in (False, True):
                mname = "chain" if (kind == "steady_state" or rng.random() < 0.7) else "lin"
                true = gen_true(rng, mname)
                c = {"model": mname, "kind": kind, "loss": loss, "scaled": scaled, "true": true}
                cols = gen_cols(rng, mname, kind, loss)
                if cols:
                    c["cols"] = cols
                if cols or kind == "steady_state" or not scaled:
                    # a candidate away from the truth: the residual must be the loss of THAT prediction
                    c["other"] = {k: q(F(v) * rng.choice([F(3, 4), F(5, 4), F(3, 2)])) for k, v in true.items()}
                    if kind == "steady_state" and scaled:
                        del c["other"]  # scaled steady-state data contains the constant flux columns
                if "other" in c and kind != "steady_state" and rng.random() < 0.4:
                    # nominal initial conditions passed as y0 AND the start value of x among the candidate values
                    c["y0"] = {k: q(rng.choice([1, 2, F(1, 2)])) for k in MODELS[mname]["vars"]}
                    c["other"]["x"] = q(rng.choice([F(3, 2), 3, F(1, 4)]))
                    rest = -F(true["k_in"]) / F(true["a"]) if mname == "lin" else F(true["k1"]) / F(true["k2"])
                    if F(c["y0"]["x"]) == rest:  # would start AT the steady state: constant data
                        c["y0"]["x"] = q(rest + 1)
                    c["true"] = {**true, **c["y0"]}
                cases.append(c)
    # degenerate standard scaling (the default): a single measured value has std NaN, constant data has std 0
    other = {"k1": "3/2", "k2": "3", "k3": "2"}
    cases += [{"kind": "steady_state", "loss": "rmse", "scaled": True, "true": {"k1": "1", "k2": "2", "k3": "1"},
               "cols": ["x"], "degenerate": True, "other": other},
              {"kind": "time_course", "loss": "rmse", "scaled": True, "true": {"k1": "1", "k2": "2", "k3": "1"},
               "cols": ["v1"], "degenerate": True, "other": other},
              {"kind": "time_course", "loss": "mean_squared", "scaled": True, "true": {"k1": "1", "k2": "2", "k3": "1"},
               "cols": ["x", "v1", "y"], "degenerate": True, "other": other},  # a constant column among others
              {"kind": "time_course", "loss": "mae", "scaled": True, "true": {"k1": "2", "k2": "2", "k3": "4"},
               "degenerate": True, "other": other},  # starts AT the steady state: every column constant
              {"kind": "steady_state", "loss": "rmse", "scaled": False, "true": {"k1": "1", "k2": "2", "k3": "1"},
               "cols": ["x"]}]
    pert = [F(3, 4), F(5, 4), F(3, 2)]
    nfit = ctx.n(12, 72)
    for i in range(nfit):
        style = ["params", "initial", "negative", "params", "y0", "negative", "initial+y0", "params"][i % 8]
        kind = kinds[i % 3] if style == "params" else rng.choice(["time_course", "protocol"])
        loss = rng.choice(["rmse", "rmse", "mean_squared", "mae"])
        c = {"kind": kind, "loss": loss, "scaled": rng.random() < 0.5, "fit": True}
        if style == "negative":
            # a coefficient that is negative; methods that ignore bounds find it, bounded ones need a box that holds it
            c.update(model="lin", kind="time_course", loss="mean_squared", method=rng.choice(["BFGS", "CG", "L-BFGS-B"]))
            true = gen_true(rng, "lin")
            names = rng.choice([["a"], ["a", "k_in"]])
            p0 = {n: q(F(true[n]) * rng.choice(pert)) for n in names}
            if c["method"] == "L-BFGS-B" or rng.random() < 0.3:
                c["bounds"] = {n: [q(F(-10)), q(F(10))] for n in names}
        else:
            c["model"] = "chain"
            true = gen_true(rng, "chain")
            names = rng.sample(["k1", "k2", "k3"], rng.choice([1, 2]))
            if kind == "protocol":
                names = [n for n in names if n != "k1"] or ["k2"]  # k1 is driven by the protocol
            p0 = {n: q(F(true[n]) * rng.choice(pert)) for n in sorted(names)}
            c["method"] = rng.choice(["L-BFGS-B", "L-BFGS-B", "Nelder-Mead", "Powell"])
            if style in ("initial", "initial+y0"):  # fit a start value as well: p0 names a VARIABLE
                true = {**true, "x": q(rng.choice([2, 3]))}
                p0["x"] = q(F(true["x"]) * rng.choice(pert))
            if style == "y0":  # initial conditions supplied by the caller
                c["y0"] = {"x": q(rng.choice([2, 3])), "y": q(rng.choice([1, F(1, 4)]))}
                true = {**true, **c["y0"]}
            if style == "initial+y0":
                # the caller passes the nominal initial conditions of ALL variables and fits one of them: the candidate
                # value of the fitted variable is what gets simulated
                c["y0"] = {"x": q(rng.choice([1, F(5, 2)])), "y": q(rng.choice([1, F(1, 4)]))}
                true = {**true, "y": c["y0"]["y"]}
            if rng.random() < 0.6 or c["method"] != "L-BFGS-B":
                # boxes as the caller writes them: any subset of the fitted names, in any order; a box may exclude
                # the true value (then the fit has to stop at its edge)
                names_b = [n for n in p0 if rng.random() < 0.7] or [list(p0)[-1]]
                rng.shuffle(names_b)
                c["bounds"] = {}
                for n in names_b:
                    t = abs(F(true[n]))
                    lo, hi = rng.choice([(t / 100, t * 100), (t / 4, t * 4), (t * F(9, 8), t * 3), (t / 3, t * F(7, 8))])
                    if not lo <= F(p0[n]) <= hi:
                        lo, hi = min(lo, F(p0[n])), max(hi, F(p0[n]))
                    c["bounds"][n] = [q(lo), q(hi)]
                if c["method"] != "L-BFGS-B":
                    for n in p0:  # Nelder-Mead / Powell wander: keep every fitted name in a sane box
                        c["bounds"].setdefault(n, [q(abs(F(true[n])) / 100), q(abs(F(true[n])) * 100)])
        cols = gen_cols(rng, c["model"], c["kind"], c["loss"])
        if cols:
            c["cols"] = cols
        c.update(true=true, p0=p0)
        cases.append(c)
    # F-C20-5: scipy's bounded Powell started on the edge of a box ends worse than it started, and says "success"
    cases.append({"model": "chain", "kind": "protocol", "loss": "rmse", "scaled": True, "fit": True, "method": "Powell",
                  "bounds": {"k3": ["1/200", "50"], "k2": ["3/2", "6"], "x": ["9/4", "6"]}, "cols": ["v2", "v3", "x", "y"],
                  "true": {"k1": "1", "k2": "2", "k3": "1/2", "x": "2"}, "p0": {"k2": "3/2", "k3": "3/4", "x": "3"}})
    # F-C20-4: a start value outside the silently applied default box (1e-6, 1e6)
    cases.append({"model": "lin", "kind": "time_course", "loss": "mean_squared", "scaled": False, "fit": True,
                  "method": "L-BFGS-B", "true": {"k_in": "1", "a": "-1"}, "p0": {"a": "-1/2"}})
    return cases


# ----------------------------------------------------------------------------- the wrapper chain on a cheap residual
def quad_residual(updates, settings):
    """a residual the caller supplies through the public `residual_fn=`: squared distance to the targets in `data`"""
    return float(sum((float(updates[k]) - float(settings.data[k])) ** 2 for k in settings.data.index))


def gen_quad_case(rng):
    names = rng.sample(["k1", "k2", "k3", "x", "y"], rng.randint(2, 4))
    target = {n: rng.choice([F(1, 2), 1, 2, 3, 5]) for n in names}
    p0 = {n: q(target[n] * rng.choice([F(3, 4), F(5, 4), F(3, 2), 1])) for n in names}
    c = {"quad": True, "kind": rng.choice(["steady_state", "time_course", "protocol"]), "p0": p0,
         "target": {n: q(v) for n, v in target.items()}, "method": rng.choice(["L-BFGS-B", "L-BFGS-B", "Nelder-Mead", "Powell", "TNC", "SLSQP"])}
    if rng.random() < 0.3:
        # the global optimisers; they are started from the boxes, so every fitted name gets one around the target
        c["global"] = rng.choice(["differential_evolution", "shgo", "dual_annealing", "direct", "basinhopping"])
        c["np_seed"] = rng.randrange(1 << 16)
        order = list(names)
        rng.shuffle(order)  # the caller's order, not p0's
        c["bounds"] = {}
        for n in order:
            t = target[n]
            lo, hi = rng.choice([(t / 4, t * 4), (t / 2, t * 2), (t * F(9, 8), t * 3)])
            lo, hi = min(lo, F(p0[n])), max(hi, F(p0[n]))
            c["bounds"][n] = [q(lo), q(hi)]
        return c
    if rng.random() < 0.8:
        names_b = [n for n in names if rng.random() < 0.6] or [names[-1]]
        rng.shuffle(names_b)  # the caller's order, not p0's
        c["bounds"] = {}
        for n in names_b:
            t = target[n]
            lo, hi = rng.choice([(t / 10, t * 10), (t * F(9, 8), t * 3), (t / 3, t * F(7, 8)), (t / 2, t * 2)])
            lo, hi = min(lo, F(p0[n])), max(hi, F(p0[n]))
            c["bounds"][n] = [q(lo), q(hi)]
    return c


def real_quad_case(c):
    import logging
    import warnings

    import pandas as pd
    import scipy.optimize
    logging.getLogger("mxlpy").setLevel(logging.ERROR)
    logging.getLogger().setLevel(logging.ERROR)  # scipy's shgo reports through the root logger
    warnings.filterwarnings("ignore")
    from mxlpy import fit, make_protocol
    from mxlpy.minimizers import _scipy as ms
    p0 = {k: float(F(v)) for k, v in c["p0"].items()}
    data = pd.Series({k: float(F(v)) for k, v in c["target"].items()})
    rec = {}

    def recording_minimize(fun, x0, **kw):
        res = scipy.optimize.minimize(fun, x0=x0, **kw)
        rec.update(x0=[float(t) for t in x0], x=[float(t) for t in res.x], fun=float(res.fun), success=bool(res.success),
                   bounds=[list(b) for b in kw.get("bounds") or []])
        return res

    def recording_global(name):
        real = getattr(scipy.optimize, name)

        def f(fun, *a, **kw):
            res = real(fun, *a, **kw)
            rec.update(x0=list(p0.values()), x=[float(t) for t in res.x], fun=float(res.fun), success=bool(res.success),
                       bounds=None if not a else [[float(t) for t in b] for b in a[0]])
            return res
        return f

    model = build("chain", {"k1": 1.0, "k2": 2.0, "k3": 1.0})
    before = fingerprint(model)
    fitfn = {"steady_state": fit.steady_state, "time_course": fit.time_course, "protocol": fit.protocol_time_course}[c["kind"]]
    kw = dict(p0=p0, data=data, minimizer=fit.LocalScipyMinimizer(tol=1e-10, method=c["method"]), residual_fn=quad_residual)
    if c.get("global"):
        import numpy as np
        np.random.seed(c["np_seed"])  # the stochastic global methods draw from numpy's global generator
        kw["minimizer"] = ms.GlobalScipyMinimizer(method=c["global"])
    if c.get("bounds"):
        kw["bounds"] = {k: tuple(float(F(t)) for t in v) for k, v in c["bounds"].items()}
    if c["kind"] == "protocol":
        kw["protocol"] = make_protocol([(1, {"k1": 1.0})])
    glob = ["basinhopping", "differential_evolution", "shgo", "dual_annealing", "direct"]
    old = ms.minimize
    old_glob = {g: getattr(ms, g) for g in glob}
    ms.minimize = recording_minimize
    for g in glob:
        setattr(ms, g, recording_global(g))
    out = {}
    try:
        try:
            res = fitfn(model, **kw)
        except Exception as e:  # noqa: BLE001
            return {"raised": type(e).__name__, "rec": rec, "after_equal": fingerprint(model) == before}
    finally:
        ms.minimize = old
        for g in glob:
            setattr(ms, g, old_glob[g])
    out["rec"] = rec
    out["after_equal"] = fingerprint(model) == before
    val = res.value
    if type(val).__name__ == "Fit":
        out["fit"] = {"best": [[k, float(v)] for k, v in val.best_pars.items()], "loss": float(val.loss)}
    else:
        out["fit"] = type(val).__name__
    return out


def judge_quad(ctx, c, r):
    ctx.count(c, f"wrapper:{c['kind']}:{c.get('global') or c['method']}:{len(c['p0'])}names:" + (
        "no-bounds" if not c.get("bounds") else ("bounds-in-p0-order" if list(c["bounds"]) == [k for k in c["p0"] if k in c["bounds"]]
                                                 and list(c["p0"])[: len(c["bounds"])] == list(c["bounds"]) else "bounds-other-order/subset")))
    rec = r["rec"]
    if rec.get("bounds") is not None and "x0" in rec:
        judge_boxes(ctx, c, rec, local=not c.get("global"))
    if "raised" in r or isinstance(r.get("fit"), str):
        # a FitFailure value is an honest outcome; an exception out of a shipped minimiser on a well-formed request is not
        ctx.judge({"stream": "quad", **c}, {"input_untouched": r["after_equal"], "raised": r.get("raised")},
                  {"input_untouched": True, "raised": None}, None,
                  what="a minimisation that does not succeed is a FitFailure value (no exception) and leaves the input alone")
        return
    f = r["fit"]
    tgt = {k: float(F(v)) for k, v in c["target"].items()}
    quad = lambda d: sum((d[k] - tgt[k]) ** 2 for k in tgt)  # noqa: E731
    best = dict(f["best"])
    tolr = 1e-12 * max(1.0, abs(f["loss"]))
    glob = c.get("global")
    R = {"loss_is_residual_at_best": abs(f["loss"] - quad(best)) <= tolr,
         # the global optimisers do not start from p0: nothing is promised relative to it
         "loss_le_residual_p0": True if glob else f["loss"] <= quad({k: float(F(v)) for k, v in c["p0"].items()}) + tolr,
         "names": list(best), "input_untouched": r["after_equal"],
         "best_within_requested_bounds": all(float(F(c["bounds"][k][0])) - 1e-9 <= v <= float(F(c["bounds"][k][1])) + 1e-9
                                             for k, v in best.items() if k in (c.get("bounds") or {}))}
    S = {"loss_is_residual_at_best": True, "loss_le_residual_p0": True, "names": list(c["p0"]), "input_untouched": True,
         "best_within_requested_bounds": True}
    ctx.judge({"stream": "quad", **c}, R, S, None,
              what="fit.* through a caller-supplied residual: honest loss, names, boxes respected")
    if ctx.driver_ok:
        (mv,) = driver.call_batch([{"op": "c20", "fit": {"p0": [[k, q(F(v))] for k, v in c["p0"].items()],
                                                         "res": [[q(F(x)) for x in rec["x"]], q(F(rec["fun"]))]}}])
        Rw = {"best": [[k, q(F(v))] for k, v in f["best"]], "loss": q(F(f["loss"]))}
        ctx.judge({"stream": "wrap", **c}, Rw, {"best": [[k, q(F(x))] for k, x in zip(c["p0"], rec["x"])], "loss": q(F(rec["fun"]))},
                  mv, what="Fit(best_pars, loss) = names of p0 zipped with res.x, res.fun")


# ----------------------------------------------------------------------------- the drivers with a scripted minimiser
class ScriptedMinimizer:
    """deterministic stand-in for an optimiser, passed through the public `minimizer=`: evaluates the residual at p0 and
    then at every scripted candidate of the right dimension, in order, and reports the FIRST point with the least value
    (Lean: `scriptedMinimise`).  `fail`: report FitFailure after the evaluations; `fail_if_start_inf`: ... when the start
    cannot be simulated."""

    def __init__(self, cands, fail=False, fail_if_start_inf=False):
        self.cands, self.fail, self.fail_if_start_inf, self.trace = cands, fail, fail_if_start_inf, []

    def __call__(self, residual_fn, p0, bounds):
        from mxlpy.minimizers.abstract import OptimisationState
        from mxlpy.types import FitFailure, Result
        names = list(p0)
        best_x = [float(v) for v in p0.values()]
        start_f = best_f = float(residual_fn(dict(zip(names, best_x))))
        self.trace = [(list(best_x), best_f)]
        for c in self.cands:
            if len(c) != len(names):
                continue
            f = float(residual_fn(dict(zip(names, c))))
            self.trace.append((list(c), f))
            if not best_f <= f:
                best_x, best_f = list(c), f
        if self.fail or (self.fail_if_start_inf and start_f == float("inf")):
            return Result(FitFailure(extra_info=["scripted failure"]))
        return Result(OptimisationState(parameters=dict(zip(names, best_x)), residual=best_f))


def ext(x) -> str:
    x = float(x)
    return "inf" if x == float("inf") else q(F(x))


def vals_of(model):
    return {"pars": [[k, ext(v)] for k, v in model.get_parameter_values().items()],
            "vars": [[k, ext(v)] for k, v in model.get_initial_conditions().items()]}


FIT_FN = {"steady_state": "steady_state", "time_course": "time_course", "protocol": "protocol_time_course"}


def gen_driver_case(rng):
    kind = rng.choice(["steady_state", "time_course", "protocol"])
    true = {"k1": rng.choice([1.0, 2.0]), "k2": rng.choice([2.0, 1.5, 3.0]), "k3": rng.choice([1.0, 0.5])}
    pool = ["k2", "k3"] + (["k1"] if kind != "protocol" else [])
    names = rng.sample(pool, rng.randint(1, 2))
    if rng.random() < 0.45:
        names.append("x")  # an initial condition among the fitted names
    if rng.random() < 0.2:
        names.append("zz")  # neither a parameter nor a variable of the model
    rng.shuffle(names)
    truth = {**true, "x": 1.0, "zz": 7.0}
    p0 = {n: truth[n] * rng.choice([0.75, 1.25, 1.5]) for n in names}
    cands = []
    for _ in range(rng.randint(2, 4)):
        r = rng.random()
        if r < 0.3:
            cands.append([truth[n] for n in names])  # the truth itself
        elif r < 0.45 and kind == "steady_state" and "k2" in names:
            cands.append([-0.5 if n == "k2" else truth[n] for n in names])  # no steady state: residual inf
        elif r < 0.55:
            cands.append([truth[n] for n in names] + [1.0])  # wrong dimension: skipped
        else:
            cands.append([truth[n] * rng.choice([0.5, 0.875, 1.125, 2.0]) for n in names])
    if rng.random() < 0.5:
        cands.append([truth[n] * rng.choice([0.25, 3.0]) for n in names])  # a poor LAST evaluation
    y0 = rng.choice([None, None, {"y": 0.25}, {"x": 2.0, "y": 0.25}])
    if rng.random() < 0.06:
        y0 = {"nope": 1.0}
    return {"drv": True, "kind": kind, "model": "chain", "true": true, "p0": p0, "cands": cands, "y0": y0,
            "as_deepcopy": rng.random() < 0.5, "fail": rng.random() < 0.1, "loss": rng.choice(["rmse", "mean_squared", "mae"]),
            "scaled": rng.random() < 0.5, "cols": rng.choice([["x", "y"], ["y"], ["y", "x"]])}


def _hand_or_inf(c, data, values, true):
    try:
        return hand_residual(c, data, values, true)
    except Exception:  # noqa: BLE001  the simulation failed: the residual functions return inf
        return float("inf")


def real_driver_case(c):
    import logging
    import warnings
    logging.getLogger("mxlpy").setLevel(logging.ERROR)
    warnings.filterwarnings("ignore")
    from mxlpy import fit
    from mxlpy.fit import losses
    true = c["true"]
    full, proto = make_data(c["kind"], true)
    data = full[c["cols"]]
    model = build("chain", {"k1": true["k1"], "k2": 1.0, "k3": 2.0})
    before_vals, before_fp = vals_of(model), fingerprint(model)
    mini = ScriptedMinimizer(c["cands"], fail=c["fail"])
    kw = dict(p0=dict(c["p0"]), data=data, minimizer=mini, y0=None if c["y0"] is None else dict(c["y0"]),
              loss_fn=getattr(losses, c["loss"]), standard_scale=c["scaled"], as_deepcopy=c["as_deepcopy"])
    if c["kind"] == "protocol":
        kw["protocol"] = proto
    out = {"before": before_vals}
    try:
        res = getattr(fit, FIT_FN[c["kind"]])(model, **kw)
    except Exception as e:  # noqa: BLE001
        out.update(raised=type(e).__name__, caller=vals_of(model), trace=[[[ext(x) for x in xs], ext(f)] for xs, f in mini.trace])
        return out
    out["trace"] = [[[ext(x) for x in xs], ext(f)] for xs, f in mini.trace]
    out["nan"] = any(f != f for _, f in mini.trace)
    out["caller"] = vals_of(model)
    out["caller_fp_same"] = fingerprint(model) == before_fp
    val = res.value
    if type(val).__name__ != "Fit":
        out["fit"] = None
        return out
    out["fit"] = {"best": [[k, ext(v)] for k, v in val.best_pars.items()], "loss": ext(val.loss)}
    out["work"] = vals_of(val.model)
    out["same_object"] = val.model is model
    # the property's words, by hand: start values of the caller's model, y0, then the candidate
    base = {k: float(F(v)) for k, v in before_vals["pars"]}
    hc = {"kind": c["kind"], "model": "chain", "scaled": c["scaled"], "loss": c["loss"], "y0": None}
    y0 = c["y0"] or {}
    def by_hand(values):
        known = {k: v for k, v in values.items() if k in base or k in ("x", "y")}
        return _hand_or_inf(hc, data, {**base, **{"x": 1.0, "y": 0.5}, **y0, **known}, true)
    out["hand_best"] = by_hand({k: float(v) for k, v in val.best_pars.items()})
    out["hand_p0"] = by_hand(dict(c["p0"]))
    # the loss of the model object that was handed back, as it is (no further updates)
    s = settings_for(c["kind"], val.model, data, proto, c["loss"], c["scaled"], {})
    resid = {"steady_state": fit.steady_state_residual, "time_course": fit.time_course_residual,
             "protocol": fit.protocol_time_course_residual}[c["kind"]]
    out["loss_of_returned_model"] = float(resid({}, s))
    return out


def _close(a, b, rel=1e-7):
    if a == b:
        return True
    return abs(a - b) <= rel * max(1.0, abs(a), abs(b))


def judge_driver(ctx, c, r):
    names = list(c["p0"])
    shape = (f"drv:{c['kind']}:{len(names)}names:{'x' if 'x' in names else '-'}{'z' if 'zz' in names else '-'}:"
             f"y0={'none' if c['y0'] is None else '+'.join(c['y0'])}:{'copy' if c['as_deepcopy'] else 'nocopy'}:"
             f"{'fail' if c['fail'] else 'ok'}")
    if r.get("timeout") or r.get("nan"):
        ctx.count(c, shape + ":skipped")
        return
    ctx.count(c, shape)
    before = r["before"]
    M = None
    if ctx.driver_ok:
        (M,) = driver.call_batch([{"op": "c20", "drv": {
            "setsBest": "gen", "asDeepcopy": c["as_deepcopy"], "y0": None if c["y0"] is None else [[k, ext(v)] for k, v in c["y0"].items()],
            "model": before, "p0": [[k, ext(v)] for k, v in c["p0"].items()], "cands": [[ext(x) for x in cd] for cd in c["cands"]],
            "fail": c["fail"], "table": r["trace"]}}])
    if "raised" in r:
        # a y0 entry that is no variable: update_variables raises out of the residual, the minimiser and the fit
        R = {"raised": r["raised"], "caller_untouched": r["caller"] == before if c["as_deepcopy"] else None}
        S = {"raised": "KeyError", "caller_untouched": True if c["as_deepcopy"] else None}
        Mv = None if M is None else {"raised": "KeyError" if not M["y0_ok"] else None,
                                     "caller_untouched": (M["caller"] == before) if c["as_deepcopy"] else None}
        ctx.judge({"stream": "drv", **c}, R, S, Mv, what="fit with a y0 entry that is no variable raises KeyError; a copy spares the input")
        return
    # --- bookkeeping, exactly: who was evaluated, who won, what the two model objects hold afterwards
    want_trace = [[ext(v) for v in c["p0"].values()]] + [[ext(x) for x in cd] for cd in c["cands"] if len(cd) == len(names)]
    vals = [float("inf") if f == "inf" else F(f) for _, f in r["trace"]]
    ibest = min(range(len(vals)), key=lambda i: vals[i])  # the first least value
    pn = [n for n in names if n in dict(before["pars"])]
    vn = [n for n in names if n in dict(before["vars"])]
    def overlay(table, upd):
        return [[k, upd.get(k, v)] for k, v in table]
    y0e = {k: ext(v) for k, v in (c["y0"] or {}).items()}
    if c["fail"]:
        Sfit, last = None, dict(zip(names, r["trace"][-1][0]))
        Swork = {"pars": overlay(before["pars"], {k: last[k] for k in pn}),
                 "vars": overlay(overlay(before["vars"], y0e), {k: last[k] for k in vn})}
    else:
        best = dict(zip(names, r["trace"][ibest][0]))
        Sfit = {"best": [[k, best[k]] for k in names], "loss": r["trace"][ibest][1]}
        # the returned model is AT the reported values (other numbers: the caller's, with y0 applied)
        Swork = {"pars": overlay(before["pars"], {k: best[k] for k in pn}),
                 "vars": overlay(overlay(before["vars"], y0e), {k: best[k] for k in vn})}
    Scaller = before if c["as_deepcopy"] else Swork
    R = {"trace": [xs for xs, _ in r["trace"]], "fit": r["fit"], "caller": r["caller"], "work": r.get("work")}
    S = {"trace": want_trace, "fit": Sfit, "caller": Scaller, "work": Swork if r.get("work") is not None else None}
    Mv = None if M is None else {"trace": [[v for _, v in u] for u in M["trace"]], "fit": M["fit"], "caller": M["caller"],
                                 "work": M["work"] if r.get("work") is not None else None}
    ctx.judge({"stream": "drv", **c}, R, S, Mv,
              what="fit.* with a scripted minimiser: evaluated points, reported best/loss, caller's and returned model's values")
    if r["fit"] is None:
        return
    # --- honesty in the property's words, against independent simulations
    loss = float("inf") if r["fit"]["loss"] == "inf" else float(F(r["fit"]["loss"]))
    R2 = {"loss_is_residual_at_best": _close(loss, r["hand_best"]), "loss_le_start": loss <= r["hand_p0"] * (1 + 1e-7) + 1e-9,
          "returned_model_has_reported_loss": _close(loss, r["loss_of_returned_model"]),
          "returned_is_callers_object": r["same_object"], "input_fingerprint_same": r["caller_fp_same"] if c["as_deepcopy"] else None}
    S2 = {"loss_is_residual_at_best": True, "loss_le_start": True, "returned_model_has_reported_loss": True,
          "returned_is_callers_object": not c["as_deepcopy"], "input_fingerprint_same": True if c["as_deepcopy"] else None}
    ctx.judge({"stream": "drv-honest", **c}, R2, S2, None,
              what="scripted fit: loss = by-hand residual at best_pars <= at p0; the returned model reproduces the reported loss")


# ---- ensembles and joint fits
def gen_multi_case(rng, which):
    kind = rng.choice(["steady_state", "time_course", "protocol", "mixed"] if which == "joint" else ["steady_state", "time_course", "protocol"])
    true = {"k1": 1.0, "k2": 2.0, "k3": 1.0}
    names = rng.choice([["k2"], ["k2", "k3"], ["k3", "k2"]])
    p0 = {n: true[n] * rng.choice([0.75, 1.5]) for n in names}
    cands = [[true[n] * rng.choice([0.5, 0.875, 1.0, 1.125, 2.0]) for n in names] for _ in range(rng.randint(2, 3))]
    if kind == "steady_state" and rng.random() < 0.7:
        cands.insert(rng.randrange(len(cands) + 1), [-0.5 if n == "k2" else true[n] for n in names])
    # members: the same structure with other fixed numbers; for steady states one member may have no steady state at all
    members = [{"k1": rng.choice([1.0, 2.0, 0.5]), "k3x": rng.choice([1.0, 2.0])} for _ in range(rng.randint(2, 3))]
    return {which: True, "kind": kind, "true": true, "p0": p0, "cands": cands, "members": members,
            "loss": rng.choice(["rmse", "mae"]), "as_deepcopy": rng.random() < 0.6}


def _member(true, mb):
    return build("chain", {"k1": mb["k1"], "k2": 1.0, "k3": 2.0 * mb["k3x"]})


def real_ensemble_case(c):
    import logging
    import warnings
    os.environ["TQDM_DISABLE"] = "1"
    logging.getLogger("mxlpy").setLevel(logging.ERROR)
    warnings.filterwarnings("ignore")
    from mxlpy import fit
    from mxlpy.fit import losses
    true = c["true"]
    full, proto = make_data(c["kind"], true)
    data = full[["x", "y"]]
    models = [_member(true, mb) for mb in c["members"]]
    before = [fingerprint(m) for m in models]
    kw = dict(p0=dict(c["p0"]), data=data, loss_fn=getattr(losses, c["loss"]), as_deepcopy=c["as_deepcopy"])
    if c["kind"] == "protocol":
        kw["protocol"] = proto
    ens = getattr(fit, "ensemble_" + FIT_FN[c["kind"]])(models, minimizer=ScriptedMinimizer(c["cands"], fail_if_start_inf=True), **kw)
    out = {"fits": [{"best": [[k, ext(v)] for k, v in f.best_pars.items()], "loss": ext(f.loss)} for f in ens.fits],
           "inputs_same": [fingerprint(m) == b for m, b in zip(models, before)]}
    try:
        b = ens.get_best_fit()
        out["best"] = {"best": [[k, ext(v)] for k, v in b.best_pars.items()], "loss": ext(b.loss)}
    except ValueError:
        out["best"] = "ValueError"
    # member by member through the single-model driver, in this process
    single = []
    for mb in c["members"]:
        res = getattr(fit, FIT_FN[c["kind"]])(_member(true, mb), minimizer=ScriptedMinimizer(c["cands"], fail_if_start_inf=True), **kw)
        v = res.value
        single.append({"best": [[k, ext(x)] for k, x in v.best_pars.items()], "loss": ext(v.loss)} if type(v).__name__ == "Fit" else None)
    out["single"] = single
    return out


def judge_ensemble(ctx, c, r):
    ctx.count(c, f"ens:{c['kind']}:{len(c['members'])}members:{'copy' if c['as_deepcopy'] else 'nocopy'}")
    if r.get("timeout"):
        return
    kept = [f for f in r["single"] if f is not None]
    key = lambda f: float("inf") if f["loss"] == "inf" else F(f["loss"])  # noqa: E731
    S = {"fits": kept, "best": min(kept, key=key) if kept else "ValueError", "inputs_same": [True] * len(c["members"])}
    M = None
    if ctx.driver_ok:
        (m,) = driver.call_batch([{"op": "c20", "ens": r["single"]}])
        M = {"fits": m["kept"], "best": m["best"] if m["best"] is not None else "ValueError", "inputs_same": [True] * len(c["members"])}
    ctx.judge({"stream": "ens", **c}, {"fits": r["fits"], "best": r["best"], "inputs_same": r["inputs_same"]}, S, M,
              what="ensemble fit = the members' single fits in order without the failures; get_best_fit = first least loss; inputs untouched")


def real_joint_case(c):
    import logging
    import warnings
    logging.getLogger("mxlpy").setLevel(logging.ERROR)
    warnings.filterwarnings("ignore")
    from mxlpy import fit
    from mxlpy.fit import losses
    true = c["true"]
    models = [_member(true, mb) for mb in c["members"]]
    before = [fingerprint(m) for m in models]
    mini = ScriptedMinimizer(c["cands"])
    resids = {"steady_state": fit.steady_state_residual, "time_course": fit.time_course_residual,
              "protocol": fit.protocol_time_course_residual}
    # the kind of every member: one kind for the joint_<kind> routines, alternating kinds for joint_mixed
    kinds = [["steady_state", "time_course", "protocol"][i % 3] if c["kind"] == "mixed" else c["kind"] for i in range(len(models))]
    made = {k: make_data(k, true) for k in set(kinds)}
    datas = [made[k][0][["x", "y"]] for k in kinds]
    protos = [made[k][1] for k in kinds]
    kw = dict(p0=dict(c["p0"]), minimizer=mini, loss_fn=getattr(losses, c["loss"]), as_deepcopy=c["as_deepcopy"], max_workers=2)
    if c["kind"] == "mixed":
        res = fit.joint_mixed([fit.MixedSettings(model=m, data=d, residual_fn=resids[k], protocol=pr)
                               for m, d, k, pr in zip(models, datas, kinds, protos)], **kw)
    else:
        fn = {"steady_state": fit.joint_steady_state, "time_course": fit.joint_time_course,
              "protocol": fit.joint_protocol_time_course}[c["kind"]]
        res = fn([fit.FitSettings(model=m, data=d, protocol=pr) for m, d, pr in zip(models, datas, protos)], **kw)
    v = res.value
    out = {"fit": {"best": [[k, ext(x)] for k, x in v.best_pars.items()], "loss": ext(v.loss)} if type(v).__name__ == "JointFit" else None,
           "trace": [[[ext(x) for x in xs], ext(f)] for xs, f in mini.trace], "inputs_same": [fingerprint(m) == b for m, b in zip(models, before)]}
    # every member's own residual at every evaluated point, computed here on fresh models
    parts = []
    for xs, _ in mini.trace:
        upd = dict(zip(c["p0"], xs))
        parts.append([ext(resids[k](upd, settings_for(k, _member(true, mb), d, pr, c["loss"], True, c["p0"])))
                      for mb, k, d, pr in zip(c["members"], kinds, datas, protos)])
    out["parts"] = parts
    return out


def judge_joint(ctx, c, r):
    ctx.count(c, f"joint:{c['kind']}:{len(c['members'])}members:{'copy' if c['as_deepcopy'] else 'nocopy'}")
    if r.get("timeout"):
        return
    fl = lambda t: float("inf") if t == "inf" else float(F(t))  # noqa: E731
    sums = [sum(fl(t) for t in ps) for ps in r["parts"]]
    Ms = None
    if ctx.driver_ok:
        Ms = [fl(t) for t in driver.call_batch([{"op": "c20", "sum": ps} for ps in r["parts"]])]
    ibest = min(range(len(sums)), key=lambda i: sums[i])
    R = {"sums_close": all(_close(fl(f), s, 1e-12) for (_, f), s in zip(r["trace"], sums)),
         "best": r["fit"]["best"] if r["fit"] else None, "loss_is_sum_at_best": r["fit"] is not None and _close(fl(r["fit"]["loss"]), sums[ibest], 1e-12),
         "inputs_same": r["inputs_same"]}
    S = {"sums_close": True, "best": [[k, x] for k, x in zip(c["p0"], r["trace"][ibest][0])], "loss_is_sum_at_best": True,
         "inputs_same": [True] * len(c["members"])}
    M = None if Ms is None else {"sums_close": all(_close(fl(f), s, 1e-12) for (_, f), s in zip(r["trace"], Ms)),
                                 "best": S["best"], "loss_is_sum_at_best": _close(fl(r["fit"]["loss"]), Ms[ibest], 1e-12) if r["fit"] else False,
                                 "inputs_same": [True] * len(c["members"])}
    ctx.judge({"stream": "joint", **c}, R, S, M,
              what="joint fit: the objective is the sum of the members' residuals (inf if any failed); best = first least sum; inputs untouched")


# ---- a residual is a function of the candidate: repeated / interleaved evaluations on ONE settings object
PROTO_SHAPES = {
    "every-step-names-k1": lambda t: [(t / 2, {"k1": 1.0}), (t / 2, {"k1": 2.0})],
    "disjoint-steps": lambda t: [(t / 2, {"k3": 1.0}), (t / 2, {"k1": 2.0})],
    "later-step-adds-k3": lambda t: [(t / 2, {"k1": 1.0}), (t / 2, {"k1": 2.0, "k3": 0.5})],
    "three-steps": lambda t: [(t / 4, {"k2": 2.0}), (t / 4, {"k1": 0.5}), (t / 2, {"k3": 2.0, "k2": 1.0})],
}


def gen_pure_case(rng):
    kind = rng.choice(["steady_state", "time_course", "protocol", "protocol", "protocol"])
    names = rng.sample(["k1", "k2", "k3", "x"], rng.randint(1, 2))
    mk = lambda: {n: rng.choice([0.5, 1.0, 1.5, 2.0, 3.0]) for n in names}  # noqa: E731
    a, b = mk(), mk()
    return {"pure": True, "kind": kind, "shape": rng.choice(sorted(PROTO_SHAPES)) if kind == "protocol" else None,
            "seq": [a, b, a, a], "y0": rng.choice([None, None, {"y": 0.25}]), "loss": rng.choice(["rmse", "mae"]),
            "scaled": rng.random() < 0.5}


def real_pure_case(c):
    import logging
    import warnings

    import numpy as np
    logging.getLogger("mxlpy").setLevel(logging.ERROR)
    warnings.filterwarnings("ignore")
    from mxlpy import Simulator, fit, make_protocol
    true = {"k1": 1.0, "k2": 2.0, "k3": 1.0}
    proto = None
    if c["kind"] == "protocol":
        t_end = 4.0
        proto = make_protocol(PROTO_SHAPES[c["shape"]](t_end))
        tp = np.linspace(t_end / 8, t_end, 8)
        comb = Simulator(build("chain", true)).simulate_protocol_time_course(protocol=proto, time_points=tp).get_result().unwrap_or_err().get_combined()
        data = comb.loc[[t for t in comb.index if any(abs(t - u) < 1e-12 for u in tp)], ["x", "y"]]
    else:
        full, _ = make_data(c["kind"], true)
        data = full[["x", "y"]]
    resid = {"steady_state": fit.steady_state_residual, "time_course": fit.time_course_residual,
             "protocol": fit.protocol_time_course_residual}[c["kind"]]
    model = build("chain", true)
    before = vals_of(model)
    names = list(c["seq"][0])
    shared = settings_for(c["kind"], model, data, proto, c["loss"], c["scaled"], names, y0=c["y0"])
    v_shared = [float(resid(dict(u), shared)) for u in c["seq"]]
    v_fresh = [float(resid(dict(u), settings_for(c["kind"], build("chain", true), data, proto, c["loss"], c["scaled"], names, y0=c["y0"])))
               for u in c["seq"]]
    return {"shared": [ext(v) for v in v_shared], "fresh": [ext(v) for v in v_fresh], "before": before, "after": vals_of(model),
            "nan": any(v != v for v in v_shared + v_fresh)}


def judge_pure(ctx, c, r):
    ctx.count(c, f"pure:{c['kind']}:{c['shape'] or '-'}:{'+'.join(c['seq'][0])}:y0={'none' if c['y0'] is None else '+'.join(c['y0'])}")
    if r.get("timeout") or r.get("nan"):
        return
    names = list(c["seq"][0])
    last = {k: ext(v) for k, v in c["seq"][-1].items()}
    y0e = {k: ext(v) for k, v in (c["y0"] or {}).items()}
    S = {"values": r["fresh"],
         "after": {"pars": [[k, last.get(k, v)] for k, v in r["before"]["pars"]],
                   "vars": [[k, last.get(k, y0e.get(k, v))] for k, v in r["before"]["vars"]]}}
    M = None
    if ctx.driver_ok:
        (m,) = driver.call_batch([{"op": "c20", "drv": {
            "setsBest": False, "asDeepcopy": False, "y0": None if c["y0"] is None else [[k, ext(v)] for k, v in c["y0"].items()],
            "model": r["before"], "p0": [[k, ext(v)] for k, v in c["seq"][0].items()],
            "cands": [[ext(u[k]) for k in names] for u in c["seq"][1:]], "fail": True, "table": []}}])
        M = {"values": r["fresh"], "after": m["work"]}
    ctx.judge({"stream": "pure", **c}, {"values": r["shared"], "after": r["after"]}, S, M,
              what="residual evaluated repeatedly / interleaved on one settings object = evaluated on a fresh one; the model holds the last candidate")


def _real_fn(c):
    for key, fn in (("quad", real_quad_case), ("drv", real_driver_case), ("ens", real_ensemble_case), ("joint", real_joint_case),
                    ("pure", real_pure_case)):
        if c.get(key):
            return fn
    return real_fit_case


def _judge_fit_like(ctx, c, r):
    if c.get("quad"):
        if not r.get("timeout"):
            judge_quad(ctx, c, r)
    elif c.get("drv"):
        judge_driver(ctx, c, r)
    elif c.get("ens"):
        judge_ensemble(ctx, c, r)
    elif c.get("joint"):
        judge_joint(ctx, c, r)
    elif c.get("pure"):
        judge_pure(ctx, c, r)
    else:
        judge_fit(ctx, c, r)


def run_fit_cases(cases, timeout=120):
    """every case in its own worker process with a wall-clock limit (an optimiser may walk into a stiff corner)"""
    import pebble
    out = []
    with pebble.ProcessPool(max_workers=min(16, os.cpu_count() or 4)) as pool:
        futs = [pool.schedule(_real_fn(c), args=(c,), timeout=timeout) for c in cases]
        for f in futs:
            try:
                out.append(f.result())
            except TimeoutError:
                out.append({"timeout": True})
    return out


# ----------------------------------------------------------------------------- entry points
def setup(ctx):
    from translate import c20 as tr
    ctx.translate(tr.generate)
    ctx.build(PROPS)
    ctx.rule = (
        "val/prop: each shipped loss x dyadic data vectors (length 1-8; at the data, shifted, scaled up, random) x scale "
        "factor; scale: _Settings.loss scaled/plain; resid: 3 data shapes x 5 good losses x scaled/plain at true "
        "parameters; fit: real LocalScipyMinimizer fits (1-3 free parameters). distinct = distinct case descriptions"
    )
    ctx.assumptions += [
        "scipy.optimize.minimize honours MinimiserContract (fun = objective(x), fun <= objective(x0)) — assumed by C20_fit_honest, checked on every recorded fit",
        "a pandas Series/DataFrame is a flat list of numbers for the elementwise losses (checked: DataFrame = flattened); np.linalg.norm of a DataFrame (spectral norm) is not modelled",
        "the residual function is a pure function of the updates on the copied model (every evaluation rewrites all fitted names)",
        "float rounding: exact comparison only for vector lengths 1,2,4,8 on dyadic data; otherwise 1e-12 relative",
    ]
    ctx.trusted_base += ["translate/c20.py (numpy expression subset -> Lean definitions; refuses anything else)",
                         "scipy.optimize (MinimiserContract), scipy.integrate, pandas alignment/deepcopy"]


def run(ctx):
    setup(ctx)
    rng = ctx.rng
    loss_cases = [gen_loss_case(rng, name) for name in ALL for _ in range(ctx.n(60, 1500))]
    # the round-0 witnesses
    loss_cases += [{"loss": "cosine_similarity", "d": ["1", "2", "3"], "p": ["1", "2", "3"], "lam": "10", "frame": False},
                   {"loss": "cosine_similarity", "d": ["1", "2", "3"], "p": ["3", "2", "1"], "lam": "10", "frame": False},
                   {"loss": "cosine_similarity", "d": ["1", "2", "3", "4"], "p": ["-1", "-2", "-3", "-4"], "lam": "2", "frame": True},
                   {"loss": "mean", "d": ["1"], "p": ["101"], "lam": "2", "frame": False},
                   {"loss": "mean", "d": ["0", "2"], "p": ["1", "1"], "lam": "2", "frame": False}]
    set_cases = [{"loss": rng.choice(["mean_squared", "mae"]), "d": c["d"], "p": c["p"], "on": rng.random() < 0.6}
                 for c in (gen_loss_case(rng, "mean_squared") for _ in range(ctx.n(40, 600))) if len(set(c["d"])) > 1]
    # data without spread: one measurement, constant measurements
    set_cases += [{"loss": rng.choice(["mean_squared", "mae"]), "d": d, "p": [q(F(x) + rng.choice([0, F(1, 2), -1])) for x in d], "on": True}
                  for d in (["3/2"], ["2", "2"], ["-1/4", "-1/4", "-1/4", "-1/4"], ["5"])]
    # data frames (time-course / protocol fits): dense, constant column, a single row, a column measured only once
    set_cases += [gen_frame_settings_case(rng, shape) for shape in ("dense", "constant-column", "one-row", "measured-once")
                  for _ in range(ctx.n(4, 60))]
    # the percentage loss divides by its FIRST argument: this is where the argument order of _Settings.loss shows
    set_cases += [{"loss": "mean_absolute_percentage", "d": c["d"], "p": c["p"], "on": False}
                  for c in (gen_loss_case(rng, "mean_absolute_percentage") for _ in range(ctx.n(12, 200)))]
    # the pool-spawning cases go first so that they overlap with the cheap ones
    fit_cases = [gen_multi_case(rng, "ens") for _ in range(ctx.n(2, 12))] + [gen_multi_case(rng, "joint") for _ in range(ctx.n(3, 10))]
    fit_cases += gen_fit_cases(ctx) + [gen_quad_case(rng) for _ in range(ctx.n(40, 600))]
    # every global method once on a fixed request whose box for k1 EXCLUDES the target (5): the methods that take
    # bounds end on the box, basinhopping ignores it (F-C20-9)
    fit_cases += [{"quad": True, "kind": "steady_state", "p0": {"k1": "6", "k2": "3/2"}, "target": {"k1": "5", "k2": "2"},
                   "method": "L-BFGS-B", "global": g, "np_seed": 7, "bounds": {"k2": ["1", "4"], "k1": ["45/8", "15"]}}
                  for g in ("differential_evolution", "shgo", "dual_annealing", "direct", "basinhopping")]
    fit_cases += [gen_driver_case(rng) for _ in range(ctx.n(28, 300))]
    fit_cases += [gen_pure_case(rng) for _ in range(ctx.n(20, 250))]
    import mxlpy  # noqa: F401
    with cf.ProcessPoolExecutor(max_workers=4) as ex:
        chunks = [loss_cases[i:i + 100] for i in range(0, len(loss_cases), 100)]
        fut_l = ex.map(real_losses, chunks)
        Rf = run_fit_cases(fit_cases)
        Rl = [r for ch in fut_l for r in ch]
        Rs = real_settings(set_cases)
    Ml = model_losses(ctx, loss_cases)
    for c, r, m in zip(loss_cases, Rl, Ml):
        judge_loss(ctx, c, r, m)
    for c, r in zip(set_cases, Rs):
        judge_settings(ctx, c, r)
    for c, r in zip(fit_cases, Rf):
        _judge_fit_like(ctx, c, r)
    if not ctx.proof_ok or ctx.drift:
        ctx.notes.append("proof/correspondence broken: the run above is the failing-input search")
    if os.environ.get("C20_DEBUG"):
        import json
        for v in ctx.violations[:12]:
            print(json.dumps(v, default=str)[:900])


def replay(ctx, rp):
    c = dict(rp["case"])
    stream = c.pop("stream", "val")
    if stream in ("val", "prop", "frame"):
        (r,) = real_losses([c])
        (m,) = model_losses(ctx, [c])
        print("R =", r, "\nM =", m)
        judge_loss(ctx, c, r, m)
    elif stream == "scale":
        (r,) = real_settings([c])
        print("R =", r)
        judge_settings(ctx, c, r)
    else:
        (r,) = run_fit_cases([c])
        print("R =", r)
        _judge_fit_like(ctx, c, r)
