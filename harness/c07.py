"""C07 — generated Python / TypeScript / Rust / Julia right-hand sides equal the model (DESIGN §6/C07).

Per generated case (content, free parameters, states) and per language:
  R  = what the emitted text computes: Python text is exec'd; TS / Rust / Julia text is parsed by a line
       grammar + expression parser into a straight-line program and evaluated exactly under that language's
       rules (undefined names, destructuring, array-typed return); the thorough tier additionally runs the
       TS text with node and compiles/runs the Rust text with rustc when those exist.
  S  = the model's own `model(time, variables)` (free parameters set with `update_parameters`).
  M  = the Lean model: `genRun` = `runSLP (genModel c L free)`, through the driver; its program *shape*
       (unpack form, inputs, assignment targets, names read, returned names, fixed return length) is compared with
       the shape parsed from the text.
"""
from __future__ import annotations

import copy
import json
import multiprocessing as mp
import os
import random
import re
import shutil
import subprocess
from fractions import Fraction
from glob import glob
from pathlib import Path

from translate import c07 as tr07
from vlib import content as C
from vlib import driver, fexpr
from vlib.fexpr import Inexact, rat_str
from vlib.framework import WORK

from . import codegencommon as cg

PROPS = ["MxlVerif.Props.C07"]
LANGS = ["py", "ts", "rs", "jl"]

# --------------------------------------------------------------------------- text -> program


class TextError(Exception):
    pass


HEADER = {
    "py": re.compile(r"^def model\(time: float, variables: Iterable\[float\](?P<extra>(?:, \w+: float)*)\) -> Iterable\[float\]:$"),
    "ts": re.compile(r"^function model\(time: number, variables: number\[\](?P<extra>(?:, \w+: number)*)\) \{$"),
    "rs": re.compile(r"^fn model\(time: f64, variables: &\[f64; (?P<n>\d+)\](?P<extra>(?:, \w+: f64)*)\) -> \[f64; (?P<m>\d+)\] \{$"),
    "jl": re.compile(r"^function model\(time, variables(?P<extra>(?:, \w+)*)\)$"),
}
UNPACK = {
    "py": [("bracket", re.compile(r"^    \[(?P<names>[\w, ]+)\] = (?P<star>\*?)variables$")),
           ("bracket", re.compile(r"^    \((?P<names>[\w, ]+),\) = (?P<star>\*?)variables$")),
           ("bare", re.compile(r"^    (?P<names>[\w, ]+) = (?P<star>\*?)variables$"))],
    "ts": [("bracket", re.compile(r"^    let \[(?P<names>[\w, ]+)\] = (?P<star>\*?)variables;$")),
           ("bare", re.compile(r"^    let (?P<names>[\w, ]+) = (?P<star>\*?)variables;$"))],
    "rs": [("bracket", re.compile(r"^    let \[(?P<names>[\w, ]+)\] = (?P<star>\*?)variables;$")),
           ("bare", re.compile(r"^    let (?P<names>[\w, ]+) = (?P<star>\*?)variables;$"))],
    "jl": [("bracket", re.compile(r"^    \[(?P<names>[\w, ]+)\] = (?P<star>\*?)variables$")),
           ("bare", re.compile(r"^    (?P<names>[\w, ]+) = (?P<star>\*?)variables$"))],
}
ASSIGN = {
    "py": re.compile(r"^    (?P<k>\w+): float = (?P<v>.*)$"),
    "ts": re.compile(r"^    let (?P<k>\w+): number = (?P<v>.*);$"),
    "rs": re.compile(r"^    let (?P<k>\w+): f64 = (?P<v>.*);$"),
    "jl": re.compile(r"^    (?P<k>\w+) = (?P<v>.*)$"),
}
RETURN = {
    "py": [(True, re.compile(r"^    return \[(?P<r>.*)\]$")), (False, re.compile(r"^    return (?P<r>.*)$"))],
    "ts": [(True, re.compile(r"^    return \[(?P<r>.*)\];$"))],
    "rs": [(True, re.compile(r"^    return \[(?P<r>.*)\]$"))],
    "jl": [(False, re.compile(r"^    return (?P<r>.*)$"))],
}
END = {"py": None, "ts": "};", "rs": "}", "jl": "end"}
STAR_OK = {"rs"}  # `*variables` dereferences in Rust; it is not an expression elsewhere


def parse_text(lang: str, text: str) -> dict:
    lines = text.split("\n")
    if lang == "py":
        lines = [l for l in lines if l.strip() and not l.startswith(("import ", "from "))]
    if not lines:
        raise TextError("empty text")
    m = HEADER[lang].match(lines[0])
    if not m:
        raise TextError(f"header not in grammar: {lines[0]!r}")
    extra = re.findall(r", (\w+)", m.group("extra"))
    P = {"lang": lang, "extra": extra, "inputs": [], "unpack": None, "assigns": [], "ret": None,
         "retUnit": False, "retBracket": None, "retLen": None, "hdrN": None}
    if lang == "rs":
        P["hdrN"], P["retLen"] = int(m.group("n")), int(m.group("m"))
    body = lines[1:]
    if END[lang] is not None:
        if not body or body[-1] != END[lang]:
            raise TextError(f"missing end line {END[lang]!r}")
        body = body[:-1]
    if not body:
        raise TextError("no return line")
    i = 0
    for kind, rx in UNPACK[lang]:
        mm = rx.match(body[0])
        if mm:
            P["inputs"] = [s.strip() for s in mm.group("names").split(",")]
            P["unpack"] = kind if (not mm.group("star") or lang in STAR_OK) else "invalid"
            i = 1
            break
    for line in body[i:-1]:
        mm = ASSIGN[lang].match(line)
        if not mm:
            raise TextError(f"assignment line not in grammar: {line!r}")
        try:
            e = cg.parse_expr(mm.group("v"))
        except cg.ParseError as ex:
            raise TextError(f"expression not in grammar: {mm.group('v')!r}: {ex}") from None
        P["assigns"].append((mm.group("k"), e, mm.group("v")))
    for br, rx in RETURN[lang]:
        mm = rx.match(body[-1])
        if mm:
            P["retBracket"] = br
            r = mm.group("r").strip()
            if r == "()":
                P["retUnit"], P["ret"] = True, []
            else:
                P["ret"] = [s.strip() for s in r.split(",")]
                if not all(re.fullmatch(r"\w+", s) for s in P["ret"]):
                    raise TextError(f"return line not in grammar: {body[-1]!r}")
            break
    if P["ret"] is None:
        raise TextError(f"return line not in grammar: {body[-1]!r}")
    return P


def py_skeleton(text: str):
    """line structure of a Python text without reading its expressions: ([[target, right-hand side]], inputs / extra / ret)"""
    lines = [l for l in text.split("\n") if l.strip() and not l.startswith(("import ", "from "))]
    m = HEADER["py"].match(lines[0]) if lines else None
    if not m or len(lines) < 2:
        return None
    extra = re.findall(r", (\w+)", m.group("extra"))
    body, inputs = lines[1:], []
    for _, rx in UNPACK["py"]:
        mm = rx.match(body[0])
        if mm:
            inputs = [x.strip() for x in mm.group("names").split(",")]
            body = body[1:]
            break
    assigns = []
    for line in body[:-1]:
        mm = ASSIGN["py"].match(line)
        if not mm:
            return None
        assigns.append([mm.group("k"), mm.group("v")])
    mr = re.match(r"^    return \[(?P<r>.*)\]$", body[-1])
    if not mr or mr.group("r").strip() == "()":
        return None
    return assigns, {"inputs": inputs, "extra": extra, "ret": [x.strip() for x in mr.group("r").split(",")]}


def text_shape(P) -> dict:
    return {"unpack": P["unpack"] if P["inputs"] else None, "inputs": P["inputs"], "extra": P["extra"],
            "assigns": [[k, sorted(cg.expr_names(e))] for k, e, _ in P["assigns"]],
            "consts": [[k, rat_str(-e[1][1] if e[0] == "neg" else e[1])] for k, e, _ in P["assigns"]
                       if e[0] == "num" or (e[0] == "neg" and e[1][0] == "num")],   # a literal, possibly negative
            "ret": P["ret"], "retUnit": P["retUnit"], "retBracket": P["retBracket"], "retLen": P["retLen"]}


def model_shape(g) -> dict:
    """same projection of the Lean model's SLP"""
    return {"unpack": g["unpack"] if g["inputs"] else None, "inputs": g["inputs"], "extra": g["extra"],
            "assigns": [[k, sorted(set(reads))] for k, _, reads, _ in g["assigns"]],
            "consts": [[k, q] for k, kind, _, q in g["assigns"] if kind == "const"],
            "ret": g["ret"], "retUnit": g["retUnit"], "retBracket": g["retBracket"], "retLen": g["retLen"]}


# --------------------------------------------------------------------------- evaluation of a parsed program


def expected_reads(content) -> dict:
    """assignment target -> names in the order the model lists them (args; coefficient args then rate)"""
    out = {}
    for k, f in content["derived"]:
        out[k] = list(f["args"])
    de = {}
    for k, r in content["rxns"]:
        out[k] = list(r["args"])
        for cpd, cj in r["st"]:
            de.setdefault(cpd, []).extend((list(cj["args"]) if "c" not in cj else []) + [k])
    for cpd, reads in de.items():
        out[f"d{cpd}dt"] = reads
    return out


def _name_err(target, e, env, reads):
    order = reads.get(target) or cg.expr_names(e)
    missing = [n for n in order if n not in env] or [n for n in cg.expr_names(e) if n not in env]
    return {"err": ["NameError", missing[0]]}


def run_parsed(P, t, xs, ps, reads) -> dict:
    """the text's meaning under its language's rules, evaluated exactly (Inexact propagates)"""
    lang = P["lang"]
    if P["inputs"] and P["unpack"] == "invalid":
        return {"err": ["SyntaxError"]}
    if lang == "ts" and P["retUnit"] and P["retBracket"]:
        return {"err": ["SyntaxError"]}
    if len(ps) != len(P["extra"]):
        return {"err": ["TypeError"]}
    env = {"time": Fraction(t)}
    env.update(zip(P["extra"], map(Fraction, ps)))
    if P["inputs"]:
        if P["unpack"] == "bare" and len(P["inputs"]) == 1:
            return {"err": ["TypeError"]}
        if len(P["inputs"]) != len(xs):
            return {"err": ["ValueError"]}
        env.update(zip(P["inputs"], map(Fraction, xs)))
    if lang == "rs":  # name resolution of the whole function, then type checking, both before running
        defined = set(env)
        for k, e, _ in P["assigns"]:
            if any(n not in defined for n in cg.expr_names(e)):
                return _name_err(k, e, defined, reads)
            defined.add(k)
        for n in P["ret"]:
            if n not in defined:
                return {"err": ["NameError", n]}
        if any(cg.int_float_mix(e) or (e[0] == "num" and e[2]) for _, e, _ in P["assigns"]):
            return {"err": ["TypeError"]}
        if P["retUnit"] or (P["retLen"] is not None and len(P["ret"]) != P["retLen"]) or \
                (P["inputs"] and P["hdrN"] != len(P["inputs"])):
            return {"err": ["ReturnTypeMismatch"]}
    for k, e, _ in P["assigns"]:
        try:
            env[k] = cg.eval_expr(e, env)
        except cg.UndefinedName:
            return _name_err(k, e, env, reads)
    out = []
    for n in P["ret"]:
        if n not in env:
            return {"err": ["NameError", n]}
        out.append(rat_str(env[n]))
    if P["retUnit"] and P["retBracket"]:
        return {"err": ["ReturnNotNumeric"]}
    if not P["retBracket"] and len(out) == 1:
        return {"ok": out[0]}  # a bare value, not a sequence
    return {"ok": out}


def exec_py(text, states) -> list:
    ns: dict = {}
    try:
        exec(compile(text, "<generated-model>", "exec"), ns)  # noqa: S102
    except SyntaxError:
        return [{"err": ["SyntaxError"]}] * len(states)
    fn = ns["model"]
    out = []
    for t, xs, ps in states:
        try:
            r = fn(fexpr.to_float(Fraction(t)), [fexpr.to_float(Fraction(x)) for x in xs],
                   *[fexpr.to_float(Fraction(p)) for p in ps])
        except NameError as e:
            out.append({"err": ["NameError", getattr(e, "name", None) or str(e)]})
            continue
        except Exception as e:  # noqa: BLE001
            out.append({"err": [type(e).__name__]})
            continue
        if isinstance(r, (list, tuple)):
            if all(isinstance(v, (int, float)) and not isinstance(v, bool) for v in r):
                out.append({"ok": [C.num(v) for v in r]})
            else:
                out.append({"err": ["ReturnNotNumeric"]})
        elif isinstance(r, (int, float)):
            out.append({"ok": C.num(r)})
        else:
            out.append({"err": ["ReturnNotNumeric"]})
    return out


# --------------------------------------------------------------------------- real-code worker


def _generators():
    from mxlpy.meta import generate_model_code_jl, generate_model_code_py, generate_model_code_rs, generate_model_code_ts

    return {"py": generate_model_code_py, "ts": generate_model_code_ts, "rs": generate_model_code_rs,
            "jl": generate_model_code_jl}


def _canon_gen_exc(e):
    cls = type(e).__name__
    if cls == "KeyError":
        return {"err": ["KeyError", str(e.args[0]) if e.args else ""]}
    return {"err": [cls]}


def with_pars(content, free, ps):
    c = copy.deepcopy(content)
    upd = dict(zip(free, ps))
    c["pars"] = [[k, ({"v": upd[k]} if k in upd else v)] for k, v in c["pars"]]
    return c


def _model_call(content, decl_seed, t, xs):
    """S: a freshly built model's own right-hand side"""
    pool = cg.FnPool()
    try:
        m2 = cg.build_model(content, random.Random(decl_seed), pool)
        r = m2(fexpr.to_float(Fraction(t)), [fexpr.to_float(Fraction(x)) for x in xs])
        return {"ok": [C.num(v) for v in r]}
    except Exception as e:  # noqa: BLE001
        return {"err": [type(e).__name__]}
    finally:
        pool.cleanup()


def _eval_phase(m, content, case):
    """generate for every language from the live model `m`, read the texts back, run them; S from `content`"""
    free, states = case["free"], case["states"]
    oracle_only = bool(case.get("oracle_only"))
    out = {"langs": {}, "spec": [], "spec2": [], "before": None, "after": None}
    out["before"] = sorted([k, C.num(v)] for k, v in m.get_parameter_values().items())
    reads = expected_reads(content)
    gens = _generators()
    for lang in case["langs"]:
        ent = {}
        out["langs"][lang] = ent
        try:
            ent["text"] = gens[lang](m, free_parameters=list(free) if free else None)
        except Exception as e:  # noqa: BLE001
            ent["gen"] = _canon_gen_exc(e)
            continue
        if oracle_only:          # wider expression fragment: only executed, not read back by the Python-side evaluator
            if lang == "py":
                ent["exec"] = exec_py(ent["text"], states)
                sk = py_skeleton(ent["text"])   # ... but its lines are handed to the Lean expression reader (Python's `%`)
                if sk is not None:
                    ent["lines"], ent["shape"] = sk
            continue
        try:
            P = parse_text(lang, ent["text"])
        except TextError as e:
            ent["text_err"] = str(e)
            if lang == "py":
                ent["exec"] = exec_py(ent["text"], states)
            continue
        ent["shape"] = text_shape(P)
        ent["lines"] = [[k, v] for k, _, v in P["assigns"]]
        ent["trees"] = [[k, repr(cg.strip_ann(e))] for k, e, _ in P["assigns"]]
        ent["rs_mix"] = lang == "rs" and any(cg.int_float_mix(e) or (e[0] == "num" and e[2]) for _, e, _ in P["assigns"])
        runs = []
        for t, xs, ps in states:
            try:
                runs.append(run_parsed(P, t, xs, ps, reads))
            except Inexact:
                runs.append("inexact")
        ent["runs"] = runs
        if lang == "py":
            ent["exec"] = exec_py(ent["text"], states)
    try:
        out["after"] = sorted([k, C.num(v)] for k, v in m.get_parameter_values().items())
    except Exception as e:  # noqa: BLE001
        out["after"] = "raises " + type(e).__name__
    # S: the model itself
    for t, xs, ps in states:
        out["spec"].append(_model_call(with_pars(content, free, ps), case.get("decl_seed", 0), t, xs))
        if oracle_only:
            out["spec2"].append(None)
            continue
        try:
            out["spec2"].append(C.Spec(with_pars(content, free, ps)).answer(["call", t, xs]))
        except Inexact:
            out["spec2"].append("inexact")
    return out


def _real_worker(case):
    import logging
    import warnings

    warnings.filterwarnings("ignore")
    logging.disable(logging.CRITICAL)
    pool = cg.FnPool()
    try:
        try:
            m = cg.build_model(case["content"], random.Random(case.get("decl_seed", 0)), pool)
            m.get_parameter_values()
        except Exception as e:  # noqa: BLE001
            return {"build_err": type(e).__name__ + ": " + str(e)[:200]}
        out = _eval_phase(m, case["content"], case)
        if case.get("session"):
            # same process, same model and function objects; the module-level constants the functions read change
            pool.mutate()
            out["phase2"] = _eval_phase(m, cg.content_phase2(case["content"]), case)
        return out
    finally:
        pool.cleanup()
        cg.cleanup_helpers()


_pool = None


def pool():
    global _pool
    if _pool is None:
        _pool = mp.get_context("fork").Pool(min(16, os.cpu_count() or 4))
    return _pool


# --------------------------------------------------------------------------- Lean model side


def canon_M_gen(g):
    if "ok" in g:
        return g
    cls, payload = g["err"][0], (g["err"][1] if len(g["err"]) > 1 else None)
    if cls == "KeyError":
        return {"err": ["KeyError", payload]}
    if cls == "Other":
        return {"err": [payload]}
    return {"err": [cls]}


def canon_M_run(g, r):
    if "err" in g:
        return canon_M_gen(g)
    if "ok" in r:
        return r
    cls, payload = r["err"][0], (r["err"][1] if len(r["err"]) > 1 else None)
    if cls == "KeyError":
        return {"err": ["NameError", payload]}
    if cls == "Other":
        return {"err": [payload]}
    return {"err": [cls]}


def driver_request(c, content=None):
    return {"op": "c07", "content": strip_content(content if content is not None else c["content"]),
            "bad": c.get("bad", []), "free": c["free"], "langs": c["langs"], "states": c["states"]}


def strip_content(content):
    """the Lean wire decoder ignores `name` / `bad` / `int`; keep the request small"""
    return content


# --------------------------------------------------------------------------- generator


def bad_names(content):
    out = [k for k, f in content["derived"] if f.get("bad")]
    out += [k for k, r in content["rxns"] if r.get("bad")]
    return out


def gen_case(ctx, i):
    rng = ctx.rng
    r = rng.random()
    extra = {}
    vals = (0, 1, 2, 3, 5)
    if r < 0.34:      # inside the hypotheses of C07_equiv_partial
        content = cg.gen_content(rng, all_vars_have_eq=True, p_ia_par=0.1, p_ia_var=0.15, p_param_names=0.3)
        stratum = "clean"
        if rng.random() < 0.08:   # a parameter / derived value / reaction called like the derivative of a variable: refused
            cands = [k for kind in ("pars", "derived", "rxns") for k, _ in content[kind]]
            old, new = rng.choice(cands), f"d{rng.choice(content['vars'])[0]}dt"
            for kind in ("pars", "derived", "rxns"):
                content[kind] = [[new if k == old else k, v] for k, v in content[kind]]
            for f in cg.all_fns(content):
                f["args"] = [new if a == old else a for a in f["args"]]
                if "params" in f:
                    f["params"] = [new if a == old else a for a in f["params"]]
            stratum = "derivative-name-taken"
    elif r < 0.46:
        content = cg.gen_content(rng, all_vars_have_eq=False, p_ia_par=0.0, p_ia_var=0.15)
        stratum = "noeq"
        rnames = {k for k, _ in content["rxns"]}
        reads = {a for _, f in content["derived"] for a in f["args"]}
        reads |= {a for _, v in content["vars"] + content["pars"] if "ia" in v for a in v["ia"]["args"]}
        if rng.random() < 0.3 and not (rnames & reads):    # no reaction at all (F-C07-3 as it is now)
            content["rxns"] = []
            stratum = "noeq-at-all"
    elif r < 0.58:
        content = cg.gen_content(rng, all_vars_have_eq=rng.random() < 0.7, p_ia_par=0.35, p_ia_var=0.2)
        stratum = "ia"
    elif r < 0.64:    # a function that cannot be translated
        content = cg.gen_content(rng, all_vars_have_eq=True, p_ia_par=0.0, p_ia_var=0.0)
        kind = rng.choice(["derived", "rxns"] if content["derived"] else ["rxns"])
        how = "loop" if rng.random() < 0.3 else True
        rng.choice(content[kind])[1]["bad"] = how
        stratum = "untranslatable-loop" if how == "loop" else "untranslatable"
    elif r < 0.74:    # few variables, many reactions, mostly computed coefficients, function objects shared between
        #               components (rates, derived values, coefficients) with different argument lists
        content = cg.gen_content(rng, n_vars=(1, 2), n_pars=(2, 3), n_comps=(3, 7), p_dyn_coef=0.75,
                                 all_vars_have_eq=True, name_fn=cg.Namer(rng, 0.6), p_param_names=0.3)
        stratum = "shared-functions"
    elif r < 0.84:    # functions defined in modules of their own that have module-level float constants: some are read
        #               by the function, some only share a name with a parameter; then a session step: the constants
        #               change and code is generated again from the same model in the same process
        content = cg.gen_content(rng, all_vars_have_eq=True, p_modconst=0.6, p_dyn_coef=0.4,
                                 name_fn=cg.Namer(rng, 0.3))
        stratum = "module-constants"
        extra["session"] = cg.has_session(content)
    elif r < 0.92:    # wider expression fragment (/ % ** unary minus, nested): Python text only, executed, R vs S
        content = cg.gen_content(rng, all_vars_have_eq=True, rich=True, p_dyn_coef=0.3, small=(1, 2, 4), p_time=0.0,
                                 n_pars=(1, 3))
        stratum = "wider-expressions"
        extra["oracle_only"] = True
        vals = (1, 2, 4, 8)
    elif r < 0.95:    # constants of the math module (math.pi, math.e) as factor / summand / divisor / modulus of a
        #               remainder (`x % (2*math.pi)`): Python text executed (node runs the TypeScript text in the thorough
        #               tier), R vs S to 1e-9
        content = cg.gen_content(rng, all_vars_have_eq=True, rich="math", p_dyn_coef=0.3, small=(1, 2, 4), p_time=0.0,
                                 n_pars=(1, 3), n_comps=(1, 4))
        stratum = "math-constants"
        extra["oracle_only"] = True
        vals = (1, 2, 4, 8)
    else:             # functions with control flow (if/elif/else, conditional expressions, every comparison, abs/min/
        #               max, local imports) at negative, zero, boundary and positive states and parameters
        content = cg.gen_content(rng, all_vars_have_eq=True, rich="cond", p_dyn_coef=0.3, small=cg.COND_VALUES,
                                 p_time=0.0, n_pars=(1, 3), n_comps=(1, 5))
        stratum = "conditionals"
        extra["oracle_only"] = True
        vals = cg.COND_VALUES
    plain = [k for k, v in content["pars"] if "v" in v]
    free = rng.sample(plain, rng.randint(1, len(plain))) if plain and rng.random() < 0.3 else []
    states = []
    for _ in range(3 if stratum == "conditionals" else 2):
        st = C.gen_state(rng, content, vals=vals)
        states.append([str(rng.choice([0, 1, 2, "1/2"])), [v for _, v in st],
                       [str(rng.choice(cg.COND_VALUES if stratum == "conditionals" else [1, 2, 4, "1/2"] if extra.get("oracle_only")
                                       else [1, 2, 3, "1/2"])) for _ in free]])
    return dict({"content": content, "bad": bad_names(content), "free": free,
                 "langs": ["py"] if extra.get("oracle_only") else list(LANGS), "states": states,
                 "decl_seed": rng.randrange(1 << 30), "stratum": stratum}, **extra)


def _rich0(args, e):
    return {"args": args, "e": ["a", 0], "rich": True, "src": {"e": e, "floats": []}}


def exhaustive_cases(thorough: bool):
    """Seed-independent stratum: every content of a small grammar — 1-2 variables, 0-1 parameter, 0-2 derived values
    (a chain, in both declaration orders), 0-2 reactions with every non-empty stoichiometry pattern over the
    variables (coefficients -1 / 2; so also: a variable no reaction changes next to one that is changed), rates and derived functions from {a0, a0+a1, a0*a1} over the first names of
    the pool; optionally the parameter free."""
    import itertools

    F1 = [["a", 0]]
    F2 = [["+", ["a", 0], ["a", 1]], ["*", ["a", 0], ["a", 1]]]
    out = []
    for nv, npar in itertools.product((1, 2), (0, 1)):
        vs = [f"x{i}" for i in range(nv)]
        ps = ["k"] * npar
        base = vs + ps
        dconfs = [[]]
        for e in F2 if len(base) >= 2 else F1:
            a = base[: 2 if e in F2 else 1]
            d1 = ["d1", {"args": a, "e": e}]
            dconfs.append([d1])
            for e2 in (F2 if thorough else F2[:1]):
                d2 = ["d2", {"args": ["d1", base[-1]], "e": e2}]
                dconfs += [[d1, d2], [d2, d1]]
        patterns = [p for p in itertools.product((None, "-1", "2"), repeat=nv) if any(p)]
        for dconf in dconfs:
            pool = base + [k for k, _ in sorted(dconf)]
            rate_args = [pool[-1], pool[0]]
            rconfs = [[]]       # no reaction at all: F-C07-3 as it is now (`return ()` / `[()]`)
            for p1 in patterns:
                r1 = ["r1", {"args": rate_args, "e": F2[1], "st": [[v, {"c": c}] for v, c in zip(vs, p1) if c]}]
                rconfs.append([r1])
                if thorough or nv == 1:
                    for p2 in patterns:
                        r2 = ["r2", {"args": [pool[0]], "e": F1[0], "st": [[v, {"c": c}] for v, c in zip(vs, p2) if c]}]
                        rconfs.append([r1, r2])
            for rconf in rconfs:
                for free in ([[]] + ([["k"]] if npar else [])):
                    content = {"vars": [[v, {"v": "1"}] for v in vs], "pars": [[p, {"v": "2"}] for p in ps],
                               "derived": copy.deepcopy(dconf), "rxns": copy.deepcopy(rconf)}
                    out.append({"content": content, "bad": [], "free": list(free), "langs": list(LANGS),
                                "states": [["1", [str(2 + i) for i in range(nv)], ["3"] * len(free)]],
                                "decl_seed": len(out), "stratum": "exhaustive"})
    # every pair of coefficient kinds for one variable in two reactions: a number, or a computed coefficient from
    # one of three helper functions (one of arity 2) with every choice of parameter arguments -- the same function
    # object with the same / other arguments, different functions with the same arguments, ...
    kinds = [{"c": "-1"},
             {"args": ["n1"], "e": ["neg", ["a", 0]], "name": "cf"}, {"args": ["n2"], "e": ["neg", ["a", 0]], "name": "cf"},
             {"args": ["n1"], "e": ["+", ["a", 0], ["a", 0]], "name": "cg"},
             {"args": ["n1", "n2"], "e": ["-", ["a", 0], ["a", 1]], "name": "cf2"},
             {"args": ["n2", "n1"], "e": ["-", ["a", 0], ["a", 1]], "name": "cf2"}]
    for k1, k2 in itertools.product(kinds, repeat=2):
        content = {"vars": [["x", {"v": "1"}]], "pars": [["n1", {"v": "2"}], ["n2", {"v": "3"}]], "derived": [],
                   "rxns": [["r1", {"args": ["x"], "e": F1[0], "st": [["x", copy.deepcopy(k1)]]}],
                            ["r2", {"args": ["n1", "x"], "e": F2[1], "st": [["x", copy.deepcopy(k2)]]}]]}
        out.append({"content": content, "bad": [], "free": [], "langs": list(LANGS), "states": [["1", ["4"], []]],
                    "decl_seed": len(out), "stratum": "exhaustive-coefficients"})
    # a parameter defined by an initial assignment: every definition from a small set (of a plain parameter, of a
    # variable's initial value, of both, of a derived value that depends on the state) x who reads it (the rate, a derived
    # parameter that the rate reads, the initial assignment of a second variable) x the plain parameter free or not
    # (free: generation must be refused)
    qdefs = [{"args": ["k"], "e": ["+", ["a", 0], ["a", 0]]}, {"args": ["x"], "e": F1[0]},
             {"args": ["x", "k"], "e": F2[1]}, {"args": ["d1"], "e": F1[0]}, {"args": ["d1", "k"], "e": F2[0]}]
    for qd, reader, free in itertools.product(qdefs, ("rate", "derived-parameter", "variable"), ([], ["k"])):
        content = {"vars": [["x", {"v": "3"}]], "pars": [["k", {"v": "2"}], ["q", {"ia": copy.deepcopy(qd)}]],
                   "derived": [["d1", {"args": ["x", "k"], "e": F2[0]}]], "rxns": []}
        sto = [["x", {"c": "-1"}]]
        if reader == "rate":
            rate = {"args": ["x", "q"], "e": F2[1]}
        elif reader == "derived-parameter":
            content["derived"].insert(0, ["dq", {"args": ["q", "k"], "e": F2[0]}])
            rate = {"args": ["x", "dq"], "e": F2[1]}
        else:
            content["vars"].append(["y", {"ia": {"args": ["q", "k"], "e": F2[1]}}])
            rate = {"args": ["x", "y"], "e": F2[1]}
            sto = sto + [["y", {"c": "2"}]]
        content["rxns"] = [["r1", dict(rate, st=sto)]]
        nvars = len(content["vars"])
        out.append({"content": content, "bad": [], "free": list(free), "langs": list(LANGS),
                    "states": [["1", ["5", "7"][:nvars], ["3"] * len(free)], ["0", ["2", "1"][:nvars], ["1"] * len(free)]],
                    "decl_seed": len(out), "stratum": "exhaustive-ia-parameters"})
    # remainders without powers (oracle only, Python text; these texts are inside the fragment of the Lean expression
    # reader, which has Python's `%`): dividend / divisor a name, a number, a sum, a product, a quotient, a negation, a
    # remainder; the remainder as a factor, a summand, negated
    A0, A1, A2 = ["a", 0], ["a", 1], ["a", 2]
    rems = [["%", A0, A1], ["%", ["+", A0, ["c", "1/2"]], A1], ["%", ["*", A0, ["c", "3"]], ["+", A1, A1]],
            ["%", A0, ["*", A1, ["c", "2"]]], ["%", ["neg", A0], A1], ["%", A0, ["/", A1, ["c", "2"]]],
            ["%", ["/", A0, ["c", "4"]], ["/", ["c", "1"], A1]], ["*", ["%", A0, A1], A2], ["-", A2, ["%", A0, A1]],
            ["neg", ["%", A0, A1]], ["%", ["%", A0, A1], ["c", "3/2"]], ["%", ["-", A0, A2], ["*", A1, A1]],
            ["/", ["%", ["*", A0, ["c", "5"]], A1], A2], ["%", A0, ["c", "3"]], ["+", ["%", A0, ["c", "2"]], ["%", A2, A1]]]
    for e in rems:
        content = {"vars": [["x", {"v": "8"}], ["y", {"v": "2"}]], "pars": [["p", {"v": "4"}]],
                   "derived": [["d", _rich0(["x", "p", "y"], e)]],
                   "rxns": [["r", {"args": ["d", "x"], "e": ["*", ["a", 0], ["a", 1]],
                                   "st": [["x", {"c": "-1"}], ["y", {"c": "1"}]]}]]}
        out.append({"content": content, "bad": [], "free": [], "langs": ["py"], "oracle_only": True,
                    "states": [["0", [str(x), str(y)], []] for x, y in ((8, 2), (1, 4), ("1/2", 1), (4, "1/2"))],
                    "decl_seed": len(out), "stratum": "exhaustive-remainders"})
    # control-flow bodies on a grid of states (oracle only, Python text)
    for content in cg.cond_grid_contents():
        out.append({"content": content, "bad": [], "free": [], "langs": ["py"], "oracle_only": True,
                    "states": [["0", [str(x)], []] for x in (-2, -1, 0, 1, 2)],
                    "decl_seed": len(out), "stratum": "exhaustive-conditionals"})
    return out


def evaluate(cases, use_driver=True):
    """-> [(R, M)] ; for a session case M = {"phase1": …, "phase2": …}; M is None for oracle-only cases"""
    Rs = pool().map(_real_worker, cases, chunksize=4)
    Ms = [None] * len(cases)
    if use_driver:
        reqs, where = [], []
        for i, c in enumerate(cases):
            if c.get("oracle_only"):
                continue
            reqs.append(driver_request(c))
            where.append((i, "phase1"))
            if c.get("session"):
                reqs.append(driver_request(c, cg.content_phase2(c["content"])))
                where.append((i, "phase2"))
        res = driver.call_batch(reqs)
        for (i, ph), r in zip(where, res):
            if cases[i].get("session"):
                Ms[i] = Ms[i] or {}
                Ms[i][ph] = r
            else:
                Ms[i] = r
        # the right-hand sides of every emitted text, read by the Lean expression reader (Mxl.C07Expr.runLines) at the
        # first state: a third reading of the real text next to exec / the Python-side evaluator
        ereqs, ewhere = [], []
        for i, (c, R) in enumerate(zip(cases, Rs)):
            if "langs" not in R or not c["states"]:
                continue
            t, xs, ps = c["states"][0]
            for lang, ent in R["langs"].items():
                if "lines" not in ent or "shape" not in ent:
                    continue
                sh = ent["shape"]
                if len(sh["inputs"]) != len(xs) or len(sh["extra"]) != len(ps):
                    continue
                env = [["time", t]] + [[k, v] for k, v in zip(sh["extra"], ps)] + [[k, v] for k, v in zip(sh["inputs"], xs)]
                ereqs.append({"op": "c07", "exprLines": ent["lines"], "jl": lang == "jl", "py": lang == "py", "env": env})
                ewhere.append((i, lang))
        for (i, lang), r in zip(ewhere, driver.call_batch(ereqs) if ereqs else []):
            Rs[i]["langs"][lang]["lean_expr"] = r
    return list(zip(Rs, Ms))


# --------------------------------------------------------------------------- verdicts


def sub_case(case, lang, si=None):
    case = case.get("_orig", case)       # a violation of the second phase is replayed as the whole session
    c = {k: case[k] for k in ("content", "bad", "free", "decl_seed", "session", "oracle_only") if k in case}
    c["langs"] = [lang]
    c["states"] = case["states"] if si is None else [case["states"][si]]
    return c


def classify(case, lang, ent, feats):
    """which listed finding class (if any) this (input, language) falls into; the harness never uses the
    observed result to pick the class"""
    if lang == "jl" and len(case["content"]["vars"]) > 0:
        return "F-C07-4", True
    # F-C07-5 (parameters defined by an initial assignment), F-C07-7 / F-C07-8 (Rust printer) are repaired: such
    # inputs are judged like any other
    # F-C07-3: no reaction changes any variable -> `return ()` / `[()]`.  A variable without a reaction next to
    # variables with one is repaired (it gets `d<x>dt = 0`) and judged like any other input
    if feats["no_eq"]:
        return "F-C07-3", True
    # (F-C07-13, a component called like a generated derivative name d<x>dt, is repaired: generation refuses)
    return None, True


def judge_case(ctx, case, R, M, extern=None):
    """extern: optional {lang: [results]} from node / rustc (thorough tier)"""
    if "build_err" in R and case.get("oracle_only") and R["build_err"].startswith("ZeroDivisionError"):
        ctx.hist["skipped_model_raises"] = ctx.hist.get("skipped_model_raises", 0) + 1
        return      # the model itself divides by zero at its initial state
    if "build_err" in R:
        ctx.violation(case, R, "harness could not build the model")
        return
    if case.get("oracle_only"):
        judge_oracle_only(ctx, case, R, extern)
        return
    if case.get("session") and "phase2" in R:
        M1 = None if M is None else M.get("phase1")
        M2 = None if M is None else M.get("phase2")
        judge_phase(ctx, case, R, M1, extern)
        case2 = dict(case, content=cg.content_phase2(case["content"]), _orig=case,
                     stratum=case.get("stratum", "?") + "/after-constants-changed")
        judge_phase(ctx, case2, R["phase2"], M2, None, tag=" [second generation, after module constants changed]")
        return
    judge_phase(ctx, case, R, M, extern)


def judge_oracle_only(ctx, case, R, extern=None):
    """wider expression fragment: the Python text is executed and compared with the model (relative 1e-9); no Lean
    model, no read-back of the text.  Thorough tier: the TypeScript text of the same model is run with node and compared
    in the same way."""
    ctx.count({k: case[k] for k in ("content", "free", "states", "bad")}, f"{case.get('stratum', '?')}:{cg.shape_of(case['content'])}")
    ent = R["langs"]["py"]
    sc = sub_case(case, "py")
    if all("err" in S or not cg.finite_answer(S) for S in R["spec"]):
        ctx.hist["skipped_model_raises"] = ctx.hist.get("skipped_model_raises", 0) + 1
        return
    if "gen" in ent:
        ctx.judge(sc, ent["gen"], {"ok": "text emitted"}, None, what="py: generation raised (oracle-only stratum)")
        return
    if "lean_expr" in ent and "exec" in ent:
        judge_lean_expr(ctx, sc, "py", dict(ent, runs=ent["exec"]), " (oracle-only stratum)", approx=True)
    classes = cg.rich_classes(case["content"])
    fid = "F-C07-11" if "shared-modulus" in classes else None     # "recip-modulus" (former F-C07-10) is repaired
    for si, _ in enumerate(case["states"]):
        S, Re = R["spec"][si], ent["exec"][si]
        if "err" in S or not cg.finite_answer(S):
            ctx.hist["skipped_model_raises"] = ctx.hist.get("skipped_model_raises", 0) + 1
            continue
        if cg.close(Re, S):
            Re = S
        ctx.judge(sub_case(case, "py", si), Re, S, None, finding=fid,
                  what="py: generated code vs model (oracle-only stratum)")
    ts = R["langs"].get("ts")
    if ts is None or extern is None or extern.get("ts") is None:
        return
    if "gen" in ts:
        ctx.judge(sub_case(case, "ts"), ts["gen"], {"ok": "text emitted"}, None, what="ts: generation raised (oracle-only stratum)")
        return
    for si, _ in enumerate(case["states"]):
        S, Rx = R["spec"][si], extern["ts"][si]
        if Rx is None or "err" in S or not cg.finite_answer(S):
            continue
        if cg.close(Rx, S):
            Rx = S
        ctx.hist["executed_ts_oracle_only"] = ctx.hist.get("executed_ts_oracle_only", 0) + 1
        ctx.judge(sub_case(case, "ts", si), Rx, S, None, finding=fid,
                  what="ts: generated code run by node vs model (oracle-only stratum)")


def judge_lean_expr(ctx, sc, lang, ent, tag="", approx=False):
    """the Lean reader of the emitted right-hand sides (C07_expr_text_value / _unambiguous are about it) against the
    Python-side evaluator of the same text, at the first state; and: do the parentheses of the text coincide with the
    ones the Lean printer writes for the tree it read (policy: parenthesise an operand iff it binds less tightly than
    its position requires, right operands of - and / and of * + strictly)?"""
    L = ent.get("lean_expr")
    if L is None or "runs" not in ent or not ent["runs"]:
        return
    h = ctx.hist
    if "unsupported" in L:
        h["expr_lines_outside_fragment"] = h.get("expr_lines_outside_fragment", 0) + 1
        return
    Rv = ent["runs"][0]
    if Rv == "inexact" or "ok" not in Rv:
        h["expr_text_not_evaluated"] = h.get("expr_text_not_evaluated", 0) + 1
        return
    if "noValue" in L and approx:     # conditional expressions, calls: not the reader's grammar
        h["expr_lines_outside_fragment"] = h.get("expr_lines_outside_fragment", 0) + 1
        return
    if "noValue" in L:
        ctx.add_drift(sc, Rv, L, f"{lang}: the Lean expression reader finds no value where the text has one{tag}")
        return
    vals = dict(map(tuple, L["values"]))
    ret = ent["shape"]["ret"]
    try:
        Lv = {"ok": [C.num(Fraction(vals[n])) for n in ret]}
    except KeyError as e:
        Lv = {"err": ["NameError", str(e.args[0])]}
    h[f"expr_texts_read_by_lean_{lang}"] = h.get(f"expr_texts_read_by_lean_{lang}", 0) + len(L["values"])
    if approx:
        h["expr_texts_with_remainder_read_by_lean"] = h.get("expr_texts_with_remainder_read_by_lean", 0) + sum(
            1 for _, t in ent["lines"] if "%" in t)
    if Lv != Rv and not (approx and cg.close(Lv, Rv)):
        ctx.add_drift(sc, Rv, Lv, f"{lang}: Lean expression reader vs the evaluator of the emitted text{tag}")
    if not all(L.get("treeValue", [])):
        ctx.add_drift(sc, {"treeValue": True}, L["treeValue"], f"{lang}: E.eval of the parsed tree differs from the value read{tag}")
    nd = sum(1 for f in L["reprint"] if not f)
    if nd:
        h[f"expr_parentheses_differ_{lang}"] = h.get(f"expr_parentheses_differ_{lang}", 0) + nd
        smp = ctx.extra_cov.setdefault("expr_parentheses_differ_samples", [])
        if len(smp) < 80:
            smp += [[lang, t] for (k, t), f in zip(ent["lines"], L["reprint"]) if not f][:2]


def judge_phase(ctx, case, R, M, extern=None, tag=""):
    feats = cg.features(case["content"])
    ctx.count({k: case[k] for k in ("content", "free", "states", "bad")}, f"{case.get('stratum', '?')}:{cg.shape_of(case['content'])}"
              + ("+free" if case["free"] else ""))
    # the model must be left as it was (F-C07-6, repaired)
    ctx.judge(sub_case(case, "py"), R["after"], R["before"], None, what="model parameter values after code generation" + tag)
    # the Lean hypothesis of C07_equiv_partial, restated on the wire form
    if M is not None:
        # (a variable no reaction changes is inside the hypothesis since the repair of F-C07-12; "no equation at
        # all" = F-C07-3 is not)
        in_scope = not (feats["dyn_coef"] or feats["no_eq"] or feats["dname_clash"]) and len(case["content"]["vars"]) > 0
        if M["okC"] != in_scope:
            ctx.add_drift(sub_case(case, "py"), {"in_scope": in_scope}, {"okC": M["okC"]}, "hypothesis okC of C07_equiv_partial")
        ctx.hist["okC_true" if M["okC"] else "okC_false"] = ctx.hist.get("okC_true" if M["okC"] else "okC_false", 0) + 1
    py_trees = dict(map(tuple, R["langs"].get("py", {}).get("trees", []))) if "py" in R["langs"] else {}
    for li, lang in enumerate(case["langs"]):
        ent = R["langs"][lang]
        Mg = None if M is None else canon_M_gen(M["langs"][li]["gen"])
        sc = sub_case(case, lang)
        # ---- generation raises / does not raise
        if case.get("bad"):
            Rg = ent.get("gen", {"ok": "text emitted"})
            skipped_stmt = any(f.get("bad") == "loop" for _, f in case["content"]["derived"] + case["content"]["rxns"])
            ctx.judge(sc, Rg, {"err": ["ValueError"]},
                      None if skipped_stmt else (Mg if Mg is None or "err" in Mg else {"ok": "text emitted"}),
                      finding="F-C07-9" if skipped_stmt else None,
                      what=f"{lang}: generation must raise for an untranslatable function")
            continue
        if case["free"] and feats["ia_par"]:
            # free parameters + a parameter defined by an initial assignment: refused (the constants written for such
            # parameters are only valid for the model's own parameter values)
            ctx.judge(sc, ent.get("gen", {"ok": "text emitted"}), {"err": ["NotImplementedError"]},
                      Mg if Mg is None or "err" in Mg else {"ok": "text emitted"},
                      what=f"{lang}: free parameters with an initial-assignment parameter must be refused{tag}")
            continue
        if feats["dname_clash"] and not case.get("bad") and not (case["free"] and feats["ia_par"]):
            # a component called like a generated derivative name d<x>dt: refused (F-C07-13, repaired)
            ctx.judge(sc, ent.get("gen", {"ok": "text emitted"}), {"err": ["ValueError"]},
                      Mg if Mg is None or "err" in Mg else {"ok": "text emitted"},
                      what=f"{lang}: a component called like a derivative name must be refused{tag}")
            continue
        unknown = [k for k in case["free"] if k not in {p for p, _ in case["content"]["pars"]}]
        if unknown:
            # a requested free parameter that is no parameter of the model: `parameters.pop(key)` raises KeyError
            # (C07_free_parameter_unknown)
            ctx.judge(sc, ent.get("gen", {"ok": "text emitted"}), {"err": ["KeyError", unknown[0]]},
                      Mg if Mg is None or "err" in Mg else {"ok": "text emitted"},
                      what=f"{lang}: a free parameter that is no parameter of the model{tag}")
            continue
        if "gen" in ent:
            ctx.judge(sc, ent["gen"], {"ok": "text emitted"}, Mg if Mg is None or "err" in Mg else {"ok": "text emitted"},
                      what=f"{lang}: generation raised")
            continue
        if "text_err" in ent:
            ctx.violation(sc, {"text": ent["text"], "problem": ent["text_err"]}, f"{lang}: emitted text is outside the line grammar")
            continue
        # ---- shape tie (text structure vs Lean program structure)
        if Mg is not None:
            if "ok" not in Mg:
                ctx.add_drift(sc, ent["shape"], Mg, f"{lang}: Lean generator fails where the code emits text")
            elif model_shape(Mg["ok"]) != ent["shape"]:
                ctx.add_drift(sc, ent["shape"], model_shape(Mg["ok"]), f"{lang}: program shape{tag}")
        judge_lean_expr(ctx, sc, lang, ent, tag)
        if lang == "rs" and py_trees:
            ent["rs_paren"] = any(py_trees.get(k) is not None and py_trees[k] != tr for k, tr in map(tuple, ent["trees"]))
        fid, in_model = classify(case, lang, ent, feats)
        # ---- values
        for si, st in enumerate(case["states"]):
            S, S2 = R["spec"][si], R["spec2"][si]
            Rv = ent["runs"][si]
            if Rv == "inexact" or S2 == "inexact" or not cg.answer_exact(S2):
                ctx.hist["skipped_inexact"] = ctx.hist.get("skipped_inexact", 0) + 1
                continue
            if S != S2:
                ctx.violation(sub_case(case, lang, si), {"model": S, "order_free_spec": S2}, "model disagrees with the order-free spec (C01)")
                continue
            if lang == "py":
                Re = ent["exec"][si]
                if "err" in Re and Re["err"][0] == "NameError" and "err" in Rv and Rv["err"][0] == "NameError":
                    Re = Rv  # same failing assignment; name canonicalised to the model's argument order
                if Re != Rv:
                    ctx.violation(sub_case(case, lang, si), {"exec": Re, "evaluator": Rv, "text": ent["text"]},
                                  "py: exec of the text and the subset evaluator disagree (harness self-check)")
                    continue
                Rv = Re
            if extern is not None and lang in extern and extern[lang] is not None:
                Rx = extern[lang][si]
                if Rx is not None:
                    if "err" in Rx and Rx["err"][0] == "NameError" and "err" in Rv and Rv["err"][0] == "NameError":
                        Rx = Rv
                    if Rx != Rv:
                        ctx.violation(sub_case(case, lang, si), {"toolchain": Rx, "evaluator": Rv, "text": ent["text"]},
                                      f"{lang}: real toolchain and the subset evaluator disagree (harness self-check)")
                        continue
                    ctx.hist[f"executed_{lang}"] = ctx.hist.get(f"executed_{lang}", 0) + 1
            Mv = None
            if M is not None and in_model:
                Mv = canon_M_run(M["langs"][li]["gen"], M["langs"][li]["runs"][si])
                Ms = M["spec"][si]
                if "ok" in Ms and Ms != S:
                    ctx.add_drift(sub_case(case, lang, si), S, Ms, "callRhs vs real model")
            ctx.judge(sub_case(case, lang, si), Rv, S, Mv, finding=fid, what=f"{lang}: generated code vs model{tag}")


# --------------------------------------------------------------------------- real toolchains (thorough tier)


def find_node():
    c = sorted(glob("/root/.nvm/versions/node/*/bin/node"), key=lambda p: [int(x) for x in re.findall(r"\d+", p)])
    return c[-1] if c else shutil.which("node")


def find_rustc():
    p = "/root/.cargo/bin/rustc"
    return p if os.path.exists(p) else shutil.which("rustc")


def _fl(q):
    return repr(fexpr.to_float(Fraction(q)))


def ts_to_js(text: str) -> str:
    """strip the type annotations the templates write (`: number`, `: number[]`)"""
    return re.sub(r": number(\[\])?", "", text)


def run_node(node, items):
    """items: [(key, ts_text, states)] -> {key: [result per state]}; one node process"""
    d = WORK / f"c07_node_{os.getpid()}"
    d.mkdir(parents=True, exist_ok=True)
    try:
        parts = ["const out = {};"]
        for key, text, states in items:
            js = ts_to_js(text)
            calls = ", ".join(f"[{_fl(t)}, [{', '.join(_fl(x) for x in xs)}], [{', '.join(_fl(p) for p in ps)}]]" for t, xs, ps in states)
            parts.append(
                f"out[{json.dumps(key)}] = (function() {{ let f; try {{ f = new Function({json.dumps(js + chr(10) + 'return model;')})(); }}"
                f" catch (e) {{ return [{calls}].map(_ => ({{err: [e.name, e.message]}})); }}"
                f" return [{calls}].map(s => {{ try {{ return {{ok: f(s[0], s[1], ...s[2])}}; }} catch (e) {{ return {{err: [e.name, e.message]}}; }} }}); }})();")
        parts.append("console.log(JSON.stringify(out, (k, v) => (typeof v === 'number' && !Number.isFinite(v)) ? String(v) : v));")
        (d / "run.js").write_text("\n".join(parts))
        p = subprocess.run([node, str(d / "run.js")], capture_output=True, text=True, timeout=600, check=False)
        if p.returncode != 0:
            raise RuntimeError(f"node failed: {p.stderr[:500]}")
        raw = json.loads(p.stdout)
    finally:
        shutil.rmtree(d, ignore_errors=True)
    out = {}
    for key, res in raw.items():
        rs = []
        for r in res:
            if "ok" in r:
                v = r["ok"]
                if isinstance(v, list) and all(isinstance(x, (int, float)) for x in v):
                    rs.append({"ok": [C.num(x) for x in v]})
                else:
                    rs.append({"err": ["ReturnNotNumeric"]})
            else:
                name, msg = r["err"]
                if name == "ReferenceError":
                    mm = re.search(r"(?:Cannot access '(\w+)'|^(\w+) is not defined)", msg)
                    rs.append({"err": ["NameError", (mm.group(1) or mm.group(2)) if mm else msg]})
                else:
                    rs.append({"err": [name]})
        out[key] = rs
    return out


def run_rustc(rustc, items):
    """items: [(key, rs_text, states)] -> {key: [result per state]}.
    Texts are compiled one by one first with --emit=metadata (cheap) to classify compile errors; those that
    compile are put into one program and run."""
    d = WORK / f"c07_rust_{os.getpid()}"
    d.mkdir(parents=True, exist_ok=True)
    out = {}
    try:
        good = []

        def check(args):
            idx, (key, text, states) = args
            f = d / f"m{idx}.rs"
            f.write_text("#![allow(warnings)]\n" + text + "\nfn main() {}\n")
            p = subprocess.run([rustc, "--edition", "2021", "--error-format=short", "--emit=metadata", "-o", str(d / f"m{idx}.rmeta"), str(f)],
                               capture_output=True, text=True, timeout=120, check=False)
            return idx, p.returncode, p.stderr

        from concurrent.futures import ThreadPoolExecutor

        with ThreadPoolExecutor(max_workers=min(16, os.cpu_count() or 4)) as ex:
            results = list(ex.map(check, enumerate(items)))
        for idx, rc, err in results:
            key, text, states = items[idx]
            if rc == 0:
                good.append(idx)
                continue
            codes = re.findall(r"error\[(E\d+)\]", err)
            if "E0425" in codes:
                mm = re.search(r"cannot find value `(\w+)`", err)
                r = {"err": ["NameError", mm.group(1) if mm else "?"]}
            elif "E0277" in codes:
                r = {"err": ["TypeError"]}
            elif "E0308" in codes or "E0527" in codes:
                r = {"err": ["ReturnTypeMismatch"]}
            else:
                r = {"err": ["CompileError", err[:300]]}
            out[key] = [r] * len(states)
        if good:
            parts = ["#![allow(warnings)]"]
            main = ["fn main() {"]
            for idx in good:
                key, text, states = items[idx]
                parts.append(f"mod m{idx} {{\n" + text.replace("fn model", "pub fn model") + "\n}")
                for si, (t, xs, ps) in enumerate(states):
                    args = ", ".join([_fl(t), f"&[{', '.join(_fl(x) for x in xs)}]"] + [_fl(p) for p in ps])
                    main.append(f'    println!("{idx} {si} {{:?}}", m{idx}::model({args}));')
            main.append("}")
            (d / "all.rs").write_text("\n".join(parts + main) + "\n")
            p = subprocess.run([rustc, "--edition", "2021", "-C", "opt-level=0", "-o", str(d / "all"), str(d / "all.rs")],
                               capture_output=True, text=True, timeout=900, check=False)
            if p.returncode != 0:
                raise RuntimeError(f"rustc failed on the combined program: {p.stderr[:800]}")
            p = subprocess.run([str(d / "all")], capture_output=True, text=True, timeout=300, check=False)
            for line in p.stdout.splitlines():
                a, b, rest = line.split(" ", 2)
                key, _, states = items[int(a)]
                vals = [float(x) for x in re.findall(r"[-+0-9.eEinfNa]+", rest)]
                out.setdefault(key, [None] * len(states))[int(b)] = {"ok": [C.num(v) for v in vals]}
    finally:
        shutil.rmtree(d, ignore_errors=True)
    return out


def extern_results(ctx, cases, Rs):
    """run TS / Rust texts of a batch with the real toolchains when present"""
    node, rustc = find_node(), find_rustc()
    ctx.extra_cov["toolchains"] = {"node": node or "absent", "rustc": rustc or "absent", "julia": shutil.which("julia") or "absent (Julia text only through the subset evaluator)"}
    ext = [dict() for _ in cases]
    for lang, tool, runner in (("ts", node, run_node), ("rs", rustc, run_rustc)):
        if not tool:
            continue
        items = []
        for ci, (case, R) in enumerate(zip(cases, Rs)):
            ent = R.get("langs", {}).get(lang) if isinstance(R, dict) else None
            if ent and "text" in ent and "text_err" not in ent and lang in case["langs"]:
                items.append((str(ci), ent["text"], case["states"]))
        if not items:
            continue
        try:
            res = runner(tool, items)
        except Exception as e:  # noqa: BLE001
            ctx.notes.append(f"{lang} toolchain run failed: {e!r}"[:300])
            continue
        for k, v in res.items():
            ext[int(k)][lang] = v
    return ext


# --------------------------------------------------------------------------- entry points

CORPUS = [
    # one variable (F-C07-1, repaired), derived declared before its dependency (F-C07-2, repaired)
    {"content": {"vars": [["x", {"v": "1"}]], "pars": [["k", {"v": "2"}]],
                 "derived": [["d2", {"args": ["d1"], "e": ["*", ["c", "2"], ["a", 0]]}], ["d1", {"args": ["x", "k"], "e": ["+", ["a", 0], ["a", 1]]}]],
                 "rxns": [["r", {"args": ["d2"], "e": ["a", 0], "st": [["x", {"c": "-1"}]]}]]},
     "free": [], "states": [["0", ["3"], []]], "stratum": "corpus"},
    # free parameter (F-C07-6, repaired)
    {"content": {"vars": [["x", {"v": "1"}], ["y", {"v": "1"}]], "pars": [["k", {"v": "2"}]], "derived": [],
                 "rxns": [["r", {"args": ["x", "k"], "e": ["*", ["a", 0], ["a", 1]], "st": [["x", {"c": "-1"}], ["y", {"c": "1"}]]}]]},
     "free": ["k"], "states": [["0", ["3", "1"], ["3"]]], "stratum": "corpus"},
    # F-C07-13 (repaired: refused): a reaction CALLED `dydt` next to the variable y: `dydt = k*x` was overwritten by
    # `dydt = -b` before `dxdt = -dydt` read it (model [-3, -6], generated [-3, 3])
    {"content": {"vars": [["y", {"v": "1"}], ["x", {"v": "2"}]], "pars": [["k", {"v": "3"}]], "derived": [],
                 "rxns": [["b", {"args": ["y", "k"], "e": ["*", ["a", 0], ["a", 1]], "st": [["y", {"c": "-1"}]]}],
                          ["dydt", {"args": ["x", "k"], "e": ["*", ["a", 0], ["a", 1]], "st": [["x", {"c": "-1"}]]}]]},
     "free": [], "states": [["0", ["1", "2"], []]], "stratum": "corpus"},
    # a requested free parameter that is no parameter of the model: KeyError (C07_free_parameter_unknown)
    {"content": {"vars": [["x", {"v": "1"}], ["y", {"v": "1"}]], "pars": [["k", {"v": "2"}]], "derived": [],
                 "rxns": [["r", {"args": ["x", "k"], "e": ["*", ["a", 0], ["a", 1]], "st": [["x", {"c": "-1"}], ["y", {"c": "1"}]]}]]},
     "free": ["k", "nope"], "states": [["0", ["3", "1"], ["3", "4"]]], "stratum": "corpus"},
    # no reaction changes any variable (F-C07-3 as it is now): `return ()` / `[()]`
    {"content": {"vars": [["x", {"v": "1"}], ["z", {"v": "1"}]], "pars": [["k", {"v": "2"}]],
                 "derived": [["d", {"args": ["x", "k"], "e": ["*", ["a", 0], ["a", 1]]}]], "rxns": []},
     "free": [], "states": [["0", ["3", "1"], []]], "stratum": "corpus"},
    # variable without a reaction next to one with a reaction (former part of F-C07-3, repaired: dzdt = 0)
    {"content": {"vars": [["x", {"v": "1"}], ["z", {"v": "1"}]], "pars": [["k", {"v": "2"}]], "derived": [],
                 "rxns": [["r", {"args": ["x", "k"], "e": ["*", ["a", 0], ["a", 1]], "st": [["x", {"c": "-1"}]]}]]},
     "free": [], "states": [["0", ["3", "1"], []]], "stratum": "corpus"},
    # parameter defined by an initial assignment (former F-C07-5, repaired: written as a constant)
    {"content": {"vars": [["x", {"v": "1"}], ["y", {"v": "1"}]], "pars": [["k", {"v": "2"}], ["q", {"ia": {"args": ["k"], "e": ["+", ["a", 0], ["c", "1"]]}}]],
                 "derived": [], "rxns": [["r", {"args": ["x", "q"], "e": ["*", ["a", 0], ["a", 1]], "st": [["x", {"c": "-1"}], ["y", {"c": "1"}]]}]]},
     "free": [], "states": [["0", ["3", "1"], []]], "stratum": "corpus"},
    # ... with a free parameter: refused (NotImplementedError)
    {"content": {"vars": [["x", {"v": "1"}], ["y", {"v": "1"}]], "pars": [["k", {"v": "2"}], ["q", {"ia": {"args": ["k"], "e": ["+", ["a", 0], ["c", "1"]]}}]],
                 "derived": [], "rxns": [["r", {"args": ["x", "q"], "e": ["*", ["a", 0], ["a", 1]], "st": [["x", {"c": "-1"}], ["y", {"c": "1"}]]}]]},
     "free": ["k"], "states": [["0", ["3", "1"], ["5"]]], "stratum": "corpus"},
    # ... reading a variable's initial value and a dynamic derived value; read by a derived parameter and by a variable's
    # initial assignment
    {"content": {"vars": [["x", {"v": "1"}], ["y", {"ia": {"args": ["q", "k"], "e": ["+", ["a", 0], ["a", 1]]}}]],
                 "pars": [["k", {"v": "2"}], ["q", {"ia": {"args": ["x", "d2"], "e": ["*", ["a", 0], ["a", 1]]}}]],
                 "derived": [["dq", {"args": ["q", "k"], "e": ["+", ["a", 0], ["a", 1]]}], ["d2", {"args": ["x", "k"], "e": ["*", ["a", 0], ["a", 1]]}]],
                 "rxns": [["r", {"args": ["d2", "dq"], "e": ["*", ["a", 0], ["a", 1]], "st": [["x", {"c": "-1"}], ["y", {"c": "1"}]]}]]},
     "free": [], "states": [["1", ["3", "5"], []]], "stratum": "corpus"},
    # Rust: float * symbol * (sum) lost its parentheses (former F-C07-7); integer stoichiometry mixed i32 and f64 (former
    # F-C07-8); both repaired
    {"content": {"vars": [["x", {"v": "1"}], ["y", {"v": "1"}]], "pars": [["k", {"v": "2"}]],
                 "derived": [["d", {"args": ["y", "k", "x"], "e": ["*", ["*", ["c", "2"], ["a", 0]], ["-", ["a", 1], ["a", 2]]]}]],
                 "rxns": [["r", {"args": ["d"], "e": ["a", 0], "st": [["x", {"c": "-1"}], ["y", {"c": "1"}]]}]]},
     "free": [], "states": [["0", ["3", "5"], []]], "stratum": "corpus"},
    {"content": {"vars": [["x", {"v": "1"}], ["y", {"v": "1"}]], "pars": [["k", {"v": "2"}]], "derived": [],
                 "rxns": [["r", {"args": ["x", "k"], "e": ["*", ["a", 0], ["a", 1]], "st": [["x", {"c": "-2", "int": True}], ["y", {"c": "1"}]]}]]},
     "free": [], "states": [["0", ["3", "5"], []]], "stratum": "corpus"},
]


def _rich(args, e):
    return {"args": args, "e": ["a", 0], "rich": True, "src": {"e": e, "floats": []}}


CORPUS += [
    # wider fragment, remainder with a reciprocal divisor: x % (1/p) was printed `(x % 1/p)` (former F-C07-10, repaired)
    {"content": {"vars": [["x", {"v": "4"}]], "pars": [["p", {"v": "4"}]], "derived": [],
                 "rxns": [["r", dict(_rich(["x", "p"], ["%", ["/", ["c", "125"], ["a", 0]], ["/", ["a", 1], ["*", ["a", 1], ["a", 1]]]]),
                                     st=[["x", {"c": "-1"}]])]]},
     "free": [], "states": [["0", ["4"], []]], "stratum": "corpus", "oracle_only": True, "langs": ["py"]},
    # wider fragment, remainder whose operands share a factor: (-5/2*x) % x is simplified by sympy to -x/2 (F-C07-11)
    {"content": {"vars": [["x", {"v": "4"}]], "pars": [["p", {"v": "4"}]], "derived": [],
                 "rxns": [["r", dict(_rich(["x"], ["%", ["*", ["neg", ["a", 0]], ["c", "5/2"]], ["a", 0]]),
                                     st=[["x", {"c": "-1"}]])]]},
     "free": [], "states": [["0", ["4"], []]], "stratum": "corpus", "oracle_only": True, "langs": ["py"]},
]


# a remainder whose divisor is a compound constant - x % (2*math.pi), x % math.tau, x % (math.pi/2), x % (3*math.e) - in a
# derived quantity and in a rate law: fixed cases, so that the parentheses of `_mod_operands` are checked for every seed
for _div in [["*", ["c", "2"], ["m", "pi"]], ["m", "tau"], ["/", ["m", "pi"], ["c", "2"]], ["*", ["c", "3"], ["m", "e"]]]:
    CORPUS += [
        {"content": {"vars": [["x", {"v": "8"}]], "pars": [["p", {"v": "2"}]],
                     "derived": [["d", _rich(["x", "p"], ["+", ["%", ["a", 0], _div], ["a", 1]])]],
                     "rxns": [["r", {"args": ["d", "x"], "e": ["*", ["a", 0], ["a", 1]], "st": [["x", {"c": "-1"}]]}]]},
         "free": [], "langs": ["py"], "oracle_only": True, "states": [["0", ["8"], []], ["0", ["5"], []]], "stratum": "corpus"},
        {"content": {"vars": [["x", {"v": "8"}]], "pars": [["p", {"v": "2"}]], "derived": [],
                     "rxns": [["r", dict(_rich(["x", "p"], ["*", ["%", ["a", 0], _div], ["a", 1]]), st=[["x", {"c": "-1"}]])]]},
         "free": [], "langs": ["py"], "oracle_only": True, "states": [["0", ["8"], []], ["0", ["5"], []]], "stratum": "corpus"},
    ]


def setup(ctx):
    ctx.translate(tr07.generate)
    ctx.build(PROPS)
    ctx.rule = (
        "random surrogate-free Content (1-4 variables incl. one and incl. variables without reactions, numeric / computed / "
        "state-dependent coefficients, initial-assignment parameters and variables, `time`, shuffled declaration order, an "
        "untranslatable function in one stratum) x optional free parameters x four languages x two integer/dyadic states; "
        "distinct = distinct (content, free, states); non-trivial = the model has a reaction and the state evaluates exactly"
    )
    ctx.assumptions += [
        "fn_to_sympy's translation of the generated straight-line + - * functions is taken as given (C06's subject)",
        "sympy's code printers (with the repository's subclass overrides for Mod, Rust sums inside products and Rust integer "
        "literals) are trusted for py/ts/rs/jl expression syntax and exercised by the expression parser",
        "Julia text is only parsed and evaluated by the subset evaluator (no Julia in the image); TS/Rust texts are run with "
        "node/rustc in the thorough tier when present",
        "names of model components do not collide with generated names (d<x>dt, time, variables, model)",
    ]
    ctx.trusted_base += [
        "translate/c07.py (copies the template strings, tokenised by string.Formatter().parse)",
        "harness line grammar + expression parser for the four printers' syntaxes (cross-checked against CPython exec, and against node/rustc in the thorough tier)",
    ]


def run_batch(ctx, cases, thorough_tools=False):
    if thorough_tools and find_node():
        # wider-expression strata: also generate the TypeScript text, to be run with node
        cases = [dict(c, langs=[*c["langs"], "ts"]) if c.get("oracle_only") and "ts" not in c["langs"] else c for c in cases]
    pairs = evaluate(cases, ctx.driver_ok)
    ext = extern_results(ctx, cases, [R for R, _ in pairs]) if thorough_tools else [None] * len(cases)
    for case, (R, M), e in zip(cases, pairs, ext):
        judge_case(ctx, case, R, M, e)


def run(ctx):
    setup(ctx)
    corpus = []
    for c in CORPUS:
        c = copy.deepcopy(c)
        c.setdefault("bad", [])
        c.setdefault("langs", list(LANGS))
        c.setdefault("decl_seed", 0)
        corpus.append(c)
    tools = ctx.tier == "thorough"
    run_batch(ctx, corpus, tools)
    ex = exhaustive_cases(tools)
    ctx.extra_cov["exhaustive_stratum"] = {"cases": len(ex), "grammar": exhaustive_cases.__doc__.split("—")[1].strip()[:300]}
    for i in range(0, len(ex), 200):
        run_batch(ctx, ex[i:i + 200], tools)
    n = int(os.environ.get("VERIF_N") or ctx.n(300, 20000))
    if not ctx.proof_ok:
        n = max(n, 3000)
        ctx.notes.append("proof side broken: widened search")
    done, batch = 0, 200
    while done < n:
        cases = [gen_case(ctx, done + j) for j in range(min(batch, n - done))]
        run_batch(ctx, cases, tools)
        done += len(cases)
        if len(ctx.violations) > 20:
            break
    if not tools:
        ctx.extra_cov["toolchains"] = {"node": "not used in quick tier", "rustc": "not used in quick tier"}
    shrink_violation(ctx)


def shrink_violation(ctx):
    """delta-debug the smallest failing input (re-running R, S and M) and report the shrunk one as the replay"""
    from vlib.framework import Ctx, canon

    vs = [v for v in ctx.violations if isinstance(v.get("case"), dict) and "content" in v["case"] and v["case"].get("states")]
    if not vs:
        return
    v0 = min(vs, key=lambda v: len(canon(v)))
    what = v0.get("what")
    last = {}

    def still_fails(case):
        c = dict(case)
        c["bad"] = bad_names(c["content"])
        plain = {k for k, p in c["content"]["pars"] if "v" in p}
        if any(f not in plain for f in c["free"]):
            return False
        if len(c["states"][0][1]) != len(c["content"]["vars"]):
            c["states"] = [[t, xs[: len(c["content"]["vars"])] + ["1"] * (len(c["content"]["vars"]) - len(xs)), ps] for t, xs, ps in c["states"]]
        tmp = Ctx(ctx.prop, ctx.tier, ctx.seed)
        (R, M), = evaluate([c], ctx.driver_ok)
        judge_case(tmp, c, R, M)
        hit = [v for v in tmp.violations if v.get("what") == what]
        if hit:
            last["v"] = min(hit, key=lambda v: len(canon(v)))
        return bool(hit)

    small, spent = cg.shrink(v0["case"], still_fails)
    ctx.extra_cov["shrink"] = {"evaluations": spent, "from_bytes": len(canon(v0["case"])), "to_bytes": len(canon(small))}
    if "v" in last and len(canon(last["v"])) < len(canon(v0)):
        ctx.violations.append(dict(last["v"], shrunk_from=len(canon(v0["case"]))))


def replay(ctx, rp):
    case = rp["case"]
    case.setdefault("bad", cg_bad(case))
    case.setdefault("decl_seed", 0)
    case.setdefault("langs", list(LANGS))
    (R, M), = evaluate([case], ctx.driver_ok)
    ext = extern_results(ctx, [case], [R])[0]
    for lang in case["langs"]:
        ent = R.get("langs", {}).get(lang, {})
        print(f"--- {lang} ---\n{ent.get('text', ent)}")
        print("R(evaluator) =", ent.get("runs"), "\nR(exec) =", ent.get("exec"), "\nR(toolchain) =", ext.get(lang))
    print("S =", R.get("spec"), "\nM =", json.dumps(M)[:2000])
    judge_case(ctx, case, R, M, ext)


def cg_bad(case):
    return bad_names(case["content"])
