"""C03 — generators: the base model, per-mutator argument choices (valid and invalid), exhaustive
`build; q1; m; q2` pairs, `build; q; m1; m2; q` triples, and random histories."""
from __future__ import annotations

from . import c03spec
from .c03ops import MUTATORS


def A(i):
    return ["a", i]


def K(q):
    return ["c", str(q)]


def fn(args, e):
    return {"args": list(args), "e": e}


BASE = [
    ["add_data", "dd", "4"],
    ["add_variable", "x", {"v": "1"}],
    ["add_variable", "y", {"v": "2"}],
    ["add_parameter", "k", {"v": "3"}],
    ["add_parameter", "p", {"v": "1/2"}],
    ["add_parameter", "q", {"ia": fn(["dd"], ["*", A(0), K(2)])}],
    ["add_variable", "z", {"ia": fn(["k"], ["+", A(0), K(1)])}],
    # fixed when the cache is built, from the initial value of a variable
    ["add_parameter", "px", {"ia": fn(["x"], ["+", A(0), K(1)])}],
    ["add_derived", "dp", fn(["k", "p"], ["+", A(0), A(1)])],
    ["add_derived", "dv", fn(["x", "dp"], ["*", A(0), A(1)])],
    ["add_reaction", "r1", {**fn(["x", "k"], ["*", A(0), A(1)]), "st": [["x", {"c": "-1"}], ["y", {"c": "1"}]]}],
    ["add_reaction", "r2", {**fn(["dv", "q"], ["+", A(0), A(1)]),
                            "st": [["y", {"c": "-1"}], ["z", fn(["x"], A(0))], ["x", fn(["p"], ["*", A(0), K(2)])]]}],
    ["add_surrogate", "s", {"args": ["x", "y"], "outs": ["so", "sf"],
                            "es": [["*", A(0), K(2)], ["+", A(0), A(1)]], "st": [["sf", [["y", {"c": "1"}]]]]}],
    ["add_derived", "ds", fn(["so"], ["+", A(0), K(1)])],
    ["add_readout", "ro", fn(["x", "ds"], ["+", A(0), A(1)])],
]

QUERIES = [
    ["q", "rhs", ["2", "1", "3"], "1"],
    ["q", "args", None, "0"],
    ["q", "init"],
    ["q", "classes"],
    ["q", "pvals"],
    ["q", "argsro", ["1", "2"], "2"],
    ["q", "call", "1/2", ["3", "1"]],
    ["q", "fluxes", ["1", "1", "2"], "0"],
    ["q", "stoich", ["1", "2", "3"], "1"],
    ["q", "stoichvar", "y", ["2", "1"], "0"],
]
BATTERY = [["q", "init"], ["q", "classes"], ["q", "pvals"], ["q", "argsro", ["2", "3", "1"], "1"],
           ["q", "rhs", ["2", "3", "1"], "1"]]

ALL = [True] * 8 + [False]
ROWS = [["0", ["1", "2", "3"]], ["1/2", ["2", "1"]], ["2", ["3"]]]


def FL(**kw):
    """FLAGS with the given include_* switched (defaults of get_args)"""
    names = ["time", "vars", "pars", "dpars", "dvars", "rxns", "survars", "surfluxes", "readouts"]
    return [kw.get(n, d) for n, d in zip(names, ALL)]


ONLY = lambda *on: [n in on for n in ["time", "vars", "pars", "dpars", "dvars", "rxns", "survars", "surfluxes", "readouts"]]  # noqa: E731

# the public getters beyond QUERIES: name lists, get_arg_names / get_args with include_* flags, raw
# stoichiometries, the three time-course forms, equality with a newly built model
QUERIES2 = [
    ["q", "names", "vars"], ["q", "names", "pars"], ["q", "names", "rxns"], ["q", "names", "readouts"],
    ["q", "names", "surouts"], ["q", "names", "survars"], ["q", "names", "surrxns"], ["q", "names", "unused"],
    ["q", "names", "rawvars"], ["q", "names", "rawpars"], ["q", "names", "rawderived"], ["q", "names", "rawrxns"],
    ["q", "names", "rawreadouts"], ["q", "names", "rawsurs"], ["q", "stoichvar", "z", ["1", "3"], "1"],
    ["q", "argnames", FL(readouts=True)], ["q", "argnames", ONLY("vars", "rxns", "surfluxes")],
    ["q", "argnames", ONLY("dpars")], ["q", "argnames", ONLY("time", "dvars", "survars", "readouts")],
    ["q", "argsf", ["2", "1", "3"], "1", ONLY("dpars", "dvars")], ["q", "argsf", None, "0", ONLY("time", "pars", "survars")],
    ["q", "argsf", ["1", "2"], "1/2", ONLY("readouts", "rxns")], ["q", "argsf", ["1"], "0", FL(time=False, vars=False)],
    ["q", "rawstoich", "y"], ["q", "rawstoich", "z"], ["q", "rawstoich", "nope"],
    ["q", "argstc", ROWS, ALL], ["q", "argstc", ROWS[:2], ONLY("dvars", "readouts", "surfluxes")],
    ["q", "fluxestc", ROWS], ["q", "rhstc", ROWS], ["q", "rhstc", ROWS[1:]],
    ["q", "eq"],
]

V = lambda q: {"v": str(q)}  # noqa: E731
VO = lambda q: {"v": str(q), "obj": True}  # noqa: E731
IA = lambda args, e: {"ia": fn(args, e)}  # noqa: E731
SUR2 = {"args": ["x"], "outs": ["o1", "o2"], "es": [["+", A(0), K(1)], ["*", A(0), K(3)]],
        "st": [["o2", [["x", {"c": "-1"}]]]]}


def sur(outs, args=("x",), flux=None):
    es = [["+", A(0), K(i + 1)] for i in range(len(outs))]
    st = [[flux, [["y", {"c": "2"}]]]] if flux else []
    return {"args": list(args), "outs": list(outs), "es": es, "st": st}


RX = {**fn(["y", "p"], ["*", A(0), A(1)]), "st": [["y", {"c": "-1"}], ["x", {"c": "2"}]]}

CHOICES = {
    "add_parameter": [["n1", V(2)], ["k", V(2)], ["x", V(2)], ["so", V(2)], ["time", V(1)], ["dd", V(1)],
                      ["n1", IA(["k"], ["*", A(0), K(2)])], ["ro", V(1)], ["s", V(1)]],
    "remove_parameter": [["p"], ["x"], ["k"], ["q"], ["nope"], ["dd"]],
    "update_parameter": [["k", V(5)], ["x", V(5)], ["k", IA(["p"], ["+", A(0), K(1)])], ["q", V(7)], ["nope", V(1)],
                         ["k", None], ["q", IA(["k"], A(0))], ["k", None, "meta"], ["p", V(2), "meta"]],
    "scale_parameter": [["k", "2"], ["x", "2"], ["q", "2"], ["nope", "2"], ["p", "1/2"]],
    "make_parameter_dynamic": [["k", None, None], ["k", None, [["nope", "1"]]], ["k", "5", None], ["k", None, [["r1", "2"]]],
                               ["k", None, [["sf", "1"]]], ["k", None, [["r1", "1"], ["nope", "1"]]], ["q", None, None],
                               ["x", None, None], ["nope", None, None], ["p", "2", [["r2", "-1"], ["sf", "2"]]],
                               ["k", None, [["so", "1"]]]],
    "add_parameters": [[[["n1", V(1)], ["n2", V(2)]]], [[["n1", V(1)], ["k", V(2)]]], [[["k", V(1)], ["n1", V(2)]]],
                       [[["n1", V(1)], ["n2", IA(["n1"], A(0))], ["x", V(1)]]],
                       [[["n1", VO(1)], ["n2", {**IA(["k"], A(0)), "obj": True}], ["n3", V(2)]]], [[["n1", VO(1)], ["k", VO(2)]]]],
    "remove_parameters": [[["p", "k"]], [["p", "x"]], [["nope", "p"]], [["p", "p"]]],
    "update_parameters": [[[["k", V(4)], ["p", V(2)]]], [[["k", V(4)], ["x", V(2)]]], [[["nope", V(4)], ["k", V(2)]]],
                          [[["k", VO(4)], ["q", VO(2)], ["p", V(1)]]]],
    "scale_parameters": [[[["k", "2"], ["p", "4"]]], [[["k", "2"], ["nope", "2"]]], [[["q", "2"], ["k", "2"]]]],
    "add_variable": [["n1", V(2)], ["x", V(2)], ["k", V(2)], ["sf", V(2)], ["time", V(1)],
                     ["n1", IA(["x", "k"], ["+", A(0), A(1)])], ["dv", V(1)]],
    "remove_variable": [["y", True], ["k", True], ["x", False], ["z", True], ["nope", True], ["x", True], ["dp", False]],
    "update_variable": [["x", V(5)], ["k", V(5)], ["z", V(1)], ["x", IA(["k"], A(0))], ["nope", V(1)], ["y", V(3), "meta"]],
    "make_variable_static": [["x", None], ["k", None], ["x", "5"], ["z", None], ["nope", None], ["y", "1/2"]],
    "add_variables": [[[["n1", V(1)], ["n2", V(2)]]], [[["n1", V(1)], ["x", V(2)]]], [[["k", V(1)], ["n1", V(2)]]],
                      [[["n1", VO(1)], ["n2", {**IA(["x"], A(0)), "obj": True}]]]],
    "remove_variables": [[["y", "z"], True], [["y", "k"], True], [["nope", "y"], False]],
    "update_variables": [[[["x", V(4)], ["y", V(1)]]], [[["x", V(4)], ["k", V(2)]]], [[["nope", V(4)], ["x", V(2)]]],
                         [[["x", VO(4)], ["z", VO(1)]]]],
    "add_derived": [["n1", fn(["x", "k"], ["+", A(0), A(1)])], ["dp", fn(["k"], A(0))], ["n1", fn(["k"], ["*", A(0), K(2)])],
                    ["x", fn(["k"], A(0))], ["n1", fn(["n1"], A(0))], ["n1", fn(["nope"], A(0))], ["time", fn(["k"], A(0))],
                    ["n1", fn(["r1", "sf"], ["+", A(0), A(1)])]],
    "update_derived": [["dp", ["*", A(0), A(1)], None], ["x", ["*", A(0), A(1)], None], ["dp", None, ["p", "k"]],
                       ["dp", ["-", A(0), A(1)], ["x", "k"]], ["nope", None, ["k"]], ["dv", A(0), ["k"]],
                       ["ds", None, ["sf"]], ["dp", None, None, "meta"]],
    "remove_derived": [["dp"], ["x"], ["dv"], ["ds"], ["nope"], ["r1"]],
    "add_reaction": [["n1", RX], ["r1", RX], ["x", RX], ["so", RX], ["time", RX],
                     ["n1", {**fn(["x"], A(0)), "st": [["y", fn(["k"], A(0))], ["x", fn(["y"], A(0))]]}]],
    "update_reaction": [["r1", ["+", A(0), A(1)], None, None], ["x", None, None, None], ["r1", None, None, [["y", {"c": "3"}]]],
                        ["r1", A(0), ["y"], [["x", {"c": "1"}], ["y", fn(["x"], A(0))]]], ["nope", A(0), ["y"], None],
                        ["r2", None, ["x", "k"], None], ["r1", None, None, None, "meta"]],
    "remove_reaction": [["r1"], ["x"], ["r2"], ["nope"], ["sf"]],
    "add_readout": [["n1", fn(["x", "r1"], ["+", A(0), A(1)])], ["ro", fn(["x"], A(0))], ["x", fn(["x"], A(0))],
                    ["time", fn(["x"], A(0))], ["n1", fn(["nope"], A(0))]],
    "remove_readout": [["ro"], ["x"], ["nope"]],
    "add_surrogate": [["n1", SUR2], ["n1", sur(["o1", "k"])], ["s", SUR2], ["x", SUR2], ["n1", sur(["o1", "o1"])],
                      ["n1", sur(["n1"])], ["n1", sur(["o1", "time"])], ["time", SUR2], ["n1", sur(["o1"], ("dv",), "o1")],
                      ["n1", sur(["so"])],
                      # keyword form: args / outputs / stoichiometries override the object's own
                      ["n1", sur(["so", "sf"]), ["y"], ["o1", "o2"], [["o2", [["x", {"c": "1"}]]]]],
                      ["n1", sur(["o1", "o2"]), None, ["o1", "k"], None], ["n1", sur(["o1"], ("x",), "o1"), ["x", "y"], None, []],
                      ["n1", sur(["so"]), None, ["n1"], None],
                      ["n1", {"args": ["x"], "outs": ["o1", "o2"], "es": [["+", A(0), K(1)], ["*", A(0), K(3)]],
                              "st": [["o1", [["y", fn(["p"], ["*", A(0), K(4)])], ["x", fn(["y"], A(0))]]],
                                     ["o2", [["z", fn(["dd"], A(0))]]]]}]],
    "update_surrogate": [["s", sur(["so", "sf"], ("y",), "sf"), None, None, None], ["s", None, None, ["o8", "o9"], None],
                         ["s", sur(["so", "o9"], ("x",), "o9"), None, None, None], ["s", None, ["y", "x"], None, None],
                         ["s", None, None, None, [["so", [["x", {"c": "1"}]]]]], ["s", sur(["o1", "k"]), None, None, None],
                         ["nope", sur(["o1"]), None, None, None], ["x", sur(["o1"]), None, None, None],
                         ["s", None, None, ["sf", "so"], None], ["s", sur(["o1", "o1"]), None, None, None],
                         ["s", None, None, ["so", "time"], None], ["s", None, None, ["so", "s"], None], ["s", sur(["o7"], ("k",)), ["x"], ["so", "sf"], []],
                         ["s", None, None, None, [["sf", [["y", fn(["dp"], A(0))], ["x", fn(["time"], A(0))]]]]]],
    "remove_surrogate": [["s"], ["x"], ["so"], ["nope"]],
    "add_data": [["n1", "3"], ["dd", "3"], ["x", "3"], ["time", "1"], ["sf", "1"]],
    "update_data": [["dd", "5"], ["zz", "1"], ["x", "1"]],
    "remove_data": [["dd"], ["x"], ["nope"]],
}
assert set(CHOICES) == set(MUTATORS)


def mut_ops(reduced=False):
    out = []
    for m in MUTATORS:
        ch = CHOICES[m][:2] if reduced else CHOICES[m]
        out += [[m, *c] for c in ch]
    return out


def pairs(n_q1=None):
    """every mutator x every argument choice x q1 (or none) x q2; n_q1 limits the q1 forms (quick tier)"""
    q1s = [None, *QUERIES] if n_q1 is None else [None, *QUERIES[:n_q1]]
    for mop in mut_ops():
        for q1 in q1s:
            for q2 in QUERIES:
                mid = ([q1] if q1 else []) + [mop, q2]
                yield {"ops": BASE + mid + BATTERY, "check_from": len(BASE), "stratum": "pair",
                       "shape": f"pair:{mop[0]}"}


def pairs2():
    """the remaining public getters: every mutator x every argument choice x (none | a cache-filling query) x three of
    QUERIES2 (rotating, so that every getter meets every mutator) followed by the equality query and a short battery"""
    k = 0
    for mop in mut_ops():
        for q1 in (None, QUERIES[k % len(QUERIES)]):
            qs = [QUERIES2[(k + j * 7) % (len(QUERIES2) - 1)] for j in range(3)]
            k += 1
            mid = ([q1] if q1 else []) + [mop] + qs + [["q", "eq"]]
            yield {"ops": BASE + mid + BATTERY[-2:], "check_from": len(BASE), "stratum": "pair2",
                   "shape": f"pair2:{mop[0]}"}


# --------------------------------------------------------------------------- function signatures (arity checks)

SIG = lambda f, sig: {**f, "sig": sig}  # noqa: E731
F2 = fn(["x", "k"], ["+", A(0), A(1)])
F1 = fn(["x"], ["*", A(0), K(2)])
F3 = fn(["x", "k", "p"], ["+", A(0), ["*", A(1), A(2)]])

# (op, repair op | None): ops whose function has a stated signature [nargs, ndefaults|null, nkwonly, varargs]
ARITY_OPS = [
    (["add_derived", "n1", SIG(F2, [3, None, 0, False])], ["remove_derived", "n1"]),          # too many parameters
    (["add_derived", "n1", SIG(F2, [1, None, 0, False])], ["update_derived", "n1", ["+", A(0), A(1)], None]),
    (["add_derived", "n1", SIG(F2, [1, None, 0, True])], None),                               # *args: accepted
    (["add_derived", "n1", SIG(F2, [2, 1, 0, False])], None),                                 # f(a0, a1=0.0)
    (["add_derived", "n1", SIG(F2, [2, None, 1, False])], None),                              # f(a0, a1, *, k0=0.0)
    (["add_derived", "n1", SIG(F1, [2, 1, 0, False])], ["update_derived", "n1", None, ["x", "k"]]),  # callable, yet rejected
    (["update_derived", "dp", {"e": ["+", A(0), A(1)], "sig": [3, None, 0, False]}, None], ["update_derived", "dp", ["+", A(0), A(1)], None]),
    (["update_derived", "dp", None, ["k"]], ["update_derived", "dp", None, ["p", "k"]]),      # args shrink, function stays
    (["update_derived", "dv", A(0), None], ["update_derived", "dv", None, ["x"]]),              # one-parameter function, two args
    (["add_reaction", "n1", {**SIG(F2, [3, None, 0, False]), "st": [["y", {"c": "1"}]]}], ["remove_reaction", "n1"]),
    (["update_reaction", "r1", None, ["y"], None], ["update_reaction", "r1", A(0), None, None]),
    (["update_reaction", "r1", {"e": A(0), "sig": [1, None, 0, True]}, None, None], None),
    (["add_parameter", "n1", {"ia": SIG(fn(["k"], A(0)), [2, None, 0, False])}], ["update_parameter", "n1", V(1)]),
    (["update_parameter", "q", {"ia": SIG(fn(["dd"], A(0)), [0, None, 0, False])}], ["scale_parameter", "k", "2"]),
    (["update_variable", "z", {"ia": SIG(fn(["k"], A(0)), [2, None, 0, False])}], ["make_variable_static", "z", None]),
    (["update_variable", "z", {"ia": SIG(fn(["k"], A(0)), [2, None, 0, False])}], ["make_variable_static", "z", "3"]),
    (["add_variables", [["n1", V(1)], ["n2", {"ia": SIG(fn(["x"], A(0)), [2, None, 0, False]), "obj": True}]]],
     ["update_variables", [["n2", V(2)]]]),
    (["update_parameters", [["k", V(2)], ["q", {"ia": SIG(fn(["k"], A(0)), [3, 1, 0, False])}]]], ["scale_parameter", "q", "2"]),
    (["add_readout", "n1", SIG(F1, [2, None, 0, False])], ["remove_readout", "n1"]),
    (["add_readout", "n1", SIG(F3, [2, 1, 0, False])], None),     # nargs + len(defaults) == arity: accepted by the code
    (["add_readout", "n1", SIG(F3, [1, 1, 2, False])], None),     # nargs + len(kwonly) == arity with defaults: accepted
    (["add_readout", "n1", SIG(F3, [1, None, 2, False])], ["remove_readout", "n1"]),  # the same without defaults: rejected
    (["add_readout", "n1", SIG(F3, [5, None, 0, True])], None),   # *args wins over everything
]
# cache-building queries that do not evaluate readouts, and two that build no cache at all
ARITY_QS = [["q", "init"], ["q", "rhs", ["2", "1", "3"], "1"], ["q", "classes"], ["q", "args", None, "0"],
            ["q", "argnames", ONLY("dvars")], ["q", "names", "readouts"], ["q", "argnames", ONLY("vars", "readouts")],
            ["q", "stoich", ["1", "2"], "0"], ["q", "fluxestc", ROWS[:2]]]


def arity_histories():
    """build; [q]; op carrying a function with a stated signature; queries; repair; queries"""
    k = 0
    for op, repair in ARITY_OPS:
        for q1 in (None, ARITY_QS[k % 4]):
            qs = [ARITY_QS[(k + j * 2) % len(ARITY_QS)] for j in range(3)]
            k += 1
            mid = ([q1] if q1 else []) + [op] + qs + ([repair] + qs[:2] + [["q", "pvals"]] if repair else [])
            yield {"ops": BASE + mid, "check_from": len(BASE), "stratum": "arity", "shape": f"arity:{op[0]}"}


def extra_histories():
    """branches that need two steps of preparation: make_parameter_dynamic with a flux that only the SECOND
    surrogate has (the loop passes a surrogate without it), and with fluxes of a reaction and a surrogate at once"""
    two = [["add_surrogate", "n1", SUR2]]
    for q in (None, QUERIES[0]):
        for mpd in (["make_parameter_dynamic", "k", None, [["o2", "1"]]],
                    ["make_parameter_dynamic", "p", "2", [["sf", "2"], ["o2", "-1"], ["r1", "1"]]],
                    ["make_parameter_dynamic", "k", None, [["o2", "1"], ["o1", "1"]]]):
            mid = two + ([q] if q else []) + [mpd, ["q", "stoich", ["1", "2", "3", "1"], "1"], ["q", "rawstoich", mpd[1]],
                                               ["q", "names", "surrxns"]]
            yield {"ops": BASE + mid + BATTERY[-2:], "check_from": len(BASE), "stratum": "extra",
                   "shape": "extra:make_parameter_dynamic"}


SUR3 = {"args": ["x"], "outs": ["o3", "ef"], "es": [["+", A(0), K(1)], ["*", A(0), K(2)]], "st": [["ef", []]]}


def empty_flux_histories():
    """a surrogate flux with an EMPTY stoichiometry (`stoichiometries={"ef": {}}`): `get_surrogate_reaction_names` lists
    it, but no `stoich[...] = …` can be written for it — `make_parameter_dynamic` naming it must be rejected before the
    parameter is converted; the flux shows in the name getters, the stoichiometry tables and `get_args`"""
    pre = [["add_surrogate", "n1", SUR3]]
    for q in (None, QUERIES[0], QUERIES[2]):
        for mpd in (["make_parameter_dynamic", "k", None, [["ef", "1"]]],
                    ["make_parameter_dynamic", "p", "2", [["r1", "1"], ["ef", "-1"]]],
                    ["make_parameter_dynamic", "k", None, [["sf", "1"], ["ef", "2"]]],
                    ["update_surrogate", "n1", None, None, None, [["ef", [["y", {"c": "1"}]]]]],
                    ["update_surrogate", "s", None, None, None, [["sf", []]]],
                    ["remove_variable", "x", True]):
            mid = pre + ([q] if q else []) + [mpd, ["q", "names", "surrxns"], ["q", "names", "survars"],
                                               ["q", "stoich", ["1", "2", "3", "1"], "1"], ["q", "fluxes", None, "0"]]
            yield {"ops": BASE + mid + BATTERY[-2:], "check_from": len(BASE), "stratum": "emptyflux",
                   "shape": f"emptyflux:{mpd[0]}"}
        # the flux gets wired first: now it IS a target
        mid = pre + [["update_surrogate", "n1", None, None, None, [["ef", [["y", {"c": "1"}]]]]]] + ([q] if q else []) + [
            ["make_parameter_dynamic", "k", None, [["ef", "3"]]], ["q", "stoich", ["1", "2", "3", "1"], "1"]]
        yield {"ops": BASE + mid + BATTERY[-2:], "check_from": len(BASE), "stratum": "emptyflux",
               "shape": "emptyflux:wired"}


DEGENERATE = [
    ["add_reaction", "r0", {**fn(["k"], A(0)), "st": []}],                      # a reaction that moves nothing
    ["add_derived", "d0", fn([], K(7))],                                         # a constant: no arguments
    ["add_readout", "ro0", fn([], K(1))],
    ["add_parameter", "p0", {"ia": fn([], K(3))}],                               # assignment without arguments
    ["add_surrogate", "s0", {"args": [], "outs": ["oz"], "es": [K(1)], "st": []}],  # a surrogate without arguments / fluxes
    ["add_surrogate", "s3", SUR3],                                               # an output flux wired to nothing
    ["add_variable", "w", {"v": "0"}],                                           # a variable no reaction touches
]


def degenerate_histories():
    """components of degenerate shape (empty stoichiometry, no arguments, no outputs, an unwired flux, an untouched
    variable) next to the BASE model, then one edit that has to walk over them, then the getters"""
    muts = [["remove_variable", "x", True], ["remove_variable", "w", True], ["make_variable_static", "w", None],
            ["make_variable_static", "x", "2"], ["make_parameter_dynamic", "k", None, [["r0", "1"]]],
            ["make_parameter_dynamic", "p0", None, [["ef", "1"]]], ["make_parameter_dynamic", "p0", None, None],
            ["update_reaction", "r0", None, None, [["w", {"c": "1"}]]], ["update_reaction", "r1", None, None, []],
            ["remove_reaction", "r0"], ["remove_surrogate", "s0"], ["remove_surrogate", "s3"],
            ["update_surrogate", "s0", None, None, ["oa"], None], ["update_surrogate", "s3", None, None, [], None],
            ["update_derived", "d0", None, ["k"]], ["remove_derived", "d0"], ["remove_readout", "ro0"],
            ["scale_parameter", "p0", "2"], ["update_parameter", "p0", {"v": "1"}], ["remove_parameter", "p0"],
            ["add_variable", "ef", {"v": "1"}], ["add_parameter", "oa", {"v": "1"}]]
    qs = [["q", "stoich", ["1", "2", "3", "1"], "1"], ["q", "names", "surrxns"], ["q", "names", "survars"],
          ["q", "names", "unused"], ["q", "fluxes", None, "0"], ["q", "eq"]]
    for q in (None, QUERIES[0]):
        for m in muts:
            mid = DEGENERATE + ([q] if q else []) + [m] + qs
            yield {"ops": BASE + mid + BATTERY, "check_from": len(BASE), "stratum": "degenerate",
                   "shape": f"degenerate:{m[0]}"}


def shadow_histories():
    """a flux that the stoichiometry of a surrogate names but no output produces; with and without a DATA SET of the same
    name: the derivative entry points read fluxes from the argument table (data sets popped) and only the arguments of
    computed coefficients from `data | args` — thorough seed 0 of round 4 found the Lean model reading the flux from the
    data set"""
    su = {"args": ["x"], "outs": ["d9"], "es": [["+", A(0), K(1)]], "st": [["e9", [["x", {"c": "2"}]]]]}
    qs = [["q", "rhs", ["2", "3", "1"], "1"], ["q", "call", "1", ["1", "2", "3"]], ["q", "rhstc", ROWS],
          ["q", "fluxes", None, "0"], ["q", "stoich", ["1", "2", "3", "1"], "1"], ["q", "args", None, "0"]]
    for data in ([], [["add_data", "e9", "1"]], [["add_data", "e9", "1"], ["remove_data", "e9"]],
                 [["add_parameter", "e9", {"v": "1"}]]):
        for q in (None, QUERIES[0]):
            mid = ([q] if q else []) + [["add_surrogate", "n2", su]] + data + qs
            yield {"ops": BASE + mid + BATTERY[-2:], "check_from": len(BASE), "stratum": "shadow",
                   "shape": f"shadow:{len(data)}"}


def alias_histories():
    """the caller keeps a surrogate object and passes it AGAIN (to a second `add_surrogate` with an override, back to
    `update_surrogate`, after the model changed its own copy): the model must not have written into the caller's object,
    so every call sees the object's original content (F-C03-12)"""
    T = {**sur(["o1"]), "tag": "T"}
    AL = {**sur(["o1"]), "alias": "T"}
    tails = [["q", "names", "surouts"], ["q", "args", None, "0"], ["remove_surrogate", "n1"], ["remove_surrogate", "n2"],
             ["add_parameter", "o1", V(1)], ["q", "eq"]]
    bodies = {
        "twice:outputs": [["add_surrogate", "n1", T], ["add_surrogate", "n2", AL, None, ["o2"], None]],
        "twice:plain": [["add_surrogate", "n1", T], ["add_surrogate", "n2", AL]],
        "override-first": [["add_surrogate", "n1", T, ["y"], ["o3"], [["o3", [["x", {"c": "1"}]]]]],
                           ["add_surrogate", "n2", AL]],
        "update-own-then-again": [["add_surrogate", "n1", T], ["update_surrogate", "n1", None, None, ["z1"], None],
                                  ["add_surrogate", "n2", AL]],
        "update-with-kept": [["add_surrogate", "n1", T], ["update_surrogate", "n1", AL, None, ["w1"], None],
                             ["add_surrogate", "n2", AL, None, ["o2"], None]],
        # the model edits the stoichiometries of its surrogates in place (`make_parameter_dynamic`, `remove_variable`):
        # the kept object must not see that
        "inplace:dynamic": [["add_surrogate", "n1", {**sur(["o1"], ("x",), "o1"), "tag": "T"}],
                            ["make_parameter_dynamic", "k", None, [["o1", "3"]]],
                            ["add_surrogate", "n2", {**sur(["o1"], ("x",), "o1"), "alias": "T"}, None, ["o2"], None],
                            ["q", "stoich", ["1", "2", "3", "1"], "1"]],
        "inplace:strip": [["add_surrogate", "n1", {**sur(["o1"], ("x",), "o1"), "tag": "T"}], ["remove_variable", "y", True],
                          ["update_surrogate", "s", {**sur(["o1"], ("x",), "o1"), "alias": "T"}, None, ["so", "sf"], None],
                          ["q", "stoich", ["1", "2", "3", "1"], "1"]],
        "update-other-with-kept": [["add_surrogate", "n1", T], ["add_surrogate", "n2", sur(["o4"])],
                                   ["update_surrogate", "n2", AL, ["y"], ["o5"], None], ["update_surrogate", "n1", AL, None, None, None]],
    }
    for name, body in bodies.items():
        for q in (None, QUERIES[0]):
            mid = body[:1] + ([q] if q else []) + body[1:] + tails
            yield {"ops": BASE + mid + BATTERY[-2:], "check_from": len(BASE), "stratum": "alias", "shape": "alias:" + name}


def scan_histories():
    """how scans and control analysis use a model, without a Simulator: a working copy, then per point
    `update_*` → queries, and the value put back at the end; `scale_parameter` up and down around a query; an
    assignment-defined parameter overwritten by a number and restored"""
    q_rhs, q_flux, q_init = ["q", "rhs", None, "0"], ["q", "fluxes", None, "0"], ["q", "init"]
    q_state = ["q", "fluxes", ["2", "1", "3"], "1"]
    pats = {
        "scan:parameter": [o for v in ("1", "2", "1/2") for o in (["update_parameters", [["k", V(v)]]], q_rhs, q_flux)]
        + [["update_parameters", [["k", V(3)]]], q_rhs],
        "scan:two": [o for v in ("1", "4") for o in (["update_parameters", [["k", V(v)], ["p", V(v)]]], q_flux, ["q", "pvals"])]
        + [["update_parameters", [["k", V(3)], ["p", V("1/2")]]], q_flux],
        "scan:initial": [o for v in ("2", "0") for o in (["update_variables", [["x", V(v)]]], q_init, q_rhs)]
        + [["update_variable", "x", V(1)], q_init, q_rhs],
        "mca:scale": [["scale_parameter", "k", "2"], q_flux, ["scale_parameter", "k", "1/2"], q_flux,
                      ["scale_parameters", [["k", "2"], ["p", "4"]]], q_state, ["scale_parameters", [["k", "1/2"], ["p", "1/4"]]],
                      q_state, ["q", "pvals"]],
        "mca:state": [q_state, ["update_variable", "y", V(4)], q_state, ["q", "stoich", None, "0"], ["update_variable", "y", V(2)],
                      q_state],
        "scan:assigned": [["update_parameter", "q", V(5)], q_rhs, ["q", "classes"],
                          ["update_parameter", "q", {"ia": fn(["dd"], ["*", A(0), K(2)])}], q_rhs, ["q", "pvals"]],
        "scan:unknown": [["update_parameters", [["k", V(1)], ["nope", V(2)]]], q_rhs, ["scale_parameter", "nope", "2"], q_flux],
    }
    pres = ([], [QUERIES[0]], [QUERIES[0], ["fork"]], [["fork"], QUERIES[2]], [QUERIES[2], ["fork", "pickle"]])
    for name, body in pats.items():
        for pre in pres:
            yield {"ops": BASE + pre + body + [["q", "eq"]] + BATTERY[-2:], "check_from": len(BASE), "stratum": "scan",
                   "shape": name}


def readout_data_histories():
    """readouts that name a data set, and a readout that names such a readout (since `fix: readouts can name data sets`
    the readout pass runs on `data | args`); the data set removed / replaced afterwards"""
    ro = [["add_readout", "rd", fn(["dd", "x"], ["+", A(0), A(1)])], ["add_readout", "rd2", fn(["rd", "dd"], ["*", A(0), A(1)])]]
    fl = [False] + [True] * 8
    qs = [["q", "argsro", ["2", "3", "1"], "1"], ["q", "argsf", None, "0", fl], ["q", "argstc", ROWS, fl],
          ["q", "argnames", fl], ["q", "rhs", None, "0"]]
    for mid in ([], [["update_data", "dd", "7"]], [["remove_data", "dd"]], [["remove_data", "dd"], ["add_parameter", "dd", V(2)]],
                [["remove_readout", "rd"]]):
        for q in (None, QUERIES[0]):
            ops = ro + ([q] if q else []) + qs[:2] + mid + qs
            yield {"ops": BASE + ops + BATTERY[-2:], "check_from": len(BASE), "stratum": "readoutdata",
                   "shape": f"readoutdata:{mid[0][0] if mid else 'none'}"}


def readout_order_histories():
    """readouts in dependency order (since `fix: readouts are evaluated in dependency order`): a readout naming a
    LATER-declared readout, one naming an unknown name (MissingDependenciesError), a cycle (CircularDependencyError),
    and the repair of each by a removal; all readout-carrying getters"""
    fl = [False] + [True] * 8
    qs = [["q", "argsro", ["2", "3", "1"], "1"], ["q", "argsf", None, "0", fl], ["q", "argstc", ROWS, fl],
          ["q", "args", None, "0"], ["q", "rhs", None, "0"]]
    bodies = {
        "later": [["add_readout", "ra", fn(["rb", "x"], ["+", A(0), A(1)])], ["add_readout", "rb", fn(["ro", "dd"], ["*", A(0), A(1)])]],
        "unknown": [["add_readout", "ra", fn(["nope"], A(0))]],
        "cycle": [["add_readout", "ra", fn(["rb"], A(0))], ["add_readout", "rb", fn(["ra"], A(0))]],
        "self": [["add_readout", "ra", fn(["ra"], A(0))]],
    }
    for name, body in bodies.items():
        for q in (None, QUERIES[0]):
            ops = body[:1] + ([q] if q else []) + body[1:] + qs + [["remove_readout", "ra"]] + qs[:3]
            yield {"ops": BASE + ops + BATTERY[-2:], "check_from": len(BASE), "stratum": "readoutorder",
                   "shape": "readoutorder:" + name}


def copy_histories():
    """deep copy / pickle round trip of a model with and without a filled cache, then an edit of the copy and queries:
    the copy answers like a fresh model with ITS content, the original keeps its own, `==` ignores the cache"""
    muts = [["update_parameter", "k", V(5)], ["remove_reaction", "r1"], ["add_variable", "n1", V(2)],
            ["scale_parameter", "p", "2"], ["make_variable_static", "y", None], ["remove_surrogate", "s"],
            ["update_data", "dd", "3"], ["add_parameter", "x", V(1)]]
    for how in (["fork"], ["fork", "pickle"]):
        for q in (None, QUERIES[0], QUERIES[2]):
            for i, m in enumerate(muts):
                mid = ([q] if q else []) + [how, m, QUERIES[i % len(QUERIES)], ["q", "eq"], how, QUERIES[(i + 1) % 3]]
                yield {"ops": BASE + mid + BATTERY[-2:], "check_from": len(BASE), "stratum": "copy",
                       "shape": f"copy:{how[-1]}:{m[0]}"}


def probe_histories(names, arglists):
    """BASE; [cache-filling query]; m.<name>(*args); queries — for public methods the model has no op for"""
    for name in names:
        for args in arglists:
            for q in (None, QUERIES[0], QUERIES[2]):
                mid = ([q] if q else []) + [["call", name, args]] + [QUERIES[0], QUERIES[1], ["q", "eq"]]
                yield {"ops": BASE + mid + BATTERY, "check_from": len(BASE), "stratum": "probe",
                       "shape": f"probe:{name}"}


def triples(rng=None, n=None):
    """build; q; m1; m2; q over the reduced argument set (all of them, or a sample of n)"""
    ms = mut_ops(reduced=True)
    qs = QUERIES[:3]
    if n is None:
        for m1 in ms:
            for m2 in ms:
                for qi, q in enumerate(qs):
                    yield {"ops": BASE + [q, m1, m2, qs[(qi + 1) % 3]] + BATTERY[-2:], "check_from": len(BASE),
                           "stratum": "triple", "shape": f"triple:{m1[0]}"}
    else:
        for _ in range(n):
            m1, m2 = rng.choice(ms), rng.choice(ms)
            q, q2 = rng.choice(QUERIES), rng.choice(QUERIES)
            yield {"ops": BASE + [q, m1, m2, q2] + BATTERY[-2:], "check_from": len(BASE), "stratum": "triple",
                   "shape": f"triple:{m1[0]}"}


# --------------------------------------------------------------------------- random histories

POOL = ["a", "b", "c", "d", "e", "f", "g", "h"]
EXPRS1 = [A(0), ["+", A(0), K(1)], ["*", A(0), K(2)], ["neg", A(0)], ["-", A(0), K("1/2")]]
EXPRS2 = [["+", A(0), A(1)], ["*", A(0), A(1)], ["-", A(0), A(1)], ["+", ["*", A(0), K(2)], A(1)]]


def _content_of(ns, extra):
    """minimal content record the spec's Names is rebuilt from (only names matter here)"""
    return extra


class Sim:
    """keeps a wire-form content alongside the history so that arguments can be chosen sensibly
    (it is generator state, never an oracle)"""

    def __init__(self):
        self.c = {k: [] for k in ("vars", "pars", "derived", "readouts", "rxns", "surs", "data")}

    def names(self, kind):
        return [n for n, _ in self.c[kind]]

    def apply(self, op):
        op = c03spec.effective(op)
        ns = c03spec.Names(self.c)
        from .c03ops import PLURAL, singular_ops

        if op[0] in PLURAL:
            # the plural forms validate every element before applying the first
            if c03spec.expected_outcome(self.c, op) in ("ok", None):
                for el in singular_ops(op):
                    if not self._apply1(el):
                        break
            return
        self._apply1(op)

    def _apply1(self, op):
        ns = c03spec.Names(self.c)
        r = ns.step(op)
        if r not in ("ok", None):
            return False
        k, n = op[0], op[1]
        c = self.c

        def drop(kind, name):
            c[kind] = [kv for kv in c[kind] if kv[0] != name]

        def get(kind, name):
            return next(v for kk, v in c[kind] if kk == name)

        def put(kind, name, v):
            for kv in c[kind]:
                if kv[0] == name:
                    kv[1] = v
                    return
            c[kind].append([name, v])

        if k in c03spec.ADD:
            put(c03spec.ADD[k], n, op[2])
        elif k == "add_surrogate":
            put("surs", n, op[2])
        elif k in c03spec.REMOVE or k == "remove_surrogate":
            drop(c03spec.REMOVE.get(k, "surs"), n)
        elif k == "update_parameter":
            if op[2] is not None:
                put("pars", n, op[2])
        elif k == "update_variable":
            put("vars", n, op[2])
        elif k == "scale_parameter":
            put("pars", n, {"v": "1"})
        elif k == "make_parameter_dynamic":
            v = get("pars", n)
            drop("pars", n)
            put("vars", n, v)
        elif k == "make_variable_static":
            v = get("vars", n)
            drop("vars", n)
            put("pars", n, v)
        elif k == "update_derived":
            d = dict(get("derived", n))
            if op[3] is not None:
                d["args"] = op[3]
            put("derived", n, d)
        elif k == "update_reaction":
            d = dict(get("rxns", n))
            if op[3] is not None:
                d["args"] = op[3]
            if op[4] is not None:
                d["st"] = op[4]
            put("rxns", n, d)
        elif k == "update_surrogate":
            d = dict(op[2] if op[2] is not None else get("surs", n))
            if op[3] is not None:
                d["args"] = op[3]
            if op[4] is not None:
                d["outs"] = op[4]
            if op[5] is not None:
                d["st"] = op[5]
            put("surs", n, d)
        elif k == "update_data":
            put("data", n, op[2])
        return True


def random_history(rng, length):
    sim = Sim()
    ops = []

    def usable():
        out = sim.names("vars") + sim.names("pars") + sim.names("derived") + sim.names("rxns") + sim.names("data")
        for _, s in sim.c["surs"]:
            out += s["outs"]
        return out

    def pick_args(n):
        u = usable()
        if not u or rng.random() < 0.04:
            u = u + ["nope"]
        if rng.random() < 0.1:
            u = u + ["time"]
        return [rng.choice(u) for _ in range(n)]

    def mkfn(n=None):
        n = n or rng.choice([1, 1, 2])
        f = fn(pick_args(n), rng.choice(EXPRS1 if n == 1 else EXPRS2))
        if rng.random() < 0.04:
            # a stated signature: rejected by the arity check (never called), or *args (callable with any number)
            f["sig"] = rng.choice([[n + 1, None, 0, False], [n + 1, 1, 0, False], [n, None, 0, True], [0, None, 0, True],
                                   [n, None, 1, False]])
        return f

    def val():
        if rng.random() < 0.25 and usable():
            return {"ia": mkfn()}
        return V(rng.choice([1, 2, 3, "1/2", 0, -1]))

    def elval():
        """element of a plural form: now and then wrapped in a Parameter / Variable object"""
        v = val()
        return {**v, "obj": True} if rng.random() < 0.3 else v

    def coef():
        if rng.random() < 0.3 and usable():
            return fn(pick_args(1), rng.choice(EXPRS1))
        return {"c": str(rng.choice([-2, -1, 1, 2, "1/2"]))}

    def st():
        if rng.random() < 0.12:
            return []  # a flux that is listed but not wired to any variable yet (`stoichiometries={"v": {}}`)
        vs = sim.names("vars")
        cands = vs if vs and rng.random() < 0.95 else vs + ["nope"]
        cands = list(dict.fromkeys(cands))  # a dict has each key once
        if not cands:
            return []
        k = rng.randint(1, min(2, len(cands)))
        return [[c, coef()] for c in rng.sample(cands, k)]

    def fresh():
        free = [n for n in POOL if n not in c03spec.Names(sim.c).taken()]
        return rng.choice(free) if free else "zz"

    def anyname():
        t = sorted(c03spec.Names(sim.c).taken())
        return rng.choice(t + ["nope", "time"]) if t else "nope"

    def target(kind, p_bad=0.2):
        ns = sim.names(kind)
        if ns and rng.random() > p_bad:
            return rng.choice(ns)
        return anyname()

    def newname(p_bad=0.2):
        return fresh() if rng.random() > p_bad else anyname()

    def mksur():
        nout = rng.choice([1, 2])
        outs = [newname(0.1) for _ in range(nout)]
        if nout == 2 and outs[0] == outs[1] and rng.random() < 0.8:
            outs[1] = outs[1] + "2"
        args = pick_args(rng.choice([1, 2]))
        es = [rng.choice(EXPRS1 if len(args) == 1 else EXPRS2) for _ in outs]
        stoich = [[o, st()] for o in outs if rng.random() < 0.5]
        return {"args": args, "outs": outs, "es": es, "st": stoich}

    def fluxname():
        fl = sim.names("rxns") + [f for _, s in sim.c["surs"] for f, _ in s["st"]]
        return rng.choice(fl) if fl and rng.random() < 0.85 else "nope"

    def gen_mut():
        m = rng.choice(MUTATORS)
        if m == "add_parameter":
            return [m, newname(), val()]
        if m == "remove_parameter":
            return [m, target("pars")]
        if m == "update_parameter":
            return [m, target("pars"), None if rng.random() < 0.05 else val()]
        if m == "scale_parameter":
            return [m, target("pars"), str(rng.choice([2, "1/2", 3, -1]))]
        if m == "make_parameter_dynamic":
            stc = None if rng.random() < 0.5 else [[fluxname(), str(rng.choice([1, -1, 2]))] for _ in range(rng.choice([1, 2]))]
            return [m, target("pars"), None if rng.random() < 0.6 else str(rng.choice([1, 5])), stc]
        if m == "add_parameters":
            names = list(dict.fromkeys(newname() for _ in range(rng.choice([1, 2, 3]))))
            return [m, [[n, elval()] for n in names]]
        if m == "remove_parameters":
            return [m, [target("pars") for _ in range(rng.choice([1, 2]))]]
        if m == "update_parameters":
            names = list(dict.fromkeys(target("pars") for _ in range(rng.choice([1, 2, 3]))))
            return [m, [[n, elval()] for n in names]]
        if m == "scale_parameters":
            names = list(dict.fromkeys(target("pars") for _ in range(rng.choice([1, 2]))))
            return [m, [[n, str(rng.choice([2, "1/2"]))] for n in names]]
        if m == "add_variable":
            return [m, newname(), val()]
        if m == "remove_variable":
            return [m, target("vars"), rng.random() < 0.8]
        if m == "update_variable":
            return [m, target("vars"), val()]
        if m == "make_variable_static":
            return [m, target("vars"), None if rng.random() < 0.6 else str(rng.choice([1, 4]))]
        if m == "add_variables":
            names = list(dict.fromkeys(newname() for _ in range(rng.choice([1, 2, 3]))))
            return [m, [[n, elval()] for n in names]]
        if m == "remove_variables":
            return [m, [target("vars") for _ in range(rng.choice([1, 2]))], rng.random() < 0.8]
        if m == "update_variables":
            names = list(dict.fromkeys(target("vars") for _ in range(rng.choice([1, 2]))))
            return [m, [[n, elval()] for n in names]]
        if m == "add_derived":
            return [m, newname(), mkfn()]
        if m == "update_derived":
            n = target("derived")
            cur = next((v for k, v in sim.c["derived"] if k == n), None)
            ar = len(cur["args"]) if cur else 1
            r = rng.random()
            if r < 0.35:
                return [m, n, rng.choice(EXPRS1 if ar == 1 else EXPRS2), None]
            if r < 0.7:
                return [m, n, None, pick_args(ar)]
            f = mkfn()
            return [m, n, f["e"], f["args"]]
        if m == "remove_derived":
            return [m, target("derived")]
        if m == "add_reaction":
            return [m, newname(), {**mkfn(), "st": st()}]
        if m == "update_reaction":
            n = target("rxns")
            cur = next((v for k, v in sim.c["rxns"] if k == n), None)
            ar = len(cur["args"]) if cur else 1
            r = rng.random()
            if r < 0.3:
                return [m, n, rng.choice(EXPRS1 if ar == 1 else EXPRS2), None, None]
            if r < 0.5:
                return [m, n, None, pick_args(ar), None]
            if r < 0.75:
                return [m, n, None, None, st()]
            f = mkfn()
            return [m, n, f["e"], f["args"], st()]
        if m == "remove_reaction":
            return [m, target("rxns")]
        if m == "add_readout":
            return [m, newname(), mkfn()]
        if m == "remove_readout":
            return [m, target("readouts")]
        if m == "add_surrogate":
            if rng.random() < 0.25:
                su, su2 = mksur(), mksur()
                # (the overriding args keep the number of arguments: arity is not the subject here)
                return [m, newname(), su, pick_args(len(su["args"])) if rng.random() < 0.5 else None,
                        su2["outs"] if rng.random() < 0.6 and len(su2["outs"]) == len(su["outs"]) else None,
                        su2["st"] if rng.random() < 0.5 and su2["outs"] == su["outs"] else None]
            return [m, newname(), mksur()]
        if m == "update_surrogate":
            n = target("surs")
            cur = next((v for k, v in sim.c["surs"] if k == n), None)
            r = rng.random()
            if r < 0.4 or cur is None:
                s = mksur()
                if cur is not None and rng.random() < 0.5:
                    s["outs"] = list(cur["outs"])
                    s["es"] = [rng.choice(EXPRS1 if len(s["args"]) == 1 else EXPRS2) for _ in s["outs"]]
                    s["st"] = [[o, st()] for o in s["outs"] if rng.random() < 0.5]
                return [m, n, s, None, None, None]
            if r < 0.55:
                return [m, n, None, pick_args(len(cur["args"])), None, None]
            if r < 0.75:
                outs = [newname(0.1) if rng.random() < 0.6 else o for o in cur["outs"]]
                return [m, n, None, None, outs, None]
            return [m, n, None, None, None, [[o, st()] for o in cur["outs"] if rng.random() < 0.6]]
        if m == "remove_surrogate":
            return [m, target("surs")]
        if m == "add_data":
            return [m, newname(), str(rng.choice([1, 2, 4]))]
        if m == "update_data":
            return [m, target("data"), str(rng.choice([3, 5, "1/2"]))]
        if m == "remove_data":
            return [m, target("data")]
        raise ValueError(m)

    # a small seed model first so that queries have something to answer
    seed = [["add_variable", "a", V(1)], ["add_parameter", "b", V(2)],
            ["add_reaction", "c", {**fn(["a", "b"], ["*", A(0), A(1)]), "st": [["a", {"c": "-1"}]]}]]
    for op in seed[: rng.choice([0, 2, 3, 3])]:
        ops.append(op)
        sim.apply(op)
    kept: dict = {}
    while len(ops) < length:
        r = rng.random()
        if r < 0.03:
            ops.append(rng.choice([["fork"], ["fork", "pickle"]]))
        elif r < 0.35:
            ops.append(rng.choice(QUERIES + BATTERY + QUERIES2))
        else:
            op = gen_mut()
            if op[0] in ("add_surrogate", "update_surrogate") and isinstance(op[2], dict):
                # now and then the caller keeps the surrogate object, and later passes that very object again
                r2 = rng.random()
                if kept and r2 < 0.15:
                    t = rng.choice(sorted(kept))
                    op = [op[0], op[1], {**kept[t], "alias": t}] + list(op[3:])
                elif r2 < 0.35:
                    t = f"T{len(kept)}"
                    kept[t] = dict(op[2])
                    op = [op[0], op[1], {**op[2], "tag": t}] + list(op[3:])
            ops.append(op)
            sim.apply(op)
    return {"ops": ops + BATTERY[-2:], "check_from": 0, "stratum": "random", "shape": f"random:len{(length // 5) * 5}"}
