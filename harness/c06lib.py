"""C06 machinery: program generator (real Python modules), Python-AST -> Lean wire encoder, sympy <-> S-expression
conversion, an exact S-expression evaluator, exact CPython evaluation of the generated functions, and the worker that
runs the real `fn_to_sympy`.

Wire form (decoded by lean/MxlVerif/Driver/H_c06.lean):
  PyExpr  ["num", "n/d"] | ["name", x] | ["attr", "mod.K"] | ["un", op, e] | ["bin", op, l, r]
          | ["cmp", l, [ops], [rs]] | ["ife", c, t, e] | ["call", "f" or "mod.f", [args]] | ["callkw", path, [positional args]]
          | ["unsupported"]      (globals hold ["fn", TARGET] for the callable members a call path can resolve to)
  TARGET  ["user", "mod:fn"] | ["known", "math.sqrt"] | ["unresolved"]
  PyStmt  ["assign", x, e] | ["tuple", [xs], [es]] | ["aug", x, op, e] | ["if", c, [t], [e]] | ["ret", e]
          | ["retnone"] | ["skip"] | ["opaque"]
  FnDef   {"name", "params", "body", "globals": [[name-or-path, ["flt", q] | ["int", q] | ["special", c, q] | ["other"]]]}
  SExpr   ["num", q] | ["sym", n] | ["const", c] | ["bool", b] | ["un", op, a] | ["bin", op, a, b] | ["rel", op, a, b]
          | ["and", a, b] | ["pw", [[e, c], ...]] | ["app", f, [args]]      (+ "or"/"not"/"ite" on the way back from sympy)
"""
from __future__ import annotations

import ast
import builtins
import importlib
import math
import sys
import types
from fractions import Fraction
from pathlib import Path

import numpy as np

# ----------------------------------------------------------------------------- small helpers


def rs(q) -> str:
    q = Fraction(q)
    return str(q.numerator) if q.denominator == 1 else f"{q.numerator}/{q.denominator}"


def vj(v):
    """a value on the wire"""
    if isinstance(v, bool):
        return v
    return rs(v)


SPECIAL = {math.pi: "math.pi", math.e: "math.e", math.tau: "math.tau"}

UNOPS = {ast.UAdd: "uadd", ast.USub: "usub"}
BINOPS = {ast.Add: "add", ast.Sub: "sub", ast.Mult: "mul", ast.Div: "div", ast.Pow: "pow", ast.Mod: "mod",
          ast.FloorDiv: "floordiv"}
CMPOPS = {ast.Gt: "gt", ast.GtE: "ge", ast.Lt: "lt", ast.LtE: "le", ast.Eq: "eq", ast.NotEq: "ne"}

# ----------------------------------------------------------------------------- encoder: Python ast -> wire


_entry_facts = None


def entry_facts_of_repo():
    global _entry_facts
    if _entry_facts is None:
        import ast as _ast

        from translate import c06 as T6
        from vlib.framework import REPO

        try:
            _entry_facts = T6.entry_facts(_ast.parse((REPO / "src" / "mxlpy" / "meta" / "source_tools.py").read_text()))
        except Exception:  # noqa: BLE001  outside the recognised shape: the obligation is broken anyway; encode as repaired
            _entry_facts = (True, True)
    return _entry_facts


_expr_fact = None


def expr_stmt_const_only() -> bool:
    global _expr_fact
    if _expr_fact is None:
        import ast as _ast

        from translate import c06 as T6
        from vlib.framework import REPO

        try:
            T6.body_facts(_ast.parse((REPO / "src" / "mxlpy" / "meta" / "source_tools.py").read_text()))
            _expr_fact = bool(T6._STMT_FACTS.get("exprConstOnly"))
        except Exception:  # noqa: BLE001
            _expr_fact = True
    return _expr_fact


def find_def(tree, fn):
    """the `def` a function object was made from: module-level or nested (factories, decorators), by name and first line"""
    import inspect

    raw = inspect.unwrap(fn)
    code = getattr(raw, "__code__", None)
    cands = [n for n in ast.walk(tree) if isinstance(n, ast.FunctionDef) and n.name == getattr(raw, "__name__", None)]
    if not cands:
        return None
    if code is None:
        return cands[0]
    return min(cands, key=lambda n: abs(min([n.lineno, *[d.lineno for d in n.decorator_list]]) - code.co_firstlineno))


class Encoder:
    """Encodes a function and every user function its calls can reach.  Call targets and module-level constants
    are resolved with Python's own scoping (module namespace), not with the code under test."""

    def __init__(self, known_keys: list[str], gen_modules: dict[str, types.ModuleType]):
        self.gen_modules = gen_modules
        ns = {"math": math, "np": np, **vars(builtins)}
        self.known_by_id: dict[int, str] = {}
        for k in known_keys:  # later duplicates of the same object win, as in a dict literal
            try:
                self.known_by_id[id(eval(k, ns))] = k  # noqa: S307
            except Exception:  # noqa: BLE001
                pass
        self.prog: dict[str, dict] = {}
        self.features: set[str] = set()

    helpers_of = None
    n_pre = 0
    stmt_classes: list = []
    ret_class = None
    cb: list = []

    def has_source(self, fn) -> bool:
        mod = sys.modules.get(fn.__module__)
        f = getattr(mod, "__file__", None)
        if not f or not f.endswith(".py"):
            return False
        try:
            tree = ast.parse(Path(f).read_text())
        except (OSError, SyntaxError):
            return False
        return find_def(tree, fn) is not None

    def qual(self, fn) -> str:
        return f"{fn.__module__}:{fn.__name__}"

    def add_fn(self, fn) -> str:
        q = self.qual(fn)
        if q in self.prog:
            return q
        outermost = self.helpers_of is None
        if outermost:
            self.helpers_of = q
        mod = sys.modules[fn.__module__]
        src = Path(mod.__file__).read_text()
        tree = ast.parse(src)
        import inspect

        node = find_def(tree, fn)
        a = node.args
        params = [x.arg for x in [*a.posonlyargs, *a.args]]
        other = bool(a.vararg or a.kwonlyargs or a.kwarg)
        # a decorator that wraps (functools.wraps): inspect.getsource reads the wrapped function -> refused
        wrapped = inspect.unwrap(fn) is not fn
        # free variables: numbers are bound like function-local constants (they shadow module constants of the same name);
        # anything else is refused
        closure_items, closure_bad = [], False
        code, cells = getattr(fn, "__code__", None), getattr(fn, "__closure__", None)
        if code is not None and cells:
            self.features.add("closure")
            for nm, cell in zip(code.co_freevars, cells):
                try:
                    val = cell.cell_contents
                except ValueError:
                    closure_bad = True
                    continue
                item = self.gval(val)
                if item[0] in ("flt", "int"):
                    closure_items.append([nm, item])
                elif item[0] == "special":
                    closure_items.append([nm, ["flt", item[2]]])
                    self.features.add("closure_special_const")
                else:
                    closure_bad = True
        if wrapped:
            self.features.add("wrapped")
        if closure_bad:
            self.features.add("closure_non_number")
        # what the CURRENT source does with them (facts read by translate/c06.py): without the repairs a wrapped
        # function is translated from the wrapped function's body and free variables fall back to module constants
        wr_refused, cl_cells = entry_facts_of_repo()
        if not wr_refused:
            wrapped = False
        if not cl_cells:
            closure_items, closure_bad = [], False
        if a.posonlyargs:
            self.features.add("sig_posonly")
        if other:
            self.features.add("sig_other_params")
        self.prog[q] = {}  # placeholder (recursion guard)
        glob: dict[str, list] = {}
        local = (set(params) | {x.arg for x in a.kwonlyargs} | {x.arg for x in (a.vararg, a.kwarg) if x}
                 | assigned_names(node.body) | {nm for nm, _ in closure_items})
        self.paths = used_paths(node)
        body = [self.stmt(s, mod, local, glob) for s in node.body]
        if closure_items:
            body = [["import", closure_items], *body]
        if wrapped or closure_bad:
            body = [["opaque"], *body]
        self.prog[q] = {"name": q, "params": params, "body": body, "globals": [[k, v] for k, v in glob.items()],
                        "nposonly": len(a.posonlyargs), "otherparams": other}
        if outermost:
            self.n_pre = len(body) - len(node.body)  # statements the encoder put in front (closure bindings / refusal)
            # the function asked for (not its callees): the real helpers on the (branch, rest) pairs `_handle_fn_body` meets
            self.stmt_classes = [type(s).__name__ for s in node.body]
            ret = [s for s in node.body if not (isinstance(s, ast.Pass) or (isinstance(s, ast.Expr) and isinstance(s.value, ast.Constant)))]
            self.ret_class = (type(ret[0].value).__name__ if len(node.body) <= 2 and len(ret) == 1 and isinstance(ret[0], ast.Return)
                              and ret[0].value is not None and (len(node.body) == 1 or ret[0] is node.body[1]) else None)
            self.cb = []
            self._branch_pairs(node.body, body[self.n_pre:])
        return q

    def _branch_pairs(self, nodes, enc):
        """every (branch, rest) pair `_handle_fn_body` passes to `_check_branch`, with the real helper's verdicts"""
        from mxlpy.meta import source_tools as st

        chk = getattr(st, "_check_branch", None)
        ar = getattr(st, "_always_returns", None)
        for i, (n, e) in enumerate(zip(nodes, enc)):
            if not isinstance(n, ast.If) or e[0] != "if":
                continue
            rest_n, rest_e = list(nodes[i + 1:]), list(enc[i + 1:])
            branches = [(n.body, e[2])]
            if n.orelse and not (len(n.orelse) == 1 and isinstance(n.orelse[0], ast.If)):
                branches.append((n.orelse, e[3]))
            elif n.orelse:
                # elif: pushed back in front of the remaining body
                self._branch_pairs([n.orelse[0], *rest_n], [e[3][0], *rest_e])
            for bn, be in branches:
                if chk is not None and len(self.cb) < 24:
                    try:
                        chk(bn, rest_n)
                        ok = True
                    except NotImplementedError:
                        ok = False
                    self.cb.append({"b": be, "rest": rest_e, "real_ok": ok,
                                    "real_ret": None if ar is None else bool(ar(bn))})
                self._branch_pairs(bn, be)

    # -- expressions
    def gval(self, obj):
        if isinstance(obj, bool):
            return ["other"]
        if isinstance(obj, float):
            if not math.isfinite(obj):
                return ["other"]
            if obj in SPECIAL:
                return ["special", SPECIAL[obj], rs(Fraction(obj))]
            return ["flt", rs(Fraction(obj))]
        if isinstance(obj, int):
            return ["int", rs(obj)]
        return ["other"]

    def fn_gval(self, obj):
        """a callable object -> ["fn", TARGET] (a user function is encoded too)"""
        key = self.known_by_id.get(id(obj))
        if key is None and isinstance(obj, types.FunctionType) and self.has_source(obj):
            self.features.add("call_user" if obj.__module__ in self.gen_modules else "call_library")
            saved = self.paths
            q = self.add_fn(obj)
            self.paths = saved
            return ["fn", ["user", q]]
        self.features.add("call_known" if key else "call_foreign")
        return ["fn", ["known", key or f"?{getattr(obj, '__name__', 'callable')}"]]

    def obj_gval(self, obj):
        if callable(obj):
            return self.fn_gval(obj)
        return self.gval(obj)

    def import_items(self, s):
        """function-local import statement -> [[name, ITEM]]; ITEM = ["flt", q] | ["int", q] | ["objs", [[path, GVAL]]] | ["other"]"""
        items = []

        def module_item(name, module):
            ps = [[name, ["other"]]]
            for path in sorted(self.paths):
                parts = path.split(".")
                if parts[0] != name or len(parts) < 2:
                    continue
                obj = module
                for a in parts[1:]:
                    obj = getattr(obj, a, _MISSING)
                    if obj is _MISSING:
                        break
                if obj is not _MISSING:
                    ps.append([path, self.obj_gval(obj)])
            return [name, ["objs", ps]]

        for al in s.names:
            try:
                if isinstance(s, ast.Import):
                    if al.asname is None and "." in al.name:
                        return None  # `import a.b` binds `a`: not encoded
                    items.append(module_item(al.asname or al.name, importlib.import_module(al.name)))
                    continue
                if s.level or s.module is None:
                    return None
                module = importlib.import_module(s.module)
                el = getattr(module, al.name, _MISSING)
            except Exception:  # noqa: BLE001
                return None
            name = al.asname or al.name
            if el is _MISSING or al.name == "*":
                return None
            if isinstance(el, bool):
                items.append([name, ["other"]])
            elif isinstance(el, float):
                items.append([name, ["flt", rs(Fraction(el))] if math.isfinite(el) else ["other"]])
            elif isinstance(el, int):
                items.append([name, ["int", rs(el)]])
                self.features.add("local_import_int")
            elif callable(el):
                items.append([name, ["objs", [[name, self.fn_gval(el)]]]])
            elif isinstance(el, types.ModuleType):
                items.append(module_item(name, el))
            else:
                items.append([name, ["other"]])
                self.features.add("local_import_other")
        return items

    def resolve_path(self, node, mod):
        """ast.Name / ast.Attribute chain -> (dotted text, object or None)"""
        parts = []
        n = node
        while isinstance(n, ast.Attribute):
            parts.append(n.attr)
            n = n.value
        if not isinstance(n, ast.Name):
            return None, None
        parts.append(n.id)
        parts.reverse()
        obj = vars(mod).get(parts[0], _MISSING)
        for p in parts[1:]:
            if obj is _MISSING:
                break
            if isinstance(obj, type):
                self.features.add("class_attr")
            obj = getattr(obj, p, _MISSING)
        return ".".join(parts), (None if obj is _MISSING else obj)

    def expr(self, n, mod, local, glob):
        E = lambda x: self.expr(x, mod, local, glob)  # noqa: E731
        if isinstance(n, ast.Constant):
            v = n.value
            if isinstance(v, bool) or not isinstance(v, (int, float)) or (isinstance(v, float) and not math.isfinite(v)):
                self.features.add("unsupported_expr")
                return ["unsupported"]
            return ["num", rs(Fraction(v))]
        if isinstance(n, ast.Name):
            # the module-level object of that name is recorded even when the name is local: the translator falls back
            # to it whenever its symbol table has no entry (Python's own semantics in the model looks at locals first)
            obj = vars(mod).get(n.id, _MISSING)
            if obj is not _MISSING and n.id not in glob:
                glob[n.id] = self.gval(obj)
            if n.id not in local:
                if obj is not _MISSING:
                    self.features.add("global_" + glob[n.id][0])
                else:
                    self.features.add("undefined_name")
            return ["name", n.id]
        if isinstance(n, ast.Attribute):
            path, obj = self.resolve_path(n, mod)
            if path is None:
                self.features.add("unsupported_expr")
                return ["unsupported"]
            glob[path] = self.gval(obj) if obj is not None else ["other"]
            self.features.add("attr_" + glob[path][0])
            return ["attr", path]
        if isinstance(n, ast.UnaryOp):
            self.features.add("unop" if type(n.op) in UNOPS else "unop_other")
            return ["un", UNOPS.get(type(n.op), "other"), E(n.operand)]
        if isinstance(n, ast.BinOp):
            op = BINOPS.get(type(n.op), "other")
            self.features.add("op_" + op)
            return ["bin", op, E(n.left), E(n.right)]
        if isinstance(n, ast.Compare):
            ops = [CMPOPS.get(type(o), "other") for o in n.ops]
            for o in ops:
                self.features.add("cmp_" + ("eqne" if o in ("eq", "ne") else "other" if o == "other" else "ord"))
            if len(ops) > 1:
                self.features.add("cmp_chain")
            return ["cmp", E(n.left), ops, [E(c) for c in n.comparators]]
        if isinstance(n, ast.IfExp):
            self.features.add("ifexp")
            if not isinstance(n.test, ast.Compare):
                self.features.add("truthiness_test")
            return ["ife", E(n.test), E(n.body), E(n.orelse)]
        if isinstance(n, ast.Call):
            if any(isinstance(a, ast.Starred) for a in n.args) or any(k.arg is None for k in n.keywords):
                self.features.add("unsupported_expr")
                return ["unsupported"]
            args = [E(a) for a in n.args]
            for k in n.keywords:
                E(k.value)  # only for the globals / features it mentions; the translator never looks at keywords
            # a call with keyword arguments keeps its positional arguments only (`callkw`: no Python semantics in the model)
            tag = "callkw" if n.keywords else "call"
            if n.keywords:
                self.features.add("call_kw")
                if not n.args:
                    self.features.add("call_kw_nopos")
            path, obj = self.resolve_path(n.func, mod)
            if path is None:
                self.features.add("unsupported_expr")
                return ["unsupported"]
            # the model looks `path` up among the callable members recorded in `globals` (a snapshot of the module
            # namespace, like the float constants); what is not recorded is "py_fn is None"
            if obj is None or not callable(obj):
                self.features.add("call_unresolved")
                return [tag, path, args]
            if isinstance(obj, types.FunctionType) and self.known_by_id.get(id(obj)) is None and self.has_source(obj):
                if len(args) < obj.__code__.co_argcount and not n.keywords:
                    self.features.add("call_fewer_args")
                if obj.__defaults__ or obj.__kwdefaults__ or obj.__code__.co_kwonlyargcount:
                    self.features.add("callee_defaults")
            glob[path] = self.fn_gval(obj)
            return [tag, path, args]
        self.features.add("unsupported_expr")
        return ["unsupported"]

    # -- statements
    def stmt(self, s, mod, local, glob):
        E = lambda x: self.expr(x, mod, local, glob)  # noqa: E731
        if isinstance(s, ast.Assign):
            if len(s.targets) == 1 and isinstance(s.targets[0], ast.Name):
                return ["assign", s.targets[0].id, E(s.value)]
            t = s.targets[0]
            if len(s.targets) > 1 and all(isinstance(x, ast.Name) for x in s.targets):
                self.features.add("chained_assign")
                return ["multi", [x.id for x in s.targets], E(s.value)]
            if (len(s.targets) == 1 and isinstance(t, ast.Tuple) and isinstance(s.value, ast.Tuple)
                    and all(isinstance(e, ast.Name) for e in t.elts)):
                self.features.add("tuple_assign")
                return ["tuple", [e.id for e in t.elts], [E(v) for v in s.value.elts]]
            if (len(s.targets) == 1 and isinstance(t, ast.Tuple) and not isinstance(s.value, ast.Tuple)
                    and all(isinstance(e, ast.Name) for e in t.elts)):
                self.features.add("iter_unpack")
                return ["unpack", [e.id for e in t.elts], E(s.value)]
            self.features.add("opaque_stmt")
            return ["opaque"]
        if isinstance(s, ast.AugAssign) and isinstance(s.target, ast.Name):
            self.features.add("aug_assign")
            return ["aug", s.target.id, BINOPS.get(type(s.op), "other"), E(s.value)]
        if isinstance(s, ast.If):
            self.features.add("if")
            if not isinstance(s.test, ast.Compare):
                self.features.add("truthiness_test")
            if len(s.orelse) == 1 and isinstance(s.orelse[0], ast.If):
                self.features.add("elif")
            elif s.orelse:
                self.features.add("else")
            return ["if", E(s.test), [self.stmt(x, mod, local, glob) for x in s.body],
                    [self.stmt(x, mod, local, glob) for x in s.orelse]]
        if isinstance(s, ast.Return):
            return ["retnone"] if s.value is None else ["ret", E(s.value)]
        if isinstance(s, ast.Pass) or (isinstance(s, ast.Expr) and isinstance(s.value, ast.Constant)):
            return ["skip"]
        if isinstance(s, ast.Expr):
            self.features.add("expr_stmt")
            # refused by the repaired code; the unrepaired one skipped every expression statement
            return ["opaque"] if expr_stmt_const_only() else ["skip"]
        if isinstance(s, (ast.Import, ast.ImportFrom)):
            # function-local imports: `ctx.modules` / `ctx.fns` / `ctx.symbols` of the model (PyStmt.importS)
            self.features.add("local_import")
            if any(a.asname for a in s.names):
                self.features.add("local_import_alias")
            items = self.import_items(s)
            if items is None:
                self.features.add("local_import_unencoded")
                return ["skip"]
            return ["import", items]
        self.features.add("opaque_stmt")
        return ["opaque"]


_MISSING = object()


def assigned_names(body) -> set[str]:
    out: set[str] = set()
    for s in body:
        for n in ast.walk(s):
            if isinstance(n, ast.Name) and isinstance(n.ctx, ast.Store):
                out.add(n.id)
            elif isinstance(n, (ast.Import, ast.ImportFrom)):
                out |= {(a.asname or a.name).split(".")[0] for a in n.names}
    return out


def used_paths(fn_node) -> set[str]:
    """source text of every dotted attribute chain rooted at a name that occurs in the function"""
    out: set[str] = set()
    for n in ast.walk(fn_node):
        if isinstance(n, ast.Attribute):
            parts = []
            m = n
            while isinstance(m, ast.Attribute):
                parts.append(m.attr)
                m = m.value
            if isinstance(m, ast.Name):
                parts.append(m.id)
                out.add(".".join(reversed(parts)))
    return out


# ----------------------------------------------------------------------------- sympy -> wire, wire -> sympy


def sym2j(e):
    """sympy expression -> S-expression (for exact evaluation; n-ary Add/Mul/And are folded left)"""
    import sympy
    from sympy.logic.boolalg import BooleanFalse, BooleanTrue

    if e is True or e is False:
        return ["bool", bool(e)]
    if isinstance(e, (BooleanTrue, BooleanFalse)):
        return ["bool", bool(e)]
    if isinstance(e, sympy.Float):
        return ["num", rs(Fraction(float(e)))] if e.is_finite else ["const", "nan"]
    if isinstance(e, sympy.Rational):
        return ["num", rs(Fraction(int(e.p), int(e.q)))]
    if isinstance(e, sympy.Symbol):
        return ["sym", e.name]
    if e is sympy.pi:
        return ["const", "pi"]
    if e is sympy.E:
        return ["const", "E"]
    if isinstance(e, sympy.Number) or e in (sympy.zoo, sympy.nan, sympy.oo, -sympy.oo):
        return ["const", "nan"]
    if isinstance(e, sympy.Add):
        return _fold("add", [sym2j(a) for a in e.args])
    if isinstance(e, sympy.Mul):
        return _fold("mul", [sym2j(a) for a in e.args])
    if isinstance(e, sympy.Pow):
        return ["bin", "pow", sym2j(e.args[0]), sym2j(e.args[1])]
    if isinstance(e, sympy.Mod):
        return ["bin", "mod", sym2j(e.args[0]), sym2j(e.args[1])]
    if isinstance(e, sympy.Piecewise):
        return ["pw", [[sym2j(x), sym2j(c)] for x, c in e.args]]
    rel = {sympy.StrictGreaterThan: "gt", sympy.GreaterThan: "ge", sympy.StrictLessThan: "lt", sympy.LessThan: "le",
           sympy.Equality: "eq", sympy.Unequality: "ne"}
    if type(e) in rel:
        return ["rel", rel[type(e)], sym2j(e.args[0]), sym2j(e.args[1])]
    if isinstance(e, sympy.And):
        return ["andn", [sym2j(a) for a in e.args]]
    if isinstance(e, sympy.Or):
        return ["orn", [sym2j(a) for a in e.args]]
    if isinstance(e, sympy.Not):
        return ["not", sym2j(e.args[0])]
    if isinstance(e, sympy.ITE):
        return ["ite", *[sym2j(a) for a in e.args]]
    fn = {sympy.floor: "floor", sympy.ceiling: "ceil", sympy.Abs: "abs", sympy.Min: "min", sympy.Max: "max",
          sympy.sign: "sign"}
    if type(e) in fn:
        return ["app", fn[type(e)], [sym2j(a) for a in e.args]]
    return ["opaque", type(e).__name__]


def _fold(op, js):
    acc = js[0]
    for j in js[1:]:
        acc = ["bin", op, acc, j]
    return acc


MEANING_TO_SYMPY = {
    "abs": "Abs", "pos": "Id", "sign": "sign", "floor": "floor", "ceil": "ceiling", "min": "Min", "max": "Max",
    "add": "Add", "pow": "Pow", "mod": "Mod", "gt": "StrictGreaterThan", "ge": "GreaterThan", "lt": "StrictLessThan",
    "le": "LessThan", "sqrt": "sqrt", "exp": "exp", "log": "log", "sin": "sin", "cos": "cos", "tan": "tan",
    "sinh": "sinh", "cosh": "cosh", "tanh": "tanh", "cbrt": "cbrt", "acos": "acos", "asin": "asin", "atan": "atan",
    "atan2": "atan2", "erf": "erf", "gamma": "gamma", "factorial": "factorial",
}


def j2sym(j):
    """S-expression from the Lean model -> sympy, with the constructors the code under test uses"""
    import sympy

    k = j[0]
    if k == "num":
        return sympy.Float(float(Fraction(j[1])))
    if k == "sym":
        return sympy.Symbol(j[1])
    if k == "const":
        return eval(j[1], {"sympy": sympy})  # noqa: S307  (text of a KNOWN_CONSTANTS value)
    if k == "bool":
        return bool(j[1])
    if k == "un":
        a = j2sym(j[2])
        return +a if j[1] == "pos" else -a
    if k == "bin":
        a, b = j2sym(j[2]), j2sym(j[3])
        return {"add": lambda: a + b, "sub": lambda: a - b, "mul": lambda: a * b, "div": lambda: a / b,
                "pow": lambda: a**b, "mod": lambda: a % b, "floordiv": lambda: a // b}[j[1]]()
    if k == "rel":
        a, b = j2sym(j[2]), j2sym(j[3])
        return {"gt": lambda: a > b, "ge": lambda: a >= b, "lt": lambda: a < b, "le": lambda: a <= b,
                "eq": lambda: sympy.Eq(a, b), "ne": lambda: sympy.Ne(a, b)}[j[1]]()
    if k == "and":
        return sympy.And(j2sym(j[1]), j2sym(j[2]))
    if k == "pw":
        return sympy.Piecewise(*[(j2sym(e), j2sym(c)) for e, c in j[1]])
    if k == "app":
        f = getattr(sympy, MEANING_TO_SYMPY[j[1]])
        return sympy.Float(f(*[j2sym(a) for a in j[2]]))
    raise ValueError(f"cannot rebuild {k}")


# ----------------------------------------------------------------------------- exact evaluation of an S-expression


class Undef(Exception):
    pass


def _num(v):
    if isinstance(v, bool) or not isinstance(v, Fraction):
        raise Undef
    return v


def _pow(a: Fraction, b: Fraction) -> Fraction:
    if b.denominator != 1:
        raise Undef  # outside the exact model
    n = b.numerator
    if abs(n) > 64:
        raise Undef
    if n >= 0:
        return a**n
    if a == 0:
        raise Undef
    return Fraction(1) / a ** (-n)


def evalj(j, env: dict):
    """value (Fraction | bool) of an S-expression under a valuation of its symbols; Undef where it has none"""
    k = j[0]
    if k == "num":
        return Fraction(j[1])
    if k == "sym":
        if j[1] not in env:
            raise Undef
        return env[j[1]]
    if k == "bool":
        return bool(j[1])
    if k == "const" and j[1] in ("pi", "E"):
        # sympy.pi / sympy.E: evaluated at the double CPython uses (compared with the 1e-9 tolerance)
        return Fraction(math.pi if j[1] == "pi" else math.e)
    if k == "un":
        a = _num(evalj(j[2], env))
        return a if j[1] == "pos" else -a
    if k == "bin":
        a, b = _num(evalj(j[2], env)), _num(evalj(j[3], env))
        op = j[1]
        if op == "add":
            return a + b
        if op == "sub":
            return a - b
        if op == "mul":
            return a * b
        if op == "pow":
            return _pow(a, b)
        if b == 0:
            raise Undef
        if op == "div":
            return a / b
        if op == "mod":
            return a - b * math.floor(a / b)
        if op == "floordiv":
            return Fraction(math.floor(a / b))
    if k == "rel":
        a, b = _num(evalj(j[2], env)), _num(evalj(j[3], env))
        return {"gt": a > b, "ge": a >= b, "lt": a < b, "le": a <= b, "eq": a == b, "ne": a != b}[j[1]]
    if k in ("and", "andn", "orn"):
        args = j[1:] if k == "and" else j[1]
        vals = []
        for a in args:
            try:
                v = evalj(a, env)
                if not isinstance(v, bool):
                    raise Undef
                vals.append(v)
            except Undef:
                vals.append(None)
        absorbing = k == "orn"
        if absorbing in vals:
            return absorbing
        if None in vals:
            raise Undef
        return not absorbing
    if k == "not":
        v = evalj(j[1], env)
        if not isinstance(v, bool):
            raise Undef
        return not v
    if k == "ite":
        c = evalj(j[1], env)
        if not isinstance(c, bool):
            raise Undef
        return evalj(j[2] if c else j[3], env)
    if k == "pw":
        for e, c in j[1]:
            cv = evalj(c, env)
            if not isinstance(cv, bool):
                raise Undef
            if cv:
                return evalj(e, env)
        raise Undef
    if k == "app":
        vals = [_num(evalj(a, env)) for a in j[2]]
        f = j[1]
        if f == "abs":
            return abs(vals[0])
        if f == "sign":
            return Fraction((vals[0] > 0) - (vals[0] < 0))
        if f == "floor":
            return Fraction(math.floor(vals[0]))
        if f == "ceil":
            return Fraction(math.ceil(vals[0]))
        if f == "min":
            return min(vals)
        if f == "max":
            return max(vals)
        if f == "pos":
            return vals[0]
    raise Undef


# ----------------------------------------------------------------------------- exact CPython evaluation


class Inexact(Exception):
    pass


def _cv(o):
    if isinstance(o, bool):
        return Fraction(int(o))
    if isinstance(o, float):
        if not math.isfinite(o):
            raise Inexact
        return Fraction(o)
    if isinstance(o, (int, Fraction)):
        return Fraction(o)
    return NotImplemented


class Q(Fraction):
    """exact rational that absorbs ints and (finite) floats exactly, so that CPython itself executes the generated
    function — its control flow, scoping, calls and operator dispatch — on exact numbers"""

    def _wrap(self, name, o, swap=False):
        o = _cv(o)
        if o is NotImplemented:
            return NotImplemented
        a, b = (o, Fraction(self)) if swap else (Fraction(self), o)
        return Q(getattr(Fraction, name)(a, b))

    def __add__(self, o): return self._wrap("__add__", o)
    def __radd__(self, o): return self._wrap("__add__", o, True)
    def __sub__(self, o): return self._wrap("__sub__", o)
    def __rsub__(self, o): return self._wrap("__sub__", o, True)
    def __mul__(self, o): return self._wrap("__mul__", o)
    def __rmul__(self, o): return self._wrap("__mul__", o, True)
    def __truediv__(self, o): return self._wrap("__truediv__", o)
    def __rtruediv__(self, o): return self._wrap("__truediv__", o, True)
    def __floordiv__(self, o): return self._wrap("__floordiv__", o)
    def __rfloordiv__(self, o): return self._wrap("__floordiv__", o, True)
    def __mod__(self, o): return self._wrap("__mod__", o)
    def __rmod__(self, o): return self._wrap("__mod__", o, True)
    def __neg__(self): return Q(Fraction.__neg__(self))
    def __pos__(self): return Q(self)
    def __abs__(self): return Q(Fraction.__abs__(self))

    def __pow__(self, o, mod=None):
        o = _cv(o)
        if o is NotImplemented:
            return NotImplemented
        if o.denominator != 1 or abs(o.numerator) > 64:
            raise Inexact
        return Q(Fraction.__pow__(Fraction(self), o.numerator))

    def __rpow__(self, o, mod=None):
        o = _cv(o)
        if o is NotImplemented:
            return NotImplemented
        if self.denominator != 1 or abs(self.numerator) > 64:
            raise Inexact
        return Q(Fraction.__pow__(o, self.numerator))


def py_value(fn, args):
    """-> "n/d" | bool | "undef" (raises) | "nonnum" | "inexact" """
    try:
        r = fn(*[Q(a) for a in args])
    except Inexact:
        return "inexact"
    except RecursionError:
        return "undef"
    except Exception:  # noqa: BLE001  ZeroDivisionError, UnboundLocalError, NameError, TypeError, …
        return "undef"
    if isinstance(r, bool):
        return r
    if isinstance(r, (np.bool_,)):
        return bool(r)
    if isinstance(r, (int, Fraction)):
        return rs(r)
    if isinstance(r, np.integer):
        return rs(int(r))
    if isinstance(r, (float, np.floating)):
        return rs(Fraction(float(r))) if math.isfinite(r) else "undef"
    return "nonnum"


# ----------------------------------------------------------------------------- generator


HELPER_SRC = '''"""helper module for generated C06 inputs"""
HC = 4.0
HD = 0.5


def hsub(a, b):
    return a - b


def hmul(a, b):
    return a * b


def hclip(x, lo):
    if x < lo:
        return lo
    return x


def hmix(p, q):
    t = p * 2
    return t - q


def hsel(a, b, c):
    if a > b:
        return c
    elif a < b:
        return -c
    else:
        return 0


def hdef(a, b=2.0, c=0.5, d=4.0):
    return (a - b) * c + d


def hkw(a, *, g=2.0, h=0.5):
    return a * g - h


def hmd(a, b, c=0.25, *, e=8.0, w):
    if a > b:
        return a * c + e
    return b - w


def hone(a, r=0.25):
    return a * r


def hcomb(a, b):
    return hmul(a, b) - hsub(a, b) + HC


class PC:
    """class attribute and instance attribute differ (F-C06-16: the translator instantiated the class)"""
    a = 1.0

    def __init__(self):
        self.a = 2.0


class PD:
    """an attribute that exists on instances only: `PD.b` raises AttributeError in Python"""

    def __init__(self):
        self.b = 4.0


class PF:
    """a class attribute that is itself a class, and one that is an instance"""
    inner = PC
    inst = PC()
    c = 0.5


pc_inst = PC()
'''

# a second module with the same names bound to other functions / values (function-local imports pick from here)
HELPER2_SRC = '''"""second helper module for generated C06 inputs: same names as the first, different meanings"""
HC = 0.25
HD = 8.0


def hsub(a, b):
    return b - a


def hmul(a, b):
    return a * b + 1


def hclip(x, lo):
    return x + lo


def hmix(p, q):
    return p + q * 4


K1 = 5
NI = 7
TAB = (1.0, 2.0)
FLAG = True
'''

LOCAL_IMPORTS = ["from c06g import hmul", "from c06g import hclip", "from c06g import HD", "from c06g import hsub, hmul",
                 "import c06g", "import c06g as hp", "from c06g import hsub as hmul", "from c06g import hmul as hclip",
                 "from c06g import HC as HD"]


def local_import_sources() -> list[str]:
    """function-local imports in the caller and / or the callee, with the imported name colliding with a module-level name
    of the other side (seed-independent stratum).  Python binds the imported name in the importing function only."""
    base = '''def base_mul(a, b):
    return hmul(a, b) + hp.hsub(a, b) + HD


def base_clip(a, b):
    return hclip(a, b) * hp.HC


def loc_mul(a, b):
    from c06g import hmul
    return hmul(a, b)


def loc_clip(a, b):
    from c06g import hclip, HD
    return hclip(a, b) - HD


def loc_mod(a, b):
    import c06g
    return c06g.hsub(a, b) + hp.hsub(a, b)
'''
    bodies = [
        "return hmul(x, y) + HD",
        "return base_mul(x, y)",
        "return base_mul(x, y) + hmul(y, x)",
        "return base_clip(x, y) - hclip(x, 1)",
        "return hp.hcomb(x, y)",
        "return hp.hcomb(x, y) + hp.hsub(x, y)",
        "t = base_mul(x, y)\n    if t > 1:\n        return base_clip(t, y)\n    return hmul(t, y)",
    ]
    out = [base]
    k = 0
    for imp in LOCAL_IMPORTS:
        for b in bodies:
            out.append(f"def li{k}(x, y):\n    {imp}\n    {b}\n")
            k += 1
    # the callee imports; the caller uses the name with its own module-level meaning before / after the call
    for callee in ("loc_mul", "loc_clip", "loc_mod"):
        for b in ("t = {c}(x, y)\n    return hmul(t, y) + hclip(t, 1) + HD",
                  "t = hmul(x, y)\n    u = {c}(t, y)\n    return hmul(u, t) - hp.hsub(u, t)",
                  "return hclip({c}(x, y), {c}(y, x))"):
            out.append(f"def li{k}(x, y):\n    {b.format(c=callee)}\n")
            k += 1
    return out


HELPERS = [("hsub", 2), ("hmul", 2), ("hclip", 2), ("hmix", 2), ("hsel", 3)]

# helper signatures with default values / keyword-only parameters: (name, positional [(param, has_default)], keyword-only)
SIGS = [
    ("hdef", [("a", False), ("b", True), ("c", True), ("d", True)], []),
    ("hkw", [("a", False)], [("g", True), ("h", True)]),
    ("hmd", [("a", False), ("b", False), ("c", True)], [("e", True), ("w", False)]),
    ("hone", [("a", False), ("r", True)], []),
]


def call_shapes(sig) -> list[list[tuple[str | None, str]]]:
    """every legal way to call `sig`: (None, param) = passed positionally, (param, param) = passed by keyword"""
    import itertools

    _, pos, kwo = sig
    out = []
    for npos in range(len(pos) + 1):
        rest = pos[npos:]
        opt = [p for p, d in rest if d] + [p for p, d in kwo if d]
        req = [p for p, d in rest if not d] + [p for p, d in kwo if not d]
        for k in range(len(opt) + 1):
            for sub in itertools.combinations(opt, k):
                out.append([(None, p) for p, _ in pos[:npos]] + [(p, p) for p in req + list(sub)])
    return out


def render_call(fname: str, shape, value_of: dict[str, str], rng=None) -> str:
    kws = [f"{k}={value_of[p]}" for k, p in shape if k is not None]
    if rng is not None:
        rng.shuffle(kws)
    return f"{fname}({', '.join([value_of[p] for k, p in shape if k is None] + kws)})"
PARAM_POOL = ["a", "b", "c", "x", "y", "k", "s", "p", "q"]
LOCAL_POOL = ["t", "u", "v", "w", "r", "z"]


class Gen:
    """grammar-based generator of function definitions (source text) in and just outside the supported subset"""

    def __init__(self, rng, helper_mod: str, wild: float = 0.12):
        self.rng = rng
        self.helper_mod = helper_mod
        self.wild = wild  # probability mass for "just outside the subset" constructs
        self.prev_fns: list[tuple[str, int]] = []

    def header(self) -> str:
        return (
            "import math\nimport numpy as np\n"
            f"import {self.helper_mod} as hp\nfrom {self.helper_mod} import hmul, hclip, HD, PC, PD, PF, pc_inst\n"
            "from mxlpy import fns\nfrom mxlpy.fns import mass_action_1s\n\n"
            "K1 = 2.0\nK2 = 0.5\nK3 = -4.0\nNI = 3\n\n"
        )

    # -- expressions
    def lit(self):
        r = self.rng
        x = r.random()
        if x < 0.65:
            return str(r.choice([0, 1, 1, 2, 2, 3, 4, 5]))
        if x < 0.9:
            return r.choice(["0.5", "1.5", "2.0", "0.25", "3.0", "1.0"])
        return "-" + str(r.choice([1, 2, 3]))

    def atom(self, vs):
        r = self.rng
        x = r.random()
        if x < 0.62 and vs:
            return r.choice(vs)
        if x < 0.9:
            return self.lit()
        if x < 0.96:
            return r.choice(["K1", "K2", "K3", "HD", "hp.HC"])
        if r.random() < self.wild * 2:
            return r.choice(["NI", "math.pi", "undefined_q"])
        return r.choice(["K1", "hp.HD"])

    def denom(self, vs):
        """divisors: sympy folds a constant factor of a denominator into a reciprocal Float, which is exact only for
        powers of two; so a denominator is a power-of-two literal or has no constant factor"""
        r = self.rng
        v = r.choice(vs) if vs else "K1"
        w = r.choice(vs) if vs else "K2"
        return r.choice(["2", "4", "2.0", "0.5", v, f"(1 + {v} * {w})", f"({v} + {r.choice(['1', '2', '3'])})",
                         f"({v} * {r.choice(['2', '4', '0.5'])})", f"({v} - {w})" if v != w else f"({v} + 1)"])

    def arith(self, vs, d):
        r = self.rng
        if d <= 0 or r.random() < 0.3:
            return self.atom(vs)
        x = r.random()
        if x < 0.55:
            op = r.choice(["+", "-", "*", "+", "-", "*", "/"])
            rhs = self.denom(vs) if op == "/" else self.arith(vs, d - 1)
            return f"({self.arith(vs, d - 1)} {op} {rhs})"
        if x < 0.63:
            if r.random() < 0.15:
                return f"({self.denom(vs)} ** -1)"
            return f"({self.arith(vs, d - 1)} ** {r.choice(['2', '2', '3', '2.0', '0'])})"
        if x < 0.68:
            return f"({self.arith(vs, d - 1)} {r.choice(['%', '//'])} {r.choice(['2', '4', '2.0'])})"
        if x < 0.73:
            return f"(-{self.arith(vs, d - 1)})" if r.random() < 0.85 else f"(+{self.arith(vs, d - 1)})"
        if x < 0.82:
            return f"({self.arith(vs, d - 1)} if {self.cond(vs, d - 1)} else {self.arith(vs, d - 1)})"
        if x < 0.94:
            return self.call(vs, d - 1)
        return self.known(vs, d - 1)

    def call(self, vs, d):
        r = self.rng
        cands = [(f"hp.{n}" if r.random() < 0.5 or n not in ("hmul", "hclip") else n, k) for n, k in HELPERS]
        cands += self.prev_fns[-4:]
        if r.random() < 0.15:
            cands = [("fns.michaelis_menten_1s", 3), ("fns.mass_action_1s", 2), ("mass_action_1s", 2), ("fns.minus", 2),
                     ("fns.mass_action_2s", 3), ("fns.one_div", 1), ("fns.neg_div", 2)]
        if r.random() < 0.12:
            sig = r.choice(SIGS)
            shape = r.choice(call_shapes(sig))
            vals = {p: (r.choice(vs) if vs and r.random() < 0.7 else r.choice(["1", "2", "4", "0.5", "-1"]))
                    for p, _ in sig[1] + sig[2]}
            return render_call("hp." + sig[0], shape, vals, r)
        name, k = r.choice(cands)
        if vs and (r.random() < 0.5 or not name.startswith("h") or "fns" in name or name == "mass_action_1s"):
            # arguments that are bare names (often the callee's own parameter names, permuted) or powers of two: a
            # generated callee may divide by its parameter (see `denom`)
            args = [r.choice(vs) if r.random() < 0.8 else r.choice(["1", "2", "4", "0.5"]) for _ in range(k)]
        else:
            args = [self.arith(vs, d) for _ in range(k)]
        if r.random() < self.wild * 0.3:
            args = args[:-1]  # wrong arity: Python raises, the translator must refuse (or agree nowhere)
        return f"{name}({', '.join(args)})"

    def known(self, vs, d):
        r = self.rng
        x = r.random()
        if x < 0.55:
            return r.choice(["math.floor(2.5)", "math.ceil(1.25)", "math.sqrt(4.0)", "np.sqrt(9.0)", "math.pow(2.0, 3.0)",
                             "np.abs(-1.5)", "math.exp(0.0)", "np.floor(-1.5)", "np.sign(-2.0)", "np.mod(7.0, 2.0)",
                             "np.power(3.0, 2.0)", "np.absolute(2.0)", "math.floor(-0.5)", "np.add(1.0, 2.0)"])
        if x < 0.7:
            return r.choice(["np.positive(-2.0)", "np.positive(3.0)"])
        if x < 0.85 and vs:
            return f"{r.choice(['math.sqrt', 'np.exp', 'abs', 'math.floor', 'np.abs', 'max'])}({r.choice(vs)})"
        return r.choice(["abs(-2.0)", "min(1.0, 2.0)", "max(1, 2)", "np.greater(2.0, 1.0)", "np.maximum(1.0, 2.0)",
                         "math.trunc(2.5)", "pow(2.0, 2.0)"])

    def cond(self, vs, d):
        r = self.rng
        x = r.random()
        a = r.choice(vs) if vs and r.random() < 0.7 else self.arith(vs, d)
        b = self.lit() if r.random() < 0.6 else (r.choice(vs) if vs else self.lit())
        if x < 0.55:
            return f"{a} {r.choice(['>', '<', '>=', '<='])} {b}"
        if x < 0.75:
            return f"{a} {r.choice(['==', '!='])} {b}"
        if x < 0.9:
            lo, hi = sorted(r.sample([0, 1, 2, 3, 4, 5], 2))
            return f"{lo} {r.choice(['<', '<='])} {a} {r.choice(['<', '<='])} {hi}"
        if x < 0.9 + self.wild * 0.5:
            return r.choice(vs) if vs else "K1"  # truthiness of a number
        if x < 0.9 + self.wild * 0.7:
            return f"{a} > {b} and {a} < 9"
        if x < 0.9 + self.wild * 0.8:
            return f"not {a} > {b}"
        return f"{self.arith(vs, d)} {r.choice(['>', '<', '>=', '<=', '=='])} {self.arith(vs, d)}"

    # -- statements
    def block(self, vs, d, ind, must_return, style):
        """-> (lines, names certainly bound afterwards, returned on every path?)"""
        r = self.rng
        lines: list[str] = []
        vs = list(vs)
        pad = "    " * ind
        n = r.choice([0, 1, 1, 2]) if d > 0 else r.choice([0, 0, 1])
        for _ in range(n):
            x = r.random()
            if x < 0.45 or d <= 0:
                tgt = r.choice(LOCAL_POOL) if r.random() < 0.75 or not vs else r.choice(vs)
                if r.random() < 0.03:
                    tgt = "K1"  # a local that shadows a module constant
                if r.random() < 0.08 and vs:
                    # chained assignment: every target is (re-)bound, names bound before among them, in any position
                    tgts = [tgt] + r.sample(vs, min(len(vs), r.choice([1, 1, 2])))
                    r.shuffle(tgts)
                    tgts = list(dict.fromkeys(tgts))
                    lines.append(f"{pad}{' = '.join(tgts)} = {self.arith(vs, 2)}")
                    vs += [t for t in tgts if t not in vs]
                    continue
                lines.append(f"{pad}{tgt} = {self.arith(vs, 2)}")
                if tgt not in vs:
                    vs.append(tgt)
            elif x < 0.52:
                t1, t2 = r.sample(LOCAL_POOL, 2) if r.random() < 0.5 or len(vs) < 2 else r.sample(vs, 2)
                if r.random() < 0.5 and len(vs) >= 2:
                    e1, e2 = (t2, t1) if t1 in vs and t2 in vs else tuple(r.sample(vs, 2))
                else:
                    e1, e2 = self.arith(vs, 1), self.arith(vs, 1)
                lines.append(f"{pad}{t1}, {t2} = {e1}, {e2}")
                vs += [t for t in (t1, t2) if t not in vs]
            elif x < 0.52 + self.wild * 0.5 and vs:
                lines.append(f"{pad}{r.choice(vs)} {r.choice(['+=', '-=', '*='])} {self.arith(vs, 1)}")
            elif x < 0.52 + self.wild * 0.7 and vs:
                v = r.choice(vs)
                lines.append(f"{pad}for _i in range(2):\n{pad}    {v} = {v} + 1")
            elif x < 0.52 + self.wild * 0.8:
                lines.append(f"{pad}pass")
            else:
                ls, vs2, ret = self.ifstmt(vs, d - 1, ind, style)
                lines += ls
                vs = vs2
                if ret:
                    return lines, vs, True
        if must_return or r.random() < 0.8:
            if r.random() < self.wild * 0.15:
                lines.append(f"{pad}return")
            else:
                lines.append(f"{pad}return {self.arith(vs, 2)}")
            return lines, vs, True
        if not lines:
            lines.append(f"{pad}{r.choice(LOCAL_POOL)} = {self.arith(vs, 1)}")
        return lines, vs, False

    def ifstmt(self, vs, d, ind, style):
        r = self.rng
        pad = "    " * ind
        lines = [f"{pad}if {self.cond(vs, 1)}:"]
        # style: "ret" = branches return (guard clauses), "assign" = branches assign (fall through), "mixed"
        branch_ret = {"ret": 0.92, "assign": 0.1, "mixed": 0.5}[style]
        b, vs_t, ret_t = self.block(vs, d, ind + 1, r.random() < branch_ret, style)
        lines += b
        rets = [ret_t]
        bound = [set(vs_t)]
        nel = r.choice([0, 0, 0, 1, 1, 2]) if d >= 0 else 0
        for _ in range(nel):
            lines.append(f"{pad}elif {self.cond(vs, 1)}:")
            b, vs_e, ret_e = self.block(vs, d, ind + 1, r.random() < branch_ret, style)
            lines += b
            rets.append(ret_e)
            bound.append(set(vs_e))
        has_else = r.random() < (0.55 if style != "ret" else 0.35)
        if has_else:
            lines.append(f"{pad}else:")
            b, vs_e, ret_e = self.block(vs, d, ind + 1, r.random() < branch_ret, style)
            lines += b
            rets.append(ret_e)
            bound.append(set(vs_e))
        else:
            rets.append(False)
            bound.append(set(vs))
        live = [bs for bs, rt in zip(bound, rets) if not rt]
        after = set(vs) if not live else set.intersection(*live)
        vs_after = [v for v in dict.fromkeys(list(vs) + LOCAL_POOL + PARAM_POOL) if v in after]
        return lines, vs_after, all(rets)

    def function(self, name: str) -> tuple[str, int]:
        r = self.rng
        k = r.choice([1, 1, 2, 2, 2, 3])
        params = r.sample(PARAM_POOL[:5], k) if r.random() < 0.7 else r.sample(PARAM_POOL, k)
        if r.random() < 0.06:
            params[-1] = r.choice(["K2", "HD"])  # a parameter that shadows a module constant
        style = r.choice(["ret", "ret", "assign", "mixed", "mixed"])
        body, _, ret = self.block(params, r.choice([0, 1, 1, 2, 2, 2]), 1, False, style)
        if not ret and r.random() < 0.9:
            vs = params
            body.append(f"    return {self.arith(vs + [v for v in LOCAL_POOL if any(l.strip().startswith(v + ' =') and l.startswith('    ' + v) for l in body)], 2)}")
        if r.random() < 0.04:
            body.insert(0, "    " + r.choice(LOCAL_IMPORTS[:5]))
        ndef = r.choice([1, 2, k]) if k >= 2 and r.random() < 0.2 else 0
        ndef = min(ndef, k - 1)
        sig = [p if i < k - ndef else f"{p}={r.choice(['2.0', '0.5', '4.0', '1.0', '-2.0'])}" for i, p in enumerate(params)]
        src = f"def {name}({', '.join(sig)}):\n" + "\n".join(body) + "\n"
        self.prev_fns.append((name, k))
        if ndef:
            self.prev_fns.append((name, k - r.randint(1, ndef)))  # callable with some defaults left out
        return src, k


# hand-written templates: one per finding class and per tested idiom (always present, seed-independent)
TEMPLATES = '''
def t_leak(x):
    y = x
    if x > 0:
        y = 2 * x
    return y


def t_leak_ret(x):
    y = x
    if x > 0:
        y = 2 * x
        return y
    return y


def t_after_ifelse(x):
    if x > 0:
        y = 1
    else:
        y = 2
    z = y + x
    return z


def t_fallthrough(x):
    if x > 0:
        if x > 5:
            return 1
    return 2


def t_eq(x, y):
    if x == y:
        return 1
    return 2


def t_ne(x, y):
    return 1 if x != y else 0


def t_swap(a, b):
    return a - b


def t_nested_swap(a, b):
    return t_swap(b, a)


def t_tuple_swap(x, y):
    x, y = y, x
    return x - y


def t_aug(x):
    y = x
    y += 1
    return y


def t_loop(x):
    for _i in range(3):
        x = x + 1
    return x


def t_truthy(x):
    if x:
        return 1
    return 2


def t_positive(x):
    return x + np.positive(-2.0)


def t_guard(a):
    if 1 < a < 2:
        return a
    if a > 2:
        return a / 2
    return a**2


def t_elif(a):
    if 1 < a < 2:
        return a
    elif a > 2:
        return a / 2
    else:
        return a**2


def t_branch_tmp(a):
    if a > 1:
        b = a
        return b
    else:
        b = a**2
        return b


def t_assign_both(a):
    if a > 1:
        b = a
    else:
        b = a**2
    return b


def t_const(x):
    return x * K1 + hp.HC - HD


def t_shadow(x, K2):
    K1 = x + 1
    return K1 * K2 - K3


def t_call(a, b):
    return hp.hmix(b, a) + hclip(a, 1)


def t_fns(s, vmax, km):
    return fns.michaelis_menten_1s(s, vmax, km) + mass_action_1s(s, km)


def t_fns_perm(s1, k, vmax):
    r = fns.michaelis_menten_1s(k, s1, vmax)
    return fns.minus(r, fns.mass_action_1s_1p(vmax, k, s1, 2))


def t_chain(x):
    y = x
    z = y = 2 * x
    return y


def t_cmp_is(a, b, c):
    return 1.0 if a < b is c else 2.0


def t_cmp_isnot(a, b):
    if a is not b:
        return a - b
    return 0.0


def t_cmp_in_chain(a, b, c):
    if a < b in (c, 2.0) < 10.0:
        return a
    return b


def t_cmp_notin(x):
    return x if x not in (1.0, 2.0) else -x


def t_walrus_stmt(x):
    (K1 := 3.0)
    return x * K1


def t_call_stmt(x, y):
    abs(x)
    print
    return x + y


def t_const_stmt(x):
    """docstring"""
    1.0
    return x * K2


def t_chain_first(x):
    z = x
    z = y = 2 * x
    return z + y


def t_chain_rebind3(x, y):
    a = x
    b = y
    a = c = b = x * y + 1
    return a + 2 * b + 4 * c


def t_chain3(x, y):
    t = u = x = y * 2
    return t + u - x + y


def t_unpack_divmod(x, y):
    x, y = divmod(x, y)
    return x


def t_unpack_call(x, y):
    x, y = hp.hsub(x, y)
    return x


def t_unpack_name(x, y):
    t = x
    x, y = t
    return y


def t_star_target(a, b):
    *a, b = b, a
    return b


def t_import_int(x):
    from c06g import K1
    return x * K1


def t_import_int2(x):
    from c06g import NI as K2
    return x * K2 + K1


def t_import_other(x):
    from c06g import TAB as K3
    return x * K3


def t_import_flag(x):
    from c06g import FLAG as K3
    return x + K3


def t_posonly(K1, /, x):
    return K1 * x


def t_posonly2(x, K3, /):
    return K1 * x - K3


def t_kwonly(x, *, K2=3.0):
    return x * K2


def t_varargs(x, *K3):
    return x * 2


def t_kwargs(x, **K3):
    return x * 2


def t_call_posonly(x, y):
    return t_posonly(y, x) + t_posonly2(x, y)


def t_call_kwonly(x):
    return t_kwonly(x) + 1


def t_class_attr(x):
    return x * PC.a


def t_class_attr2(x, y):
    if x > PC.a:
        return y * PC.a + PF.c
    return hp.PC.a - y


def t_class_nested_cls(x):
    return x * PF.inner.a


def t_class_nested_inst(x):
    return x * PF.inst.a + PF.c


def t_inst_attr(x):
    return x * pc_inst.a - hp.pc_inst.a


def t_class_inst_only(x):
    return x * PD.b


def t_ret_not_last(s, vmax, km):
    if s > km:
        v = vmax
        sat = s / 4
    else:
        v = vmax * s / 4
        sat = 1.0
    return v


def t_ret_not_last2(s, k):
    v = k * s
    if v > 10.0:
        v = 10.0
        over = k * s - 10.0
    return v
'''


def exhaustive_bodies() -> list[str]:
    """every function body over a small grammar of control-flow shapes (seed-independent stratum):
    [pre] + one of {nothing, if, if/else, if/elif, if/elif/else} with every combination of four branch bodies + [post]"""
    import itertools

    branch = ["return x", "t = 2 * x", "y = 2 * x", "t = 2 * x\nreturn t"]
    pres = ["", "t = y"]
    posts = ["return y", "return t", ""]
    conds = ["x > 0", "x < -1"]
    shapes: list[list[str]] = [[]]
    for b1 in branch:
        shapes.append([("if " + conds[0], b1)])
    for b1, b2 in itertools.product(branch, repeat=2):
        shapes.append([("if " + conds[0], b1), ("else", b2)])
        shapes.append([("if " + conds[0], b1), ("elif " + conds[1], b2)])
    for b1, b2, b3 in itertools.product(branch, repeat=3):
        shapes.append([("if " + conds[0], b1), ("elif " + conds[1], b2), ("else", b3)])
    # depth 2: one branch is itself "a nested if (without else) followed by more statements"
    tails = ["return y", "t = 3 * x\nreturn t", "t = 3 * x"]
    composites = ["if y > 1:\n" + "\n".join("    " + l for l in b.split("\n")) + "\n" + tl
                  for b in branch for tl in tails]
    deep: list[list[tuple[str, str]]] = []
    for comp, b in itertools.product(composites, branch):
        deep.append([("if " + conds[0], comp), ("else", b)])
        deep.append([("if " + conds[0], b), ("else", comp)])
        deep.append([("if " + conds[0], b), ("elif " + conds[1], comp)])
    for comp in composites:
        deep.append([("if " + conds[0], comp)])
        deep.append([("if " + conds[0], "return x"), ("elif " + conds[1], comp), ("else", "return y")])
    out = []
    for shape, post in itertools.product(deep, ["return y", ""]):
        lines = []
        for head, body in shape:
            lines.append(head + ":")
            lines += ["    " + l for l in body.split("\n")]
        if post:
            lines.append(post)
        out.append("\n".join("    " + l for l in lines))
    for pre, shape, post in itertools.product(pres, shapes, posts):
        lines = [pre] if pre else []
        for head, body in shape:
            lines.append(head + ":")
            lines += ["    " + l for l in body.split("\n")]
        if post:
            lines.append(post)
        if not lines:
            continue
        out.append("\n".join("    " + l for l in lines))
    return out


def multi_assign_bodies() -> list[str]:
    """branches that consist of several plain assignments and fall through to `return <name>`: the returned name is the
    last one a branch assigns, an earlier one, or one it does not assign (seed-independent stratum)"""
    import itertools

    branch = ["t = 2 * x\nu = x + 1", "u = x + 1\nt = 2 * x", "t = 2 * x", "t = u = 3 * x", "return x - 1"]
    conds = ["x > 0", "x < -1"]
    shapes: list[list[tuple[str, str]]] = []
    for b1 in branch:
        shapes.append([("if " + conds[0], b1)])
    for b1, b2 in itertools.product(branch, repeat=2):
        shapes.append([("if " + conds[0], b1), ("else", b2)])
        shapes.append([("if " + conds[0], b1), ("elif " + conds[1], b2)])
    for b1, b2, b3 in itertools.product(branch[:3] + branch[4:], repeat=3):
        shapes.append([("if " + conds[0], b1), ("elif " + conds[1], b2), ("else", b3)])
    out = []
    for shape, post in itertools.product(shapes, ["return t", "return u"]):
        lines = ["t = y", "u = y - 2"]
        for head, body in shape:
            lines.append(head + ":")
            lines += ["    " + l for l in body.split("\n")]
        lines.append(post)
        out.append("\n".join("    " + l for l in lines))
    return out


def branch_import_sources() -> list[str]:
    """function-local imports inside the branches of an if, re-binding a name that an earlier import (or the module)
    binds differently; Python binds per path, so must the translation (seed-independent stratum)"""
    outs = [("from c06h import hmul", "from c06g import hmul", "hmul(x, y)"),
            ("from c06h import hmul, HD", "from c06g import hmul, HD", "hmul(x, y) + HD"),
            ("import c06h as m", "import c06g as m", "m.hmul(x, y) + m.HC"),
            ("import c06h as hp", "import c06g as hp", "hp.hsub(x, y) - hp.HD"),
            ("from c06h import hsub as hmul", "from c06g import hmix as hmul", "hmul(x, y)"),
            ("from c06h import HC as HD", "from c06g import NI as HD", "x * HD + y"),
            ("import c06h", "from c06g import hmul as c06h", "hmul(x, y) + 1")]
    shapes = [
        "{o}\n    if x > 0:\n        {i}\n        return {u}\n    return {u}",
        "{o}\n    if x > 0:\n        return {u}\n    else:\n        {i}\n        return {u}",
        "{o}\n    if x > 0:\n        {i}\n        return {u}\n    elif x < -1:\n        return {u} + 1\n    return {u} * 2",
        "{i}\n    if x > 0:\n        {o}\n        t = {u}\n        return t\n    elif y > 0:\n        {i}\n        return {u}\n    else:\n        return {u} - 1",
        "{o}\n    if x > 0:\n        if y > 0:\n            {i}\n            return {u}\n        return {u} + 2\n    return {u}",
        "if x > 0:\n        {i}\n        return {u}\n    {o}\n    return {u}",
    ]
    out = []
    k = 0
    for o, i, u in outs:
        if u.startswith("hmul(x, y) + 1"):
            # the last pair re-binds a module name to a function in the branch: only shapes where the use is a bare call
            u = "hmul(x, y)"
            o, i = "from c06h import hmul", "from c06g import hmix as hmul"
        for sh in shapes:
            out.append(f"def lb{k}(x, y):\n    " + sh.format(o=o, i=i, u=u) + "\n")
            k += 1
    return out


# functions that are not plain module-level `def`s: closures made by factories, decorated functions, partials, lambdas, nested
# defs, calls into them, calls that rely on default values.  Every one is either translated soundly or refused.
CLOSURE_TEMPLATES = '''
import functools


def _mk_shadow(K2):
    def c_closure_shadow(x):
        return x * K2 + K1          # K2: the closed-over ARGUMENT (3.0), not the module's K2 = 0.5; K1: the module constant
    return c_closure_shadow


c_closure_shadow = _mk_shadow(3.0)


def _mk_fresh(factor, n):
    def c_closure_fresh(x, y):
        if x > factor:
            return y * n
        return y + factor
    return c_closure_fresh


c_closure_fresh = _mk_fresh(2.5, 4)


def _mk_fn(f):
    def c_closure_fn(x):
        return f(x, 2.0)
    return c_closure_fn


c_closure_fn = _mk_fn(hmul)


def _mk_two(HD):
    def c_closure_param(HD_, x):
        return HD * x - HD_         # closes over HD (8.0 here; the module imports HD = 4.0 from the helper)
    return c_closure_param


c_closure_param = _mk_two(8.0)


def _twice(f):
    @functools.wraps(f)
    def w(*a):
        return 2 * f(*a)
    return w


@_twice
def c_decorated_wraps(x):
    return x + 1


def _ident(f):
    return f


@_ident
def c_decorated_same(x):
    return x + K1


def _nowrap(f):
    def c_decorated_nowrap(x):
        return 2 * f(x)
    return c_decorated_nowrap


@_nowrap
def c_deco_inner(x):
    return x + 1


c_partial = functools.partial(hmul, 2.0)
c_lambda = lambda x: x * K1  # noqa: E731


def c_uses_lambda(x):
    g = lambda y: y * 2  # noqa: E731
    return g(x)


def c_uses_partial(x):
    return c_partial(x)


def c_uses_module_lambda(x):
    return c_lambda(x) + 1


def c_nested_def(x):
    def h(y):
        return y * 3
    return h(x)


def c_call_closure(x):
    return c_closure_shadow(x) + 1


def c_call_decorated(x):
    return c_decorated_wraps(x) - 1


def c_call_default(x):
    return hp.hone(x) + hp.hdef(x)


def c_default_own(x, k=2.0):
    return x * k
'''

CLOSURE_NAMES = ["c_closure_shadow", "c_closure_fresh", "c_closure_fn", "c_closure_param", "c_decorated_wraps",
                 "c_decorated_same", "c_deco_inner", "c_uses_lambda", "c_uses_partial", "c_uses_module_lambda", "c_nested_def",
                 "c_call_closure", "c_call_decorated", "c_call_default", "c_default_own"]


def template_names() -> list[str]:
    return [n.name for n in ast.parse(TEMPLATES).body if isinstance(n, ast.FunctionDef)]


# ----------------------------------------------------------------------------- points and renamings


def literals_of(src: str) -> list[Fraction]:
    out = []
    for n in ast.walk(ast.parse(src)):
        if isinstance(n, ast.Constant) and isinstance(n.value, (int, float)) and not isinstance(n.value, bool):
            if math.isfinite(n.value):
                out.append(Fraction(n.value))
    return out


def make_points(rng, nparams: int, lits: list[Fraction], n: int) -> list[list[Fraction]]:
    base = {Fraction(0), Fraction(1), Fraction(-1), Fraction(2)}
    for c in lits:
        if abs(c) <= 8:
            base |= {c, c - 1, c + 1}
    base = sorted(base)
    pts: list[tuple] = []
    for v in base[:6]:
        pts.append(tuple([v] * nparams))  # diagonal: x == y
    tries = 0
    want = n
    while len(set(pts)) < want and tries < 200:
        tries += 1
        p = tuple(rng.choice(base) if rng.random() < 0.85 else Fraction(rng.randint(-7, 11), rng.choice([1, 2, 3]))
                  for _ in range(nparams))
        pts.append(p)
    return [list(p) for p in dict.fromkeys(pts)][: max(want, 6)]


def make_renamings(rng, params: list[str], ndefaults: int = 0) -> list[list[str] | None]:
    """None = no model_args; otherwise the symbol names passed as model_args (fewer than the parameters when the
    trailing parameters have default values: a model component may list only the leading arguments)"""
    out: list[list[str] | None] = [None]
    k = len(params)
    if ndefaults:
        m = k - rng.randint(1, ndefaults)
        if m >= 1:
            out.append(list(params[:m]) if rng.random() < 0.5 else [f"m{i}" for i in range(m)])
    if k >= 2:
        perm = params[1:] + params[:1]
        out.append(perm)
        if rng.random() < 0.5:
            sh = params[1:] + ["m_new"]  # overlapping shift (a,b,c) -> (b,c,new)
            out.append(sh)
        else:
            p2 = list(params)
            rng.shuffle(p2)
            out.append(p2 if p2 != params else list(reversed(params)))
    else:
        out.append(["m0"])
    return out


# ----------------------------------------------------------------------------- the worker: real code + oracle


def write_modules(workdir: Path, tag: str, fn_srcs: list[str], header: str, helper_mod: str) -> str:
    workdir.mkdir(parents=True, exist_ok=True)
    (workdir / f"{helper_mod}.py").write_text(HELPER_SRC)
    mod = f"c06m_{tag}"
    (workdir / f"{mod}.py").write_text(header + "\n\n".join(fn_srcs))
    return mod


def _write_atomic(path: Path, text: str) -> None:
    import os

    if path.exists() and path.read_text() == text:
        return
    tmp = path.with_suffix(f".tmp{os.getpid()}")
    tmp.write_text(text)
    os.replace(tmp, path)


def import_fresh(workdir: Path, name: str):
    if str(workdir) not in sys.path:
        sys.path.insert(0, str(workdir))
    importlib.invalidate_caches()
    if name in sys.modules:
        del sys.modules[name]
    return importlib.import_module(name)


def run_real(fn, rename):
    """the real fn_to_sympy -> (status, sympy expr or None)"""
    import sympy
    from mxlpy.meta.source_tools import fn_to_sympy

    try:
        margs = None if rename is None else [sympy.Symbol(s) for s in rename]
        r = fn_to_sympy(fn, origin="c06", model_args=margs)
    except RecursionError:
        return "raised:RecursionError", None
    except Exception as e:  # noqa: BLE001
        return f"raised:{type(e).__name__}", None
    if r is None:
        return "refused", None
    return "expr", r


def evaluate_module(job):
    """job = {workdir, mod, helper, sources: {modname: src}, fns: [names], seed, npoints, known_keys}
    -> per function: list of per-renaming observations"""
    import logging
    import random
    import warnings

    warnings.filterwarnings("ignore")
    logging.disable(logging.CRITICAL)
    import sympy

    workdir = Path(job["workdir"])
    workdir.mkdir(parents=True, exist_ok=True)
    if job.get("external"):
        # a module of the library itself (mxlpy.fns): imported as it is
        mod = importlib.import_module(job["mod"])
        gen_modules = {job["mod"]: mod}
        job = dict(job, sources={job["mod"]: Path(mod.__file__).read_text()})
    else:
        for name, src in job["sources"].items():
            _write_atomic(workdir / f"{name}.py", src)
        gen_modules = {}
        for name in [n for n in job["sources"] if n != job["mod"]] + [job["mod"]]:
            gen_modules[name] = import_fresh(workdir, name)
        mod = gen_modules[job["mod"]]
    rng = random.Random(job["seed"])
    out = []
    first = _observe_all(job, mod, gen_modules, rng, job["fns"], sympy)
    out += first
    if job.get("session"):
        # session step: the same process, the same module objects, module-level constants re-bound; every function that
        # reads a module constant is translated (and executed) again
        for mname, consts in job["session"].items():
            target = gen_modules.get(mname)
            for cname, val in consts.items():
                if target is not None and hasattr(target, cname):
                    setattr(target, cname, float(Fraction(val)))
        again = [r["fn"] for r in first if "error" not in r and
                 any(f.startswith(("global_", "attr_")) for f in r["features"])]
        if job.get("session_only"):
            out = []
        job2 = dict(job, points={r["fn"]: r["points"] for r in first if "error" not in r},
                    renamings={r["fn"]: [o["rename"] for o in r["obs"]] for r in first if "error" not in r})
        for r in _observe_all(job2, mod, gen_modules, rng, again, sympy):
            r["session2"] = True
            out.append(r)
    return out


def _observe_all(job, mod, gen_modules, rng, fns, sympy):
    out = []
    for fname in fns:
        fn = getattr(mod, fname)
        enc = Encoder(job["known_keys"], gen_modules)
        try:
            q = enc.add_fn(fn)
        except Exception as e:  # noqa: BLE001
            out.append({"fn": fname, "error": f"encode: {e!r}"})
            continue
        params = enc.prog[q]["params"]
        _tree = ast.parse(job["sources"][job["mod"]])
        _node = next((n for n in _tree.body if isinstance(n, ast.FunctionDef) and n.name == fname), None) or find_def(_tree, fn)
        fsrc = ast.get_source_segment(job["sources"][job["mod"]], _node) or ""
        lits = literals_of(fsrc)
        points = job.get("points", {}).get(fname) or make_points(rng, len(params), lits, job["npoints"])
        points = [[Fraction(v) for v in p] for p in points]
        renamings = job.get("renamings", {}).get(fname) or make_renamings(rng, params, len(fn.__defaults__ or ()))
        obs = []
        pyv = [py_value(fn, p) for p in points]
        for ren in renamings:
            status, expr = run_real(fn, ren)
            rec = {"rename": ren, "status": status}
            if ren is not None and len(ren) < len(params):
                rec["py"] = [py_value(fn, p[: len(ren)]) for p in points]
            syms = params if ren is None else ren
            if expr is not None:
                try:
                    rec["srepr"] = sympy.srepr(expr)
                    rec["str"] = str(expr)
                    ej = sym2j(expr)
                except Exception as e:  # noqa: BLE001
                    rec["status"] = f"unconvertible:{type(e).__name__}"
                    ej = None
                vals = []
                for p in points:
                    env: dict = {}
                    for s, v in zip(syms, p):
                        env[s] = v  # for a renaming with repeated names the last wins (not generated)
                    if ej is None:
                        vals.append("undef")
                        continue
                    try:
                        vals.append(vj(evalj(ej, env)))
                    except Undef:
                        vals.append("undef")
                    except (OverflowError, ZeroDivisionError):
                        vals.append("undef")
                rec["vals"] = vals
            obs.append(rec)
        needed = {k.split(":", 1)[1] for k in enc.prog if k.split(":", 1)[0] == job["mod"]}
        out.append({"fn": fname, "q": q, "prog": list(enc.prog.values()), "params": params, "features": sorted(enc.features),
                    "cb": enc.cb, "stmt_classes": enc.stmt_classes, "ret_class": enc.ret_class, "n_pre": enc.n_pre,
                    "min_src": (fsrc if job.get("external") else job["sources"][job["mod"]] if job.get("whole")
                                else minimal_source(job["sources"][job["mod"]], needed)),
                    "points": [[rs(v) for v in p] for p in points], "py": pyv, "obs": obs, "src": fsrc})
    return out


def minimal_source(src: str, needed: set[str]) -> str:
    """module header + only the function definitions in `needed` (for small replays)"""
    tree = ast.parse(src)
    lines = src.splitlines(keepends=True)
    first = next((n.lineno for n in tree.body if isinstance(n, ast.FunctionDef)), len(lines) + 1)
    out = "".join(lines[: first - 1])
    for n in tree.body:
        if isinstance(n, ast.FunctionDef) and n.name in needed:
            out += "".join(lines[n.lineno - 1: n.end_lineno]) + "\n\n"
    return out


def struct_equal(real_srepr: str, model_sexpr) -> tuple[bool, str]:
    """structural correspondence: the Lean translation, rebuilt with sympy's constructors, prints like the real result"""
    import sympy

    try:
        m = j2sym(model_sexpr)
        ms = sympy.srepr(m) if not isinstance(m, bool) else str(m)
    except Exception as e:  # noqa: BLE001
        return False, f"rebuild raised {type(e).__name__}: {e}"
    return ms == real_srepr, ms
