/- op "c08": the exporter model, the SBML reading of its output and the original model's meaning.

request  {"op":"c08","model":<PyModel>,"states":[[[var,"q"],..],..],"compartments": null | [[id,"size"],..]}
answer   {"unsupported": bool,
          "export": {"err": <class>} | {"ok": <SDoc>},
          "names":  [[orig, imported], ..]      (variables, parameters, derived, reactions)
          "spec":   {"init":[[n,v]..], "at":[{"vals":[[n,v]..], "rhs":[[x,v]..]}..]}   original model
          "read":   the same, from the exported document as the importer names it (absent if export failed)}
request  {"op":"c08","fn":<PyFn>}  →  {"math": {"err":..}|{"ok": <MathML>}, "unsupported": bool}
request  {"op":"c08","escape":[id,prefix]} → {"escape": {"ok":s}|{"err":..}, "py": nameToPy s}
-/
import Driver.Wire
import MxlVerif.Model.C08Doc
import MxlVerif.Model.C08Compartment
import MxlVerif.Model.C08Language
open Lean Mxl Mxl.Wire Mxl.C08
namespace Driver.H_c08

def jUOp (s : String) : Except String UOp :=
  match s with
  | "USub" => pure .usub | "Not" => pure .not | "UAdd" => pure .uadd | "Invert" => pure .invert
  | _ => .error s!"bad unaryop {s}"

def jBOp (s : String) : Except String BOp :=
  match s with
  | "Add" => pure .add | "Sub" => pure .sub | "Mult" => pure .mult | "Div" => pure .div | "Pow" => pure .pow
  | "FloorDiv" => pure .floordiv | "Mod" => pure .mod | "MatMult" => pure .matmult | "LShift" => pure .lshift
  | "RShift" => pure .rshift | "BitOr" => pure .bitor | "BitXor" => pure .bitxor | "BitAnd" => pure .bitand
  | _ => .error s!"bad operator {s}"

def jCOp (s : String) : Except String COp :=
  match s with
  | "Eq" => pure .eq | "NotEq" => pure .ne | "Lt" => pure .lt | "LtE" => pure .le | "Gt" => pure .gt
  | "GtE" => pure .ge | "Is" => pure .is | "IsNot" => pure .isNot | "In" => pure .in_ | "NotIn" => pure .notIn
  | _ => .error s!"bad cmpop {s}"

def jCallee (j : Json) : Except String Callee := do
  match ← jArr j with
  | [.str "direct", f] => pure (.direct (← jStr f))
  | [.str "lib", p, a] => pure (.lib (← jStr p) (← jStr a))
  | [.str "libdeep"] => pure .libDeep
  | [.str "other"] => pure .other
  | _ => .error s!"bad callee {j.compress}"

partial def jPyExpr (j : Json) : Except String PyExpr := do
  match ← jArr j with
  | [.str "name", n] => pure (.name (← jStr n))
  | [.str "num", q] => pure (.const (.num (← jRat q)))
  | [.str "bool", b] => pure (.const (.bool (← jBool b)))
  | [.str "constother"] => pure (.const .other)
  | [.str "unary", op, e] => pure (.unary (← jUOp (← jStr op)) (← jPyExpr e))
  | [.str "binop", op, l, r] => pure (.binop (← jBOp (← jStr op)) (← jPyExpr l) (← jPyExpr r))
  | [.str "compare", l, links] => do
      let ls ← (← jArr links).mapM fun lk => do
        match ← jArr lk with
        | [op, e] => pure ((← jCOp (← jStr op)), (← jPyExpr e))
        | _ => .error "bad link"
      match ls with
      | (op, r) :: rest => pure (.compare (← jPyExpr l) op r rest)
      | [] => .error "compare without links"
  | [.str "ifexp", t, b, o] => pure (.ifexp (← jPyExpr t) (← jPyExpr b) (← jPyExpr o))
  | [.str "call", f, args] => pure (.call (← jCallee f) (← (← jArr args).mapM jPyExpr))
  | [.str "attr", p, a] => pure (.attr (← jStr p) (← jStr a))
  | [.str "attrdeep"] => pure .attrDeep
  | [.str "boolop", k, vals] => pure (.boolop ((← jStr k) == "and") (← (← jArr vals).mapM jPyExpr))
  | [.str "callkw"] => pure .callKw
  | [.str "other"] => pure .other
  | _ => .error s!"bad expr {j.compress}"

def jStmt (j : Json) : Except String PyStmt := do
  match ← jArr j with
  | [.str "ret", e] => pure (.ret (some (← jPyExpr e)))
  | [.str "ret"] => pure (.ret none)
  | [.str "other"] => pure .other
  | _ => .error s!"bad stmt {j.compress}"

def jPyFn (j : Json) : Except String PyFn := do
  pure { params := ← jList jStr (← field j "params"), body := ← jList jStmt (← field j "body"),
         args := ← jList jStr (← field j "args") }

def jInit (j : Json) : Except String PyInit := do
  match ← jArr j with
  | [.str "val", q] => pure (.val (← jRat q))
  | [.str "ia", f] => pure (.ia (← jPyFn f))
  | _ => .error s!"bad init {j.compress}"

def jPyCoef (j : Json) : Except String PyCoef := do
  match ← jArr j with
  | [.str "num", q] => pure (.num (← jRat q))
  | [.str "fn", f] => pure (.computed (← jPyFn f))
  | _ => .error s!"bad coef {j.compress}"

def jPyRxn (j : Json) : Except String PyRxn := do
  pure { name := ← jStr (← field j "name"), fn := ← jPyFn (← field j "fn"),
         stoich := ← jAssoc jPyCoef (← field j "stoich") }

def jPyModel (j : Json) : Except String PyModel := do
  pure { params := ← jAssoc jInit (← field j "params"), vars := ← jAssoc jInit (← field j "vars"),
         derived := ← jAssoc jPyFn (← field j "derived"), rxns := ← jList jPyRxn (← field j "rxns") }

/-! ### encoders -/

def mtypeName : MType → String
  | .plus => "AST_PLUS" | .minus => "AST_MINUS" | .times => "AST_TIMES" | .divide => "AST_DIVIDE"
  | .power => "AST_POWER" | .fnPower => "AST_FUNCTION_POWER" | .fnQuotient => "AST_FUNCTION_QUOTIENT"
  | .fnRem => "AST_FUNCTION_REM" | .fnRoot => "AST_FUNCTION_ROOT" | .fnAbs => "AST_FUNCTION_ABS"
  | .fnCeiling => "AST_FUNCTION_CEILING" | .fnFloor => "AST_FUNCTION_FLOOR" | .fnExp => "AST_FUNCTION_EXP"
  | .fnLn => "AST_FUNCTION_LN" | .fnLog => "AST_FUNCTION_LOG" | .fnSin => "AST_FUNCTION_SIN"
  | .fnCos => "AST_FUNCTION_COS" | .fnTan => "AST_FUNCTION_TAN" | .fnArcsin => "AST_FUNCTION_ARCSIN"
  | .fnArccos => "AST_FUNCTION_ARCCOS" | .fnArctan => "AST_FUNCTION_ARCTAN" | .fnSinh => "AST_FUNCTION_SINH"
  | .fnCosh => "AST_FUNCTION_COSH" | .fnTanh => "AST_FUNCTION_TANH" | .fnArcsinh => "AST_FUNCTION_ARCSINH"
  | .fnArccosh => "AST_FUNCTION_ARCCOSH" | .fnArctanh => "AST_FUNCTION_ARCTANH" | .fnMax => "AST_FUNCTION_MAX"
  | .fnMin => "AST_FUNCTION_MIN" | .fnPiecewise => "AST_FUNCTION_PIECEWISE"
  | .fnFactorial => "AST_FUNCTION_FACTORIAL" | .logicalAnd => "AST_LOGICAL_AND" | .logicalOr => "AST_LOGICAL_OR"
  | .logicalNot => "AST_LOGICAL_NOT" | .logicalXor => "AST_LOGICAL_XOR" | .relEq => "AST_RELATIONAL_EQ"
  | .relNeq => "AST_RELATIONAL_NEQ" | .relLt => "AST_RELATIONAL_LT" | .relLeq => "AST_RELATIONAL_LEQ"
  | .relGt => "AST_RELATIONAL_GT" | .relGeq => "AST_RELATIONAL_GEQ" | .function => "AST_FUNCTION"
  | .unknown => "AST_UNKNOWN"

partial def mathJ : MathML → Json
  | .ci n => .arr #[.str "ci", .str n]
  | .cn q => .arr #[.str "cn", ratJ q]
  | .cnInf => .arr #[.str "cn", .str "inf"]
  | .cnNan => .arr #[.str "cn", .str "nan"]
  | .csym .e => .arr #[.str "csym", .str "e"]
  | .csym .pi => .arr #[.str "csym", .str "pi"]
  | .csym .true => .arr #[.str "csym", .str "true"]
  | .csym .false => .arr #[.str "csym", .str "false"]
  | .apply t cs => .arr #[.str (mtypeName t), .arr (cs.map mathJ).toArray]

def optJ {α} (f : α → Json) : Option α → Json
  | some a => f a
  | none => .null

def valJ : Val → Json
  | .num q => ratJ q
  | .bool b => .bool b

def errJ (e : XErr) : Json := Json.mkObj [("err", .str e.cls)]

def exJ {α} (f : α → Json) : Except XErr α → Json
  | .ok a => Json.mkObj [("ok", f a)]
  | .error e => errJ e

def srefJ (s : SRef) : Json := .arr #[.str s.species, optJ ratJ s.stoich, optJ Json.str s.id]

def srxnJ (r : SRxn) : Json :=
  Json.mkObj [("id", .str r.id), ("reactants", .arr (r.reactants.map srefJ).toArray),
              ("products", .arr (r.products.map srefJ).toArray), ("law", mathJ r.law)]

def sdocJ (d : SDoc) : Json :=
  Json.mkObj [("params", assocJ (optJ ratJ) d.params), ("species", assocJ (optJ ratJ) d.species),
              ("inits", assocJ mathJ d.inits), ("rules", assocJ mathJ d.rules),
              ("rxns", .arr (d.rxns.map srxnJ).toArray)]

def sspeciesJ (x : SSpecies) : Json :=
  .arr #[.str x.id, .str x.compartment, .bool x.hosu, .str (if x.initAmount then "amount" else "concentration")]

/-- the document of `writeModel`: the components of `exportModel` plus compartments and species attributes -/
def sdoccJ (dc : SDocC) : Json :=
  (sdocJ dc.doc).mergeObj (Json.mkObj [("compartments", assocJ ratJ dc.compartments),
                                      ("species_attrs", .arr (dc.species.map sspeciesJ).toArray),
                                      ("modifiers", assocJ strsJ dc.modifiers), ("model_id", .str dc.modelId),
                                      ("unit_ids", strsJ dc.unitIds)])

/-- no exact value for sqrt, ln, sin, … : such results are reported as null -/
def noInterp : Interp := fun _ _ => none

def importedName (kind n : String) : String :=
  match escapeId n kind with
  | .ok s => nameToPy s
  | .error _ => ""

def handleModel (j : Json) : Except String Json := do
  let m ← jPyModel (← field j "model")
  let states ← jList (jAssoc jRat) (← field j "states")
  let varNames := m.vars.map (·.1)
  let allNames := varNames ++ m.params.map (·.1) ++ m.derived.map (·.1) ++ m.rxns.map (·.name)
  let dynNames := m.derived.map (·.1) ++ m.rxns.map (·.name)
  let unsupported :=
    let fns := (m.params ++ m.vars).filterMap (fun kv => match kv.2 with | .ia f => some f | _ => none)
      ++ m.derived.map (·.2) ++ m.rxns.map (·.fn)
      ++ (m.rxns.flatMap fun r => r.stoich.filterMap fun kv => match kv.2 with | .computed f => some f | _ => none)
    fns.any fun f => bodyUnsupported f.body
  let inLanguage :=
    let fns := (m.params ++ m.vars).filterMap (fun kv => match kv.2 with | .ia f => some f | _ => none)
      ++ m.derived.map (·.2) ++ m.rxns.map (·.fn)
      ++ (m.rxns.flatMap fun r => r.stoich.filterMap fun kv => match kv.2 with | .computed f => some f | _ => none)
    fns.all fun f => bodyInLanguage f.body && f.params.length == f.args.length
  -- original model
  let specInit := (varNames ++ m.params.map (·.1)).map fun n => (n, pyInit noInterp m m.fuel n)
  let specAt := states.map fun st =>
    Json.mkObj [("vals", assocJ (optJ valJ) (dynNames.map fun n => (n, pyValue noInterp m st m.fuel n))),
                ("rhs", assocJ (optJ ratJ) (varNames.map fun x => (x, pyRhs noInterp m st x)))]
  let spec := Json.mkObj [("init", assocJ (optJ valJ) specInit), ("at", .arr specAt.toArray)]
  let kindOf (n : String) : String :=
    if varNames.contains n then "CPD" else if (m.params.map (·.1)).contains n then "PAR"
    else if (m.derived.map (·.1)).contains n then "AR" else "RXN"
  let names := allNames.map fun n => (n, importedName (kindOf n) n)
  -- `write(model, file, compartments=…)`; the option is absent (null) or a list of (id, size)
  let comps ← match j.getObjVal? "compartments" with
    | .ok .null => pure none
    | .ok cj => (jAssoc jRat cj).map some
    | .error _ => pure none
  -- further options: {"model_name": s, "date": "YYYY-MM-DD", "unit_ids": [..]} (absent: the defaults of `write`)
  let opts : WriteOpts := match j.getObjVal? "write_opts" with
    | .ok oj =>
      { modelName := (oj.getObjValAs? String "model_name").toOption.getD "model",
        date := (oj.getObjValAs? String "date").toOption.getD "",
        unitIds := ((oj.getObjVal? "unit_ids").toOption.bind fun u => (jList jStr u).toOption).getD ["per_second"] }
    | .error _ => {}
  let wr := writeModelFull m comps opts
  -- the component part, computed on its own: `exportModel` (references avoid the component names) and `exportModelFrom`
  -- with the names `_create_sbml_reactions` starts from (compartment ids included)
  let plain := exportModel m.escArgs
  let from_ := (chooseCompartments m.names comps).bind fun cs => exportModelFrom (refTaken m.escArgs cs) m.escArgs
  let ex := wr.map (·.doc)
  let base := [("unsupported", Json.bool unsupported), ("in_language", Json.bool inLanguage), ("export", exJ sdoccJ wr),
               ("export_plain", exJ sdocJ plain), ("export_from", exJ sdocJ from_),
               ("names", assocJ Json.str names), ("spec", spec)]
  match ex with
  | .error _ => pure (Json.mkObj base)
  | .ok d =>
    let d' := d.mapNames nameToPy
    let imp (n : String) : String := (names.lookup n).getD n
    let readInit := (varNames ++ m.params.map (·.1)).map fun n => (imp n, docInit noInterp d' d'.fuel (imp n))
    let readAt := states.map fun st =>
      let st' := st.map fun kv => (imp kv.1, kv.2)
      Json.mkObj [("vals", assocJ (optJ valJ) (dynNames.map fun n => (imp n, docValue noInterp d' st' d'.fuel (imp n)))),
                  ("rhs", assocJ (optJ ratJ) (varNames.map fun x => (imp x, docRhs noInterp d' st' (imp x))))]
    let read := Json.mkObj [("init", assocJ (optJ valJ) readInit), ("at", .arr readAt.toArray),
                            ("unresolved", strsJ d'.undefinedNames)]
    pure (Json.mkObj (base ++ [("read", read)]))

def handle (j : Json) : Except String Json := do
  match j.getObjVal? "fn" with
  | .ok fj => do
      let f ← jPyFn fj
      pure (Json.mkObj [("math", exJ mathJ (sbmlifyFn f)), ("unsupported", .bool (bodyUnsupported f.body))])
  | .error _ =>
  match j.getObjVal? "escape" with
  | .ok ej => do
      match ← jArr ej with
      | [id, pre] => do
          let r := escapeId (← jStr id) (← jStr pre)
          let py := match r with | .ok s => nameToPy s | .error _ => ""
          pure (Json.mkObj [("escape", exJ Json.str r), ("py", .str py), ("pyraw", .str (nameToPy (← jStr id)))])
      | _ => .error "bad escape request"
  | .error _ => handleModel j

end Driver.H_c08
