/- op "c09": run a scan (sequential / under a pool schedule / the pre-fix shared-cell variant)
   with the Euler workers, read the lazy views in the requested order, report per result the
   view and, for the caller's model object, what it looks like afterwards. -/
import Driver.CoreWire
import MxlVerif.Model.C09Workers
import MxlVerif.Model.C09Par
open Lean Mxl Mxl.Wire Mxl.C09
namespace Driver.H_c09

def jRow (j : Json) : Except String Row := jAssoc jRat j

def jCfg (j : Json) : Except String EulerCfg := do
  pure { nss := ← jNat (← field j "nss"), h := ← jRat (← field j "h"),
         failKeys := ← jList jRat (← field j "fail"),
         tol := ← match fieldD j "tol" .null with
           | .null => pure none
           | v => do pure (some (← jRat v)),
         raiseKeys := ← jList jRat (fieldD j "raise" (.arr #[])),
         zeroDivKeys := ← jList jRat (fieldD j "zerodiv" (.arr #[])) }

def jProto (j : Json) : Except String Protocol := jList (jPair jRat jRow) j

def jWorker (j : Json) : Except String Worker := do
  let cfg ← jCfg (← field j "cfg")
  match ← jStr (← field j "kind") with
  | "ss" => pure (ssWorker cfg)
  | "tc" => pure (tcWorker cfg (← jList jRat (← field j "tps")))
  | "proto" => pure (protoWorker cfg (← jProto (← field j "proto")) (← jNat (← field j "steps")))
  | "ptc" => pure (ptcWorker cfg (← jProto (← field j "proto")) (← jList jRat (← field j "tps")))
  | k => .error s!"bad kind {k}"

def argRowsJ (rows : ArgRows) : Json :=
  .arr (rows.map fun r => Json.arr #[ratJ r.1, assocJ ratJ r.2]).toArray

def viewJ (v : View) : Json :=
  Json.mkObj [("nan", .bool v.nan), ("segs", .arr (v.segs.map argRowsJ).toArray)]

/-- `get_parameter_values()` and `get_initial_conditions()` of a model object -/
def stateJ (c : Content) : Json :=
  Json.mkObj [("pars", resJ (assocJ ratJ) (getParameterValues c)), ("init", resJ (assocJ ratJ) (getInit c))]

def natJ (n : Nat) : Json := .num (.fromNat n)

/-- the time index `Props/C09` states for a successful row of this worker (steady state: not
    observable, the container takes the last row) -/
def specIndex (j : Json) : Except String (Option (List Rat)) := do
  match ← jStr (← field j "kind") with
  | "tc" => pure (some (tcIndex (← jList jRat (← field j "tps"))))
  | "proto" => pure (some (protoIndex (← jNat (← field j "steps")) 0 true (← jProto (← field j "proto"))))
  | "ptc" => pure (some (ptcIndex (← jProto (← field j "proto")) (← jList jRat (← field j "tps"))))
  | _ => pure none

def runScan (j : Json) : Except String (Except Err Json) := do
  let c0 ← jContent (← field j "content")
  let w ← jWorker j
  let spec ← specIndex j
  let rows ← jList (jPair jNat jRow) (← field j "rows")
  let mode ← jStr (← field j "mode")
  let kind ← jStr (← field j "kind")
  let assign ← jList jNat (fieldD j "assign" (.arr #[]))
  let n ← jNat (fieldD j "n" (.num 1))
  let y0 ← match fieldD j "y0" .null with
    | .null => pure none
    | v => do pure (some (← jRow v))
  let cache? ← match fieldD j "cache" .null with
    | .null => pure none
    | v => do pure (some (← jStr v))
  let order? ← match fieldD j "order" .null with
    | .null => pure none
    | v => do pure (some (← jList jNat v))
  pure do
    -- `if y0 is not None: model.update_variables(y0)` on the caller's model
    let c ← match y0 with
      | none => pure c0
      | some kv => updateVars c0 kv
    let h0 : Heap := [c]
    let (h1, res) ← match cache?, mode with
      | none, "seq" => seqScan w h0 0 rows
      | none, "legacy" => seqScanWith false w h0 0 rows
      | none, _ => parScan assign n w h0 0 rows
      | some kind, _ =>
        -- `cache=Cache(tmp_dir)`: an empty directory ("fresh"), or one filled by running the same scan once ("warm")
        let sched : Sched := { assign, n, timedOut := [] }
        let run (h : Heap) (st : Option (Store Pickled)) := scanWith shippedCopyFirst (mode != "seq") sched w h 0 rows st
        let (hA, st0) ← (if kind == "warm" then
            match run h0 (some []) with
            | (.ok (h', _), st) => pure (h', st)
            | (.error e, _) => throw e
          else pure (h0, some []) : Except Err (Heap × Option (Store Pickled)))
        match run hA st0 with
        | (.ok r, _) => pure r
        | (.error e, _) => throw e
    -- containers
    let entries : List (Json × Sim) ←
      if kind == "ss" then do
        let e ← ssContainer rows res
        pure (e.map fun (vals, s) => (Json.arr (vals.map ratJ).toArray, s))
      else pure ((dictOf res).map fun (l, s) => (natJ l, s))
    let sims := entries.map (·.2)
    let order := order?.getD (List.range sims.length)
    let (h2, memo) ← readViews sims h1 [] order
    let out := (List.range sims.length).filterMap fun i =>
      match entries[i]?, memo.lookup i with
      | some e, some v => some (Json.arr #[e.1, viewJ v])
      | _, _ => none
    let caller ← h2.read 0
    let gridOk := memo.all fun iv =>
      iv.2.nan || match spec with
        | none => true
        | some idx => (iv.2.segs.flatMap fun rows => rows.map (·.1)) == idx
    pure (Json.mkObj [("res", .arr out.toArray), ("caller", stateJ caller), ("grid_ok", .bool gridOk)])

/-- `"what": "parallelise"`: `parallel.parallelise` itself over the toy function of `harness/c09lib.py::toy_fn`
    (`x < 0` raises `ValueError`, else `2·x`); the cache directory before the call, the mode, the schedule and the
    positions that exceed the timeout are inputs; the answer is the returned list (or the exception) and the keys of the
    directory afterwards -/
def runPar (j : Json) : Except String Json := do
  let inputs ← jList (jPair jNat jRat) (← field j "inputs")
  let cache ← match fieldD j "store" .null with
    | .null => pure none
    | v => do pure (some (← jList (jPair jNat jRat) v))
  let parallel ← jBool (← field j "parallel")
  let sched : Sched := { assign := ← jList jNat (fieldD j "assign" (.arr #[])), n := ← jNat (fieldD j "n" (.num 1)),
                         timedOut := ← jList jNat (fieldD j "timed_out" (.arr #[])) }
  let fn : Rat → Except Err Rat := fun x => if x < 0 then .error (.valueError "toy_fn") else .ok (2 * x)
  let (r, st) := parallelise fn inputs cache parallel sched
  let pairsJ (l : List (Nat × Rat)) : Json := .arr (l.map fun kv => Json.arr #[natJ kv.1, ratJ kv.2]).toArray
  pure (Json.mkObj [("res", resJ pairsJ r),
                    ("store", match st with | none => .null | some l => pairsJ l)])

/-- `"kind": "mcscan"`: `mc.scan_steady_state` -/
def runMcScan (j : Json) : Except String (Except Err Json) := do
  let c0 ← jContent (← field j "content")
  let w := ssWorker (← jCfg (← field j "cfg"))
  let samples ← jList (jPair jNat jRow) (← field j "rows")
  let inner ← jList (jPair jNat jRow) (← field j "inner")
  let assign ← jList jNat (fieldD j "assign" (.arr #[]))
  let n ← jNat (fieldD j "n" (.num 1))
  let y0 ← match fieldD j "y0" .null with
    | .null => pure none
    | v => do pure (some (← jRow v))
  pure do
    let c ← match y0 with
      | none => pure c0
      | some kv => updateVars c0 kv
    let res ← mcScan shippedCopyFirst assign n w inner c samples
    let rows := res.flatMap fun (lv : Label × List (List Rat × View)) =>
      lv.2.map fun (kv : List Rat × View) => Json.arr #[natJ lv.1, .arr (kv.1.map ratJ).toArray, viewJ kv.2]
    pure (Json.mkObj [("rows", .arr rows.toArray), ("caller", stateJ c)])

def handle (j : Json) : Except String Json := do
  if (← jStr (fieldD j "what" (.str "scan"))) == "parallelise" then return (← runPar j)
  if (← jStr (fieldD j "kind" (.str ""))) == "mcscan" then return resJ id (← runMcScan j)
  pure (resJ id (← runScan j))

end Driver.H_c09
