/- op "c09": run a scan (sequential / under a pool schedule / the pre-fix shared-cell variant)
   with the Euler workers, read the lazy views in the requested order, report per result the
   view and, for the caller's model object, what it looks like afterwards. -/
import Driver.CoreWire
import MxlVerif.Model.C09Workers
open Lean Mxl Mxl.Wire Mxl.C09
namespace Driver.H_c09

def jRow (j : Json) : Except String Row := jAssoc jRat j

def jCfg (j : Json) : Except String EulerCfg := do
  pure { nss := ← jNat (← field j "nss"), h := ← jRat (← field j "h"),
         failKeys := ← jList jRat (← field j "fail"),
         tol := ← match fieldD j "tol" .null with
           | .null => pure none
           | v => do pure (some (← jRat v)),
         raiseKeys := ← jList jRat (fieldD j "raise" (.arr #[])) }

def jProto (j : Json) : Except String Protocol := jList (jPair jRat jRow) j

def jWorker (j : Json) : Except String Worker := do
  let cfg ← jCfg (← field j "cfg")
  match ← jStr (← field j "kind") with
  | "ss" => pure (ssWorker cfg)
  | "tc" => pure (tcWorker cfg (← jList jRat (← field j "tps")))
  | "proto" => pure (protoWorker cfg (← jProto (← field j "proto")) (← jNat (← field j "steps")))
  | "ptc" => pure (ptcWorker cfg (← jProto (← field j "proto")) (← jList jRat (← field j "tps")))
  | k => .error s!"bad kind {k}"

def argRowsJ (rows : ArgRows) : Json :=
  .arr (rows.map fun r => Json.arr #[ratJ r.1, assocJ ratJ r.2]).toArray

def viewJ (v : View) : Json :=
  Json.mkObj [("nan", .bool v.nan), ("segs", .arr (v.segs.map argRowsJ).toArray)]

/-- `get_parameter_values()` and `get_initial_conditions()` of a model object -/
def stateJ (c : Content) : Json :=
  Json.mkObj [("pars", resJ (assocJ ratJ) (getParameterValues c)), ("init", resJ (assocJ ratJ) (getInit c))]

def natJ (n : Nat) : Json := .num (.fromNat n)

/-- the time index `Props/C09` states for a successful row of this worker (steady state: not
    observable, the container takes the last row) -/
def specIndex (j : Json) : Except String (Option (List Rat)) := do
  match ← jStr (← field j "kind") with
  | "tc" => pure (some (tcIndex (← jList jRat (← field j "tps"))))
  | "proto" => pure (some (protoIndex (← jNat (← field j "steps")) 0 true (← jProto (← field j "proto"))))
  | "ptc" => pure (some (ptcIndex (← jProto (← field j "proto")) (← jList jRat (← field j "tps"))))
  | _ => pure none

def runScan (j : Json) : Except String (Except Err Json) := do
  let c0 ← jContent (← field j "content")
  let w ← jWorker j
  let spec ← specIndex j
  let rows ← jList (jPair jNat jRow) (← field j "rows")
  let mode ← jStr (← field j "mode")
  let kind ← jStr (← field j "kind")
  let assign ← jList jNat (fieldD j "assign" (.arr #[]))
  let n ← jNat (fieldD j "n" (.num 1))
  let y0 ← match fieldD j "y0" .null with
    | .null => pure none
    | v => do pure (some (← jRow v))
  let order? ← match fieldD j "order" .null with
    | .null => pure none
    | v => do pure (some (← jList jNat v))
  pure do
    -- `if y0 is not None: model.update_variables(y0)` on the caller's model
    let c ← match y0 with
      | none => pure c0
      | some kv => updateVars c0 kv
    let h0 : Heap := [c]
    let (h1, res) ← match mode with
      | "seq" => seqScan w h0 0 rows
      | "legacy" => seqScanWith false w h0 0 rows
      | _ => parScan assign n w h0 0 rows
    -- containers
    let entries : List (Json × Sim) ←
      if kind == "ss" then do
        let e ← ssContainer rows res
        pure (e.map fun (vals, s) => (Json.arr (vals.map ratJ).toArray, s))
      else pure ((dictOf res).map fun (l, s) => (natJ l, s))
    let sims := entries.map (·.2)
    let order := order?.getD (List.range sims.length)
    let (h2, memo) ← readViews sims h1 [] order
    let out := (List.range sims.length).filterMap fun i =>
      match entries[i]?, memo.lookup i with
      | some e, some v => some (Json.arr #[e.1, viewJ v])
      | _, _ => none
    let caller ← h2.read 0
    let gridOk := memo.all fun iv =>
      iv.2.nan || match spec with
        | none => true
        | some idx => (iv.2.segs.flatMap fun rows => rows.map (·.1)) == idx
    pure (Json.mkObj [("res", .arr out.toArray), ("caller", stateJ caller), ("grid_ok", .bool gridOk)])

def handle (j : Json) : Except String Json := do
  pure (resJ id (← runScan j))

end Driver.H_c09
