/- op "c12": symbolic conversion, Jacobian and the compiled-Jacobian closure of a model
   whose functions carry symbolic bodies; the numeric right-hand side of the same model
   (shared core) and the order-free specification, evaluated at the given points. -/
import Driver.CoreWire
import MxlVerif.Model.C12
import MxlVerif.Model.C12Sim
import MxlVerif.Generated.C12Glue
open Lean Mxl Mxl.Wire Mxl.C12
namespace Driver.H_c12

partial def jSExpr (j : Json) : Except String BExpr := do
  match ← jArr j with
  | [.str "a", i] => pure (.arg (← jNat i))
  | [.str "c", q] => pure (.const (← jRat q))
  | [.str "+", a, b] => pure (.add (← jSExpr a) (← jSExpr b))
  | [.str "-", a, b] => pure (.sub (← jSExpr a) (← jSExpr b))
  | [.str "*", a, b] => pure (.mul (← jSExpr a) (← jSExpr b))
  | [.str "/", a, b] => pure (.div (← jSExpr a) (← jSExpr b))
  | [.str "neg", a] => pure (.neg (← jSExpr a))
  | [.str "pow", a, n] => pure (.pow (← jSExpr a) (← jNat n))
  | _ => .error s!"bad sexpr {j.compress}"

/-- model expressions over symbols: `["s", name]` next to the constructors of `jSExpr` -/
partial def jSymExpr (j : Json) : Except String SExpr := do
  match ← jArr j with
  | [.str "s", n] => pure (.sym (← jStr n))
  | [.str "c", q] => pure (.const (← jRat q))
  | [.str "+", a, b] => pure (.add (← jSymExpr a) (← jSymExpr b))
  | [.str "-", a, b] => pure (.sub (← jSymExpr a) (← jSymExpr b))
  | [.str "*", a, b] => pure (.mul (← jSymExpr a) (← jSymExpr b))
  | [.str "/", a, b] => pure (.div (← jSymExpr a) (← jSymExpr b))
  | [.str "neg", a] => pure (.neg (← jSymExpr a))
  | [.str "pow", a, n] => pure (.pow (← jSymExpr a) (← jNat n))
  | _ => .error s!"bad symbolic expr {j.compress}"

/-- op "c12" with a `subst` field: `substSym σ e` (symbols outside `σ` stay) evaluated at the given environments;
    `null` where a denominator of the substituted expression vanishes -/
def handleSubst (j : Json) : Except String Json := do
  let e ← jSymExpr (← field j "e")
  let σl ← jAssoc jSymExpr (← field j "sigma")
  let σ : String → SExpr := fun n => (σl.lookup n).getD (.sym n)
  let r := substSym σ e
  let envs ← jArr (← field j "envs")
  let vals ← envs.mapM fun ej => do
    let el ← jAssoc jRat ej
    let ρ : String → Rat := fun n => (el.lookup n).getD 0
    pure (if denOKb ρ r then ratJ (evalS ρ r) else Json.null)
  pure (Json.mkObj [("vals", .arr vals.toArray), ("free", strsJ (freeSyms r))])

def jSFn (j : Json) : Except String SFn := do
  pure { args := ← jList jStr (← field j "args"), body := ← jSExpr (← field j "e") }

def jSVal (j : Json) : Except String SVal :=
  match j.getObjVal? "v" with
  | .ok v => do pure (.plain (← jRat v))
  | .error _ => do pure (.ia (← jSFn (← field j "ia")))

def jSCoef (j : Json) : Except String SCoef :=
  match j.getObjVal? "c" with
  | .ok v => do pure (.num (← jRat v))
  | .error _ => do pure (.dyn (← jSFn j))

def jSRxn (j : Json) : Except String SRxn := do
  pure { rate := ← jSFn j, stoich := ← jAssoc jSCoef (← field j "st") }

def jSContent (j : Json) : Except String SContent := do
  pure { vars := ← jAssoc jSVal (fieldD j "vars" (.arr #[])),
         pars := ← jAssoc jSVal (fieldD j "pars" (.arr #[])),
         derived := ← jAssoc jSFn (fieldD j "derived" (.arr #[])),
         readouts := ← jAssoc jSFn (fieldD j "readouts" (.arr #[])),
         rxns := ← jAssoc jSRxn (fieldD j "rxns" (.arr #[])),
         surs := ← jAssoc jSur (fieldD j "surs" (.arr #[])),
         data := ← jAssoc jRat (fieldD j "data" (.arr #[])) }

def matJ (m : List (List Rat)) : Json := .arr (m.map ratsJ).toArray

def okJ (b : Bool) : Json := .bool b

/-- values of equations and of our own Jacobian (`D`) at a point; `null` where a denominator
    vanishes (the comparison is then skipped: Python raises `ZeroDivisionError` there) -/
def evalAt (es : List SExpr) (vn : List String) (ρ : String → Rat) : Json :=
  let jac := jacobianOf es vn
  if es.all (denOKb ρ) && jac.all (fun row => row.all (denOKb ρ)) then
    Json.mkObj [("eqs", ratsJ (es.map (evalS ρ))),
                ("jac", matJ (jac.map fun row => row.map (evalS ρ)))]
  else .null

def statusJ {α} : Except Err α → Json
  | .ok _ => Json.mkObj [("ok", .bool true)]
  | .error e => Json.mkObj [("err", errJ e)]

def jSimOp (j : Json) : Except String SimOp := do
  match ← jArr j with
  | [.str "set", k, v] => pure (.setPar (← jStr k) (← jRat v))
  | [.str "edit", c] => pure (.edit (← jSContent c))
  | [.str "reinit"] => pure .reinit
  | [.str "call", t, xs] => pure (.call (← jRat t) (← jList jRat xs))
  | _ => .error s!"bad sim op {j.compress}"

def jacResJ (r : Except Err (Option (List (List Rat)))) : Json :=
  resJ (fun o => match o with | none => Json.null | some m => matJ m) r

/-- a history of the Simulator (`Model/C12Sim.lean`), run with the glue facts of the current source: per operation
    what the state machine hands to the integrator (`m`) and what a Simulator freshly built on the content of that
    moment would (`s`, `null` where a denominator of the equations or of the Jacobian vanishes there) -/
def outJ : SimOut → Json
  | .upd => Json.null
  | .noJac => Json.mkObj [("ok", Json.null)]
  | .mat J => Json.mkObj [("ok", matJ J)]
  | .raised => Json.mkObj [("raised", .bool true)]

def runHist (c : SContent) (ops : List SimOp) : Json :=
  match simInitG Mxl.C12.Generated.glue c with
  | .error e => Json.mkObj [("init", Json.mkObj [("err", errJ e)])]
  | .ok s0 =>
    let rec go (s : SimState) (ops : List SimOp) (acc : Array Json) : Array Json :=
      match ops with
      | [] => acc
      | op :: rest =>
        match s.stepG Mxl.C12.Generated.glue op with
        | .error e => acc.push (Json.mkObj [("err", errJ e)])
        | .ok (s', o) =>
          let fresh : Json := match op with
            | .call t xs =>
              (match createCache s.content.toContent, toSymbolic s.content with
               | .ok cn, .ok esn =>
                 if (evalAt esn cn.varNames (symEnv s.content cn xs)).isNull then Json.str "skip"
                 else jacResJ (callJac s.content t xs)
               | _, _ => jacResJ (callJac s.content t xs))
            | _ => Json.null
          go s' rest (acc.push (Json.mkObj [("m", outJ o), ("s", fresh),
                                            ("c", .bool (s.recompilesG Mxl.C12.Generated.glue))]))
    -- the whole history at once (`runG`, what `C12_sim_history` is stated over): `null` when a re-initialisation raises
    let run : Json := match runG Mxl.C12.Generated.glue s0 ops with
      | .ok (_, outs) => .arr (outs.map outJ).toArray
      | .error _ => Json.null
    Json.mkObj [("init", Json.mkObj [("ok", .bool s0.jac.isSome)]), ("outs", .arr (go s0 ops #[])), ("run", run),
                ("after", .bool (contentAfter c ops).wf)]

def handle (j : Json) : Except String Json := do
  if (j.getObjVal? "subst").isOk then return (← handleSubst (← field j "subst"))
  let c ← jSContent (← field j "content")
  let pts ← jArr (← field j "points")
  let upd : Option SContent ← match j.getObjVal? "upd" with
    | .ok u => do
      match ← jArr u with
      | [k, v] => pure (some (c.setPar (← jStr k) (← jRat v)))
      | _ => .error "bad upd"
    | .error _ => pure none
  let cacheR := createCache c.toContent
  let sym := toSymbolic c
  let spec := specEqs c
  let perPoint ← pts.mapM fun p => do
    let t ← jRat (← field p "t")
    let xs ← jList jRat (← field p "x")
    let rhs := resJ ratsJ (callRhs c.toContent t xs)
    let (mv, sv) := match cacheR with
      | .ok cache =>
        let ρ := symEnv c cache xs
        ((match sym with | .ok es => evalAt es cache.varNames ρ | .error _ => Json.null),
         (match spec with | .ok es => evalAt es cache.varNames ρ | .error _ => Json.null))
      | .error _ => (Json.null, Json.null)
    let jf := resJ (fun o => match o with | none => Json.null | some m => matJ m) (callJac c t xs)
    -- the installed closure called after `update_parameter`, and a closure installed afterwards
    let ju : Json := match upd, installJac c with
      | some now, some cl => resJ (fun r => matJ r.2) (cl.call now t xs)
      | _, _ => Json.null
    let jfresh : Json := match upd with
      | some now =>
        -- `null` where a denominator vanishes at the updated parameter values (Python raises there)
        match createCache now.toContent, toSymbolic now with
        | .ok cn, .ok esn =>
          if (evalAt esn cn.varNames (symEnv now cn xs)).isNull then Json.null
          else resJ (fun o => match o with | none => Json.null | some m => matJ m) (callJac now t xs)
        | _, _ => Json.null
      | none => Json.null
    pure (Json.mkObj [("rhs", rhs), ("m", mv), ("s", sv), ("jacfn", jf), ("jacfn_upd", ju), ("jacfn_fresh", jfresh)])
  let ja := resJ (fun (a : List String × List String × List Rat) =>
      Json.arr #[strsJ a.1, strsJ a.2.1, ratsJ a.2.2]) (jacArgs c)
  let hist : Json ← match j.getObjVal? "hist" with
    | .ok h => do pure (runHist c (← jList jSimOp h))
    | .error _ => pure Json.null
  pure (Json.mkObj [
    ("hist", hist),
    ("sym", statusJ sym), ("decl", statusJ (toSymbolicDeclOrder c)), ("spec", statusJ spec),
    ("has_jac", .bool (simJacobian c).isSome), ("jacargs", ja),
    ("wf", .bool c.wf), ("convertible", .bool c.convertible),
    ("points", .arr perPoint.toArray)])

end Driver.H_c12
