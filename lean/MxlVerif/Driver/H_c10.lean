/- op "c10": build a `Simulation` (content + segments), run a history of reads /
   parameter changes with the impl-faithful model, answer one result per event.
   With `"spec": true` the same history is answered by the stateless pointwise
   specification `Mxl.C10.specRead` instead. -/
import Driver.CoreWire
import MxlVerif.Model.C10
import MxlVerif.Model.C10Spec
import MxlVerif.Lemmas.C10RhsNames
open Lean Mxl Mxl.Wire Mxl.C10
namespace Driver.H_c10

def jRow (j : Json) : Except String Row := jAssoc jRat j

def jTable (j : Json) : Except String Table := jList (jPair jRat jRow) j

def jNorm (j : Json) : Except String Norm :=
  match j with
  | .null => pure .none
  | _ => do
    match ← jArr j with
    | [.str "s", f] => pure (.scalar (← jRat f))
    | [.str "l", fs] => pure (.list (← jList jRat fs))
    | _ => .error s!"bad norm {j.compress}"

def jFlags (j : Json) : Except String Flags := do
  match ← jList jBool j with
  | [a, b, c, d, e, f, g, h] =>
    pure { vars := a, pars := b, dpars := c, dvars := d, rxns := e, svars := f, sflux := g, readouts := h }
  | _ => .error "flags: expected 8 booleans"

def jEvent (j : Json) : Except String Event := do
  match ← jArr j with
  | [.str "args", f, n, cc] => pure (.read (.args (← jFlags f) (← jNorm n) (← jBool cc)))
  | [.str "vars", dv, ro, sv, n, cc] =>
    pure (.read (.vars (← jBool dv) (← jBool ro) (← jBool sv) (← jNorm n) (← jBool cc)))
  | [.str "fluxes", s, n, cc] => pure (.read (.fluxes (← jBool s) (← jNorm n) (← jBool cc)))
  | [.str "variables"] => pure (.read .variablesProp)
  | [.str "fluxesprop"] => pure (.read .fluxesProp)
  | [.str "combined"] => pure (.read .combined)
  | [.str "newy0"] => pure (.read .newY0)
  | [.str "rhs", n, cc] => pure (.read (.rhs (← jNorm n) (← jBool cc)))
  | [.str "prod", v, sc, n, cc] =>
    pure (.read (.prodCons true (← jStr v) (← jBool sc) (← jNorm n) (← jBool cc)))
  | [.str "cons", v, sc, n, cc] =>
    pure (.read (.prodCons false (← jStr v) (← jBool sc) (← jNorm n) (← jBool cc)))
  | [.str "setpars", p] => pure (.setPars (← jAssoc jRat p))
  | [.str "pvals"] => pure .modelPars
  | _ => .error s!"bad event {j.compress}"

def rowJ (r : Row) : Json := assocJ ratJ r
def tableJ (t : Table) : Json := .arr (t.map fun r => Json.arr #[ratJ r.1, rowJ r.2]).toArray

def viewJ : View → Json
  | .frames l => .arr #[.str "frames", .arr (l.map tableJ).toArray]
  | .frame t => .arr #[.str "frame", tableJ t]
  | .dict d => .arr #[.str "dict", rowJ d]

def handle (j : Json) : Except String Json := do
  let c ← jContent (← field j "content")
  let segs ← jArr (← field j "segs")
  let rawVars ← segs.mapM fun s => do jTable (← field s "rows")
  let rawPars ← segs.mapM fun s => do jAssoc jRat (← field s "pars")
  -- malformed results (more / fewer parameter snapshots than segments)
  let extra ← jList (jAssoc jRat) (fieldD j "extra_pars" (.arr #[]))
  let dropPars ← jNat (fieldD j "drop_pars" (.num 0))
  let rawPars := (rawPars.take (rawPars.length - dropPars)) ++ extra
  let res : Res := { rawVars, rawPars }
  let evs ← jList jEvent (← field j "events")
  let spec := match fieldD j "spec" (.bool false) with | .bool b => b | _ => false
  -- what the shared model holds when the history starts (a result recorded by the
  -- Simulator leaves it with the last segment's parameters)
  let initPars ← jAssoc jRat (fieldD j "init_pars" (.arr #[]))
  let c ← match withPars c initPars with
    | .ok c' => pure c'
    | .error _ => .error "init_pars: unknown parameter"
  if let .bool true := fieldD j "checks" (.bool false) then
    -- the decidable hypotheses of the theorems, evaluated on this very case: which variables have no state- or
    -- time-dependent coefficient (hypothesis of the `_partial` theorems = complement of finding F-C10-2), and
    -- whether the structural check behind `C10_reported_derivative_is_core_derivative` holds
    let noDyn := c.vars.map fun kv => Json.arr #[.str kv.1, .bool (noDynCoefB res c kv.1)]
    let rhsOk := match createCache c with
      | .ok cache => Json.bool (rhsNamesOkB c cache)
      | .error _ => Json.null
    return Json.mkObj [("no_dyn_coef", .arr noDyn.toArray), ("rhs_names_ok", rhsOk)]
  let out :=
    if spec then specHistory res c c evs
    else runHistory res evs { model := c, memo := [] }
  pure (.arr (out.map (resJ viewJ)).toArray)

end Driver.H_c10
