/- op "c15": `simulate_to_steady_state().get_result()` on a simulator whose integrator holds (t0, y0), with the exact
flow of a linear network as the integrator step; answers the loop outcome, the result, the scan row and the integrator's
state afterwards -/
import Driver.Wire
import MxlVerif.Model.C15
import MxlVerif.Generated.C15Loop
open Lean Mxl.Wire Mxl.C15
namespace Driver.H_c15

def ratsJ (l : List Rat) : Json := .arr (l.map ratJ).toArray

def handle (j : Json) : Except String Json := do
  let copies ← match ← field j "copies" with
    | .str "gen" => pure Gen.copies
    | .bool b => pure b
    | x => throw s!"bad copies {x.compress}"
  let maxSteps ← match fieldD j "max" (.str "gen") with
    | .str "gen" => pure Gen.maxSteps
    | x => jNat x
  let C ← jList (jList jRat) (← field j "C")
  let d ← jList jRat (← field j "d")
  let y0 ← jList jRat (← field j "y0")
  let tol ← jRat (← field j "tol")
  let rel ← jBool (← field j "rel")
  -- family "blowup": dx/dt = x² on the first component (exact flow x/(1-100x) until the singularity), relaxing others
  let step := match fieldD j "blowup" .null with
    | .null => affine C d
    | _ => blowStep (C.map fun row => row.headD 0) d
  let small := if rel then smallRel tol else smallAbs tol
  -- the state the integrator holds when the search is called: (`t0`, `y0`); `orig` = the initial conditions
  let t0 ← jRat (fieldD j "t0" (.str "0"))
  let orig ← match fieldD j "orig" .null with
    | .null => pure y0
    | x => jList jRat x
  let shift ← match fieldD j "shift" .null with
    | .null => pure none
    | x => some <$> jRat x
  let loop := ssRun copies Gen.checks step okState small maxSteps (if Gen.continues then y0 else orig)
  -- `prior` = number of rows the simulator already holds from earlier successful calls (the last one at `t0`)
  let prior ← jNat (fieldD j "prior" (.num 0))
  let sim0 : Sim (List Rat) :=
    ⟨[], if prior == 0 then none else some (List.replicate (prior - 1) (0, orig) ++ [(t0, y0)]), shift, ⟨t0, y0, orig⟩⟩
  let sim := simulateToSteadyState Gen.continues copies Gen.checks step okState small maxSteps Gen.stepSize sim0
  let res := getResult sim
  let row := workerRow res
  let outJ : Json := match loop with
    | .steady n y => Json.mkObj [("outcome", "steady"), ("n", .num n), ("y", ratsJ y)]
    | .noSteadyState => Json.mkObj [("outcome", "NoSteadyState")]
    | .integrationFailure => Json.mkObj [("outcome", "IntegrationFailure")]
  let resJ : Json := match res with
    | .ok rows => .arr #[.str "ok", .arr (rows.map fun r => Json.arr #[ratJ r.1, ratsJ r.2]).toArray]
    | .error .noSteadyState => .arr #[.str "error", .str "NoSteadyState"]
    | .error .integrationFailure => .arr #[.str "error", .str "IntegrationFailure"]
    | .error .other => .arr #[.str "error", .str "other"]
  let rowJ : Json := match row with | some y => ratsJ y | none => .null
  -- the class predicates of the policy findings F-C15-4 / F-C15-2, as the theorems state them (accumulation requests only)
  let boundaryJ : Json := match fieldD j "acc" .null with
    | .null => .null
    | _ =>
      let relJ : Json := match d, y0 with
        | [d1], [y1] => if 0 < d1 ∧ 0 < y1 then .bool (accRelFails tol d1 y1 maxSteps) else .null
        | _, _ =>
          if d.length == y0.length && d.all (fun x => decide (0 < x)) && y0.all (fun x => decide (0 < x))
          then .bool (accRelVecFails tol d y0 maxSteps) else .null
      Json.mkObj [("abs_fails", .bool (accAbsFails tol d)), ("rel_fails", relJ)]
  pure (Json.mkObj [("loop", outJ), ("result", resJ), ("row", rowJ), ("boundary", boundaryJ),
    ("integ", Json.mkObj [("t0", ratJ sim.integ.t0), ("y0", ratsJ sim.integ.y0)])])

end Driver.H_c15
