/- op "c15": run the steady-state loop on the exact flow of a linear network, then the error plumbing -/
import Driver.Wire
import MxlVerif.Model.C15
import MxlVerif.Generated.C15Loop
open Lean Mxl.Wire Mxl.C15
namespace Driver.H_c15

def ratsJ (l : List Rat) : Json := .arr (l.map ratJ).toArray

def handle (j : Json) : Except String Json := do
  let copies ← match ← field j "copies" with
    | .str "gen" => pure Gen.copies
    | .bool b => pure b
    | x => throw s!"bad copies {x.compress}"
  let maxSteps ← match fieldD j "max" (.str "gen") with
    | .str "gen" => pure Gen.maxSteps
    | x => jNat x
  let C ← jList (jList jRat) (← field j "C")
  let d ← jList jRat (← field j "d")
  let y0 ← jList jRat (← field j "y0")
  let tol ← jRat (← field j "tol")
  let rel ← jBool (← field j "rel")
  let step := affine C d
  let small := if rel then smallRel tol else smallAbs tol
  let integ := fun (_ : Unit) => ssRun copies step small maxSteps y0
  -- `prior` = number of rows the simulator already holds from earlier successful calls
  let prior ← jNat (fieldD j "prior" (.num 0))
  let sim0 : Sim (List Rat) :=
    if prior == 0 then Sim.fresh else ⟨[], some (List.replicate prior (0, y0))⟩
  let sim := simulateToSteadyState Gen.stepSize sim0 integ
  let res := getResult sim
  let row := workerRow res
  -- squared consecutive differences over tol², for the harness's near-threshold filter
  let upto := match integ () with | .steady n _ => n + 1 | .noSteadyState => 3
  let ratios := (List.range upto).map fun m =>
    let a := iter step m y0
    let b := step a
    let dv := if rel then vdiv (vsub b a) a else vsub b a
    normSq dv / (tol * tol)
  let outJ : Json := match integ () with
    | .steady n y => Json.mkObj [("outcome", "steady"), ("n", .num n), ("y", ratsJ y)]
    | .noSteadyState => Json.mkObj [("outcome", "NoSteadyState")]
  let resJ : Json := match res with
    | .ok rows => .arr #[.str "ok", .arr (rows.map fun r => Json.arr #[.num r.1, ratsJ r.2]).toArray]
    | .error .noSteadyState => .arr #[.str "error", .str "NoSteadyState"]
    | .error .integrationFailure => .arr #[.str "error", .str "IntegrationFailure"]
    | .error .other => .arr #[.str "error", .str "other"]
  let rowJ : Json := match row with | some y => ratsJ y | none => .null
  pure (Json.mkObj [("loop", outJ), ("result", resJ), ("row", rowJ), ("ratios", ratsJ ratios)])

end Driver.H_c15
