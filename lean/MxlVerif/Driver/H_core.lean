/- op "core": build a Content, answer a list of queries with the impl-faithful model -/
import Driver.CoreWire
import MxlVerif.Model.Queries
open Lean Mxl Mxl.Wire
namespace Driver.H_core

def optVars (j : Json) : Except String (Option (List (String × Rat))) :=
  match j with
  | .null => pure none
  | _ => do pure (some (← jAssoc jRat j))

def jBool (j : Json) : Except String Bool :=
  match j with
  | .bool b => pure b
  | _ => .error "expected a boolean"

/-- the nine `include_*` flags as a list of booleans in `get_arg_names` keyword order
    (time, variables, parameters, derived_parameters, derived_variables, reactions,
    surrogate_variables, surrogate_fluxes, readouts) -/
def flags (j : Json) : Except String ArgFlags := do
  match ← jList jBool j with
  | [a, b, c, d, e, f, g, h, i] =>
      pure { time := a, variables := b, parameters := c, derivedParameters := d, derivedVariables := e,
             reactions := f, surrogateVariables := g, surrogateFluxes := h, readouts := i }
  | _ => .error "expected nine flags"

def query (c : Content) (q : Json) : Except String Json := do
  match ← jArr q with
  | [.str "init"] => pure (resJ (assocJ ratJ) (Mxl.getInit c))
  | [.str "simy0"] => pure (resJ (assocJ ratJ) (Mxl.getInit c))
  | [.str "simupd", upd] => do
      -- `Simulator(model).update_variables(upd)` before any simulation: y0 = init | upd; the model is untouched
      let u ← jAssoc jRat upd
      pure (resJ (assocJ ratJ) (do
        let init ← Mxl.getInit c
        pure (init.map fun kv => (kv.1, (u.lookup kv.1).getD kv.2))))
  | [.str "pvals"] => pure (resJ (assocJ ratJ) (Mxl.getParameterValues c))
  | [.str "classes"] => pure (resJ (fun p => Json.arr #[strsJ p.1, strsJ p.2]) (Mxl.getClasses c))
  | [.str "args", v, t] => do
      let vs ← optVars v; let tt ← jRat t
      pure (resJ (assocJ ratJ) (Mxl.guardFlux c vs tt (Mxl.getArgs c vs tt)))
  | [.str "fluxes", v, t] => do
      let vs ← optVars v; let tt ← jRat t
      pure (resJ (assocJ ratJ) (Mxl.guardFlux c vs tt (Mxl.getFluxes c vs tt)))
  | [.str "rhs", v, t] =>
      -- an explicit state goes through `getRhs` (= `get_right_hand_side(variables, time)`, the function of
      -- `C01_entry_points_agree`), the default state through `getRhsQ`
      match ← optVars v with
      | some vars => do
          let tt ← jRat t
          pure (resJ (assocJ ratJ) (Mxl.guardFlux c (some vars) tt (Mxl.getRhs c vars tt)))
      | none => do
          let tt ← jRat t
          pure (resJ (assocJ ratJ) (Mxl.guardFlux c none tt (Mxl.getRhsQ c none tt)))
  | [.str "call", t, xs] => do
      let tt ← jRat t; let xv ← jList jRat xs
      pure (resJ ratsJ (Mxl.guardFlux c (some ((omKeys c.vars).zip xv)) tt (Mxl.callRhs c tt xv)))
  | [.str "stoichvar", v, t, x] =>
      let vs ← optVars v; let tt ← jRat t
      pure (resJ (assocJ ratJ) (Mxl.guardFlux c vs tt (Mxl.getStoichOfVar c (← jStr x) vs tt)))
  | [.str "tc", rows] => do
      let rs ← jList (jPair jRat (jAssoc jRat)) rows
      let g {α} (r : Except Err α) : Except Err α :=
        rs.foldl (fun acc row => Mxl.guardFlux c (some row.2) row.1 acc) r
      let a := g (Mxl.getArgsTC c rs)
      let f := g (Mxl.getFluxesTC c rs)
      let r := match a with
        | .ok argRows => Mxl.getRhsTC c ((rs.map (·.1)).zip argRows)
        | .error e => .error e
      let rowsJ := fun (x : List (List (String × Rat))) => Json.arr (x.map (assocJ ratJ)).toArray
      pure (Json.mkObj [("args", resJ rowsJ a), ("fluxes", resJ rowsJ f), ("rhs", resJ rowsJ r)])
  | [.str "argsf", v, t, fl] =>
      pure (resJ (assocJ ratJ) (Mxl.getArgsSel c (← optVars v) (← jRat t) (← flags fl)))
  | [.str "argnames", fl] => pure (resJ strsJ (Mxl.getArgNamesQ c (← flags fl)))
  | [.str "argsftc", rows, fl] => do
      let rs ← jList (jPair jRat (jAssoc jRat)) rows
      let rowsJ := fun (x : List (List (String × Rat))) => Json.arr (x.map (assocJ ratJ)).toArray
      pure (resJ rowsJ (Mxl.getArgsSelTC c rs (← flags fl)))
  | [.str "stoich", v, t] =>
      let vs ← optVars v; let tt ← jRat t
      pure (resJ (assocJ (assocJ ratJ)) (Mxl.guardFlux c vs tt (Mxl.getStoich c vs tt)))
  | _ => .error s!"bad query {q.compress}"

def handle (j : Json) : Except String Json := do
  let c ← jContent (← field j "content")
  let qs ← jArr (← field j "queries")
  pure (.arr (← qs.mapM (query c)).toArray)

end Driver.H_core
