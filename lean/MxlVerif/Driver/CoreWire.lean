/- wire format of `Content` (shared by the core, C03, C13 … handlers) -/
import Driver.Wire
import MxlVerif.Model.Core
open Lean
namespace Mxl.Wire

def jFn (j : Json) : Except String Fn := do
  let args ← jList jStr (← field j "args")
  let e ← jFExpr (← field j "e")
  pure { args, fn := fun xs => e.eval xs }

def jVal (j : Json) : Except String Val :=
  match j.getObjVal? "v" with
  | .ok v => do pure (.plain (← jRat v))
  | .error _ => do pure (.ia (← jFn (← field j "ia")))

def jCoef (j : Json) : Except String Coef :=
  match j.getObjVal? "c" with
  | .ok v => do pure (.num (← jRat v))
  | .error _ => do pure (.dyn (← jFn j))

def jRxn (j : Json) : Except String Rxn := do
  pure { rate := ← jFn j, stoich := ← jAssoc jCoef (← field j "st") }

def jSur (j : Json) : Except String Sur := do
  let args ← jList jStr (← field j "args")
  let outs ← jList jStr (← field j "outs")
  let es ← jList jFExpr (← field j "es")
  let st ← jAssoc (jAssoc jCoef) (← field j "st")
  pure { args, outs, fn := fun xs => es.map (·.eval xs), stoich := st }

def jContent (j : Json) : Except String Content := do
  pure { vars := ← jAssoc jVal (fieldD j "vars" (.arr #[])),
         pars := ← jAssoc jVal (fieldD j "pars" (.arr #[])),
         derived := ← jAssoc jFn (fieldD j "derived" (.arr #[])),
         readouts := ← jAssoc jFn (fieldD j "readouts" (.arr #[])),
         rxns := ← jAssoc jRxn (fieldD j "rxns" (.arr #[])),
         surs := ← jAssoc jSur (fieldD j "surs" (.arr #[])),
         data := ← jAssoc jRat (fieldD j "data" (.arr #[])) }

def errJ : Err → Json
  | .keyError k => .arr #[.str "KeyError", .str k]
  | .missing m => .arr #[.str "MissingDependenciesError", assocJ strsJ m]
  | .circular m => .arr #[.str "CircularDependencyError", assocJ strsJ m]
  | .nameError k => .arr #[.str "NameError", .str k]
  | .valueError s => .arr #[.str "ValueError", .str s]
  | .other s => .arr #[.str "Other", .str s]

def resJ {α} (f : α → Json) : Except Err α → Json
  | .ok a => Json.mkObj [("ok", f a)]
  | .error e => Json.mkObj [("err", errJ e)]

def ratsJ (l : List Rat) : Json := .arr (l.map ratJ).toArray

end Mxl.Wire
