/- op "c14": op histories with protocol calls through the impl-faithful model (`Mxl.C14.runP`)
   and the specification machine (`Mxl.C14.Spec.runP`) -/
import Driver.H_c04
import MxlVerif.Model.C14
open Lean Mxl Mxl.Wire Mxl.C04 Mxl.C14
namespace Driver.H_c14
open Driver.H_c04

def jPStep (j : Json) : Except String PStep := jPair jRat (jAssoc jRat) j

def jOpP (j : Json) : Except String OpP := do
  match ← jArr j with
  | [.str "proto", steps, n] => pure (.protocol (← jList jPStep steps) ((← optJ jNat n).getD Gen.defaultTimePointsPerStep))
  | [.str "ptc", steps, pts, rel] => pure (.protocolTC (← jList jPStep steps) (← jList jRat pts) ((← optJ jBool rel).getD Gen.defaultRelative))
  | [.str "protoF", steps, n, k] => pure (.protocolF (← jList jPStep steps) ((← optJ jNat n).getD Gen.defaultTimePointsPerStep) (← jNat k))
  | [.str "ptcF", steps, pts, rel, k] => pure (.protocolTCF (← jList jPStep steps) (← jList jRat pts) ((← optJ jBool rel).getD Gen.defaultRelative) (← jNat k))
  | _ => do pure (.basic (← jOp j))

def cutsP (ops : List OpP) : List (List OpP) :=
  ((List.range ops.length).filter (fun i => ops[i]? == some (OpP.basic Op.clear))).map (fun i => ops.take i) ++ [ops]

def handle (j : Json) : Except String Json := do
  let p ← jAssoc jRat (← field j "pars")
  let ops ← jList jOpP (← field j "ops")
  let ri := runP termSys (Sim.init p STerm.init) ops
  let rs := Spec.runP termSys (Spec.init p STerm.init) ops
  let si := (cutsP ops).map fun pre => snapI (runP termSys (Sim.init p STerm.init) pre).1
  let ss := (cutsP ops).map fun pre => snapS (Spec.runP termSys (Spec.init p STerm.init) pre).1
  pure (Json.mkObj [
    ("impl", Json.mkObj [("outs", .arr (ri.2.map excJ).toArray), ("snaps", .arr si.toArray)]),
    ("spec", Json.mkObj [("outs", .arr (rs.2.map excJ).toArray), ("snaps", .arr ss.toArray)]),
    ("okhist", .bool (ops.all wfOp))])

end Driver.H_c14
