/- op "c04": run an op history through the impl-faithful Simulator model and through the
   absolute-time spec machine; states are symbolic flow terms -/
import Driver.Wire
import MxlVerif.Model.C04
open Lean Mxl Mxl.Wire Mxl.C04
namespace Driver.H_c04

def optJ {α} (f : Json → Except String α) (j : Json) : Except String (Option α) :=
  match j with
  | .null => pure none
  | _ => do pure (some (← f j))

def jOp (j : Json) : Except String Op := do
  match ← jArr j with
  | [.str "sim", t, n] => pure (.simulate (← jRat t) (← optJ jNat n))
  | [.str "tc", pts] => pure (.timeCourse (← jList jRat pts))
  | [.str "steady", r] => pure (.steady (← optJ jNat r))
  | [.str "par", kvs] => pure (.updPars (← jAssoc jRat kvs))
  | [.str "var", kvs] => pure (.updVars (← jAssoc jRat kvs))
  | [.str "clear"] => pure .clear
  | [.str "simF", t, n] => pure (.simulateF (← jRat t) (← optJ jNat n))
  | [.str "tcF", pts] => pure (.timeCourseF (← jList jRat pts))
  | [.str "scale", kvs] => pure (.scalePars (← jAssoc jRat kvs))
  | _ => .error s!"bad op {j.compress}"

def termJ : STerm → Json
  | .init => .arr #[.str "i"]
  | .flow p dt y => .arr #[.str "f", assocJ ratJ p, ratJ dt, termJ y]
  | .ov kvs y => .arr #[.str "o", assocJ ratJ kvs, termJ y]

def excJ : Option Exc → Json
  | none => .null
  | some .valueError => .str "ValueError"
  | some .indexError => .str "IndexError"
  | some .keyError => .str "KeyError"
  | some .typeError => .str "TypeError"

def segJ (s : Seg STerm) : Json :=
  Json.mkObj [("rows", .arr (s.rows.map fun r => Json.arr #[ratJ r.1, termJ r.2]).toArray),
              ("pars", assocJ ratJ s.pars)]

def segsJ : Option (List (Seg STerm)) → Json
  | none => .null
  | some l => .arr (l.map segJ).toArray

def snapI (s : Sim STerm) : Json :=
  Json.mkObj [("segs", segsJ s.segs), ("failed", .bool (s.errors > 0)), ("pars", assocJ ratJ s.pars)]

def snapS (a : Spec STerm) : Json :=
  Json.mkObj [("segs", segsJ a.segs), ("failed", .bool a.failed), ("pars", assocJ ratJ a.pars)]

/-- prefixes that end just before a `clear`, and the whole history -/
def cuts (ops : List Op) : List (List Op) :=
  ((List.range ops.length).filter (fun i => ops[i]? == some Op.clear)).map (fun i => ops.take i) ++ [ops]

def handle (j : Json) : Except String Json := do
  let p ← jAssoc jRat (← field j "pars")
  let ops ← jList jOp (← field j "ops")
  let ri := run termSys (Sim.init p STerm.init) ops
  let rs := Spec.run termSys (Spec.init p STerm.init) ops
  let si := (cuts ops).map fun pre => snapI (run termSys (Sim.init p STerm.init) pre).1
  let ss := (cuts ops).map fun pre => snapS (Spec.run termSys (Spec.init p STerm.init) pre).1
  pure (Json.mkObj [
    ("impl", Json.mkObj [("outs", .arr (ri.2.map excJ).toArray), ("snaps", .arr si.toArray)]),
    ("spec", Json.mkObj [("outs", .arr (rs.2.map excJ).toArray), ("snaps", .arr ss.toArray)]),
    ("okhist", .bool true)])

end Driver.H_c04
