/- op "c06": translate a Python function (deep embedding) with the model of `fn_to_sympy`, evaluate the
   result and the Python semantics at the given points, report the hypothesis flags of the theorems. -/
import Driver.Wire
import MxlVerif.Model.C06
import MxlVerif.Generated.C06Tables
open Lean Mxl Mxl.Wire Mxl.C06
namespace Driver.H_c06

def jUnOp : Json → Except String UnOp
  | .str "uadd" => pure .uadd | .str "usub" => pure .usub | .str "other" => pure .other
  | j => .error s!"bad unop {j.compress}"

def jBinOp : Json → Except String BinOp
  | .str "add" => pure .add | .str "sub" => pure .sub | .str "mul" => pure .mul | .str "div" => pure .div
  | .str "pow" => pure .pow | .str "mod" => pure .mod | .str "floordiv" => pure .floordiv
  | .str "other" => pure .other
  | j => .error s!"bad binop {j.compress}"

def jCmpOp : Json → Except String CmpOp
  | .str "gt" => pure .gt | .str "ge" => pure .ge | .str "lt" => pure .lt | .str "le" => pure .le
  | .str "eq" => pure .eq | .str "ne" => pure .ne | .str "other" => pure .other
  | j => .error s!"bad cmpop {j.compress}"

def jTarget (j : Json) : Except String CallTarget := do
  match ← jArr j with
  | [.str "user", .str f] => pure (.user f)
  | [.str "known", .str k] => pure (.known k)
  | [.str "unresolved"] => pure .unresolved
  | _ => .error s!"bad call target {j.compress}"

partial def jPyExpr (j : Json) : Except String PyExpr := do
  match ← jArr j with
  | [.str "num", q] => pure (.num (← jRat q))
  | [.str "name", .str n] => pure (.name n)
  | [.str "attr", .str p] => pure (.attr p)
  | [.str "un", op, e] => pure (.un (← jUnOp op) (← jPyExpr e))
  | [.str "bin", op, l, r] => pure (.bin (← jBinOp op) (← jPyExpr l) (← jPyExpr r))
  | [.str "cmp", l, ops, rs] => pure (.cmp (← jPyExpr l) (← jList jCmpOp ops) (← jList jPyExpr rs))
  | [.str "ife", c, t, e] => pure (.ife (← jPyExpr c) (← jPyExpr t) (← jPyExpr e))
  | [.str "call", .str func, args] => pure (.call func (← jList jPyExpr args))
  | [.str "callkw", .str func, args] => pure (.callKw func (← jList jPyExpr args))
  | [.str "unsupported"] => pure .unsupported
  | _ => .error s!"bad py expr {j.compress}"

def jGVal (j : Json) : Except String GVal := do
  match ← jArr j with
  | [.str "flt", q] => pure (.flt (← jRat q))
  | [.str "int", q] => pure (.int (← jRat q))
  | [.str "special", .str c, q] => pure (.special c (← jRat q))
  | [.str "fn", tgt] => pure (.fn (← jTarget tgt))
  | [.str "other"] => pure .other
  | _ => .error s!"bad global {j.compress}"

def jImpItem (j : Json) : Except String (String × ImpItem) := do
  match ← jArr j with
  | [.str n, .arr #[.str "flt", q]] => pure (n, .flt (← jRat q))
  | [.str n, .arr #[.str "int", q]] => pure (n, .int (← jRat q))
  | [.str n, .arr #[.str "objs", ps]] => pure (n, .objs (← jAssoc jGVal ps))
  | [.str n, .arr #[.str "other"]] => pure (n, .other)
  | _ => .error s!"bad import item {j.compress}"

partial def jPyStmt (j : Json) : Except String PyStmt := do
  match ← jArr j with
  | [.str "assign", .str x, e] => pure (.assign x (← jPyExpr e))
  | [.str "tuple", xs, es] => pure (.tupleAssign (← jList jStr xs) (← jList jPyExpr es))
  | [.str "aug", .str x, op, e] => pure (.augAssign x (← jBinOp op) (← jPyExpr e))
  | [.str "multi", xs, e] => pure (.multiAssign (← jList jStr xs) (← jPyExpr e))
  | [.str "unpack", xs, e] => pure (.unpackAssign (← jList jStr xs) (← jPyExpr e))
  | [.str "import", items] => pure (.importS (← jList jImpItem items))
  | [.str "if", c, t, e] => pure (.ifs (← jPyExpr c) (← jList jPyStmt t) (← jList jPyStmt e))
  | [.str "ret", e] => pure (.ret (← jPyExpr e))
  | [.str "retnone"] => pure .retNone
  | [.str "skip"] => pure .skip
  | [.str "opaque"] => pure .unhandled
  | _ => .error s!"bad py stmt {j.compress}"

def jFnDef (j : Json) : Except String FnDef := do
  pure { name := ← jStr (← field j "name"),
         params := ← jList jStr (← field j "params"),
         body := ← jList jPyStmt (← field j "body"),
         globals := ← jAssoc jGVal (fieldD j "globals" (.arr #[])),
         nPosonly := ← jNat (fieldD j "nposonly" (.num 0)),
         otherParams := ← jBool (fieldD j "otherparams" (.bool false)) }

def jSUn : Json → Except String SUn
  | .str "pos" => pure .pos | .str "neg" => pure .neg
  | j => .error s!"bad sun {j.compress}"

def jSBin : Json → Except String SBin
  | .str "add" => pure .add | .str "sub" => pure .sub | .str "mul" => pure .mul | .str "div" => pure .div
  | .str "pow" => pure .pow | .str "mod" => pure .mod | .str "floordiv" => pure .floordiv
  | j => .error s!"bad sbin {j.compress}"

def jSRel : Json → Except String SRel
  | .str "gt" => pure .gt | .str "ge" => pure .ge | .str "lt" => pure .lt | .str "le" => pure .le
  | .str "eq" => pure .eq | .str "ne" => pure .ne
  | j => .error s!"bad srel {j.compress}"

partial def jSExpr (j : Json) : Except String SExpr := do
  match ← jArr j with
  | [.str "num", q] => pure (.num (← jRat q))
  | [.str "sym", .str n] => pure (.sym n)
  | [.str "const", .str c] => pure (.const c)
  | [.str "bool", .bool b] => pure (.boolLit b)
  | [.str "un", op, a] => pure (.un (← jSUn op) (← jSExpr a))
  | [.str "bin", op, a, b] => pure (.bin (← jSBin op) (← jSExpr a) (← jSExpr b))
  | [.str "rel", op, a, b] => pure (.rel (← jSRel op) (← jSExpr a) (← jSExpr b))
  | [.str "and", a, b] => pure (.and (← jSExpr a) (← jSExpr b))
  | [.str "pw", ps] => do
      let ps ← jList (jPair jSExpr jSExpr) ps
      pure (pwOf ps)
  | _ => .error s!"bad sexpr {j.compress}"

def sunS : SUn → String | .pos => "pos" | .neg => "neg"
def sbinS : SBin → String
  | .add => "add" | .sub => "sub" | .mul => "mul" | .div => "div" | .pow => "pow" | .mod => "mod"
  | .floordiv => "floordiv"
def srelS : SRel → String
  | .gt => "gt" | .ge => "ge" | .lt => "lt" | .le => "le" | .eq => "eq" | .ne => "ne"

mutual
partial def sexprJ : SExpr → Json
  | .num q => .arr #[.str "num", ratJ q]
  | .sym n => .arr #[.str "sym", .str n]
  | .const c => .arr #[.str "const", .str c]
  | .boolLit b => .arr #[.str "bool", .bool b]
  | .un op a => .arr #[.str "un", .str (sunS op), sexprJ a]
  | .bin op a b => .arr #[.str "bin", .str (sbinS op), sexprJ a, sexprJ b]
  | .rel op a b => .arr #[.str "rel", .str (srelS op), sexprJ a, sexprJ b]
  | .and a b => .arr #[.str "and", sexprJ a, sexprJ b]
  | .pw e c rest => .arr #[.str "pw", .arr (piecesJ (.pw e c rest)).toArray]
  | .pwEnd => .arr #[.str "pw", .arr #[]]
  | .app1 f a => .arr #[.str "app", .str f, .arr #[sexprJ a]]
  | .app2 f a b => .arr #[.str "app", .str f, .arr #[sexprJ a, sexprJ b]]
partial def piecesJ : SExpr → List Json
  | .pw e c rest => .arr #[sexprJ e, sexprJ c] :: piecesJ rest
  | _ => []
end

def jVal : Json → Except String Val
  | .bool b => pure (.bool b)
  | j => do pure (.num (← jRat j))

def valJ : Val → Json
  | .num q => ratJ q
  | .bool b => .bool b
  | .obj _ => .str "nonnum"

def optValJ : Option Val → Json
  | some v => valJ v
  | none => .str "undef"

def trJ : TR SExpr → Json
  | .ok e => Json.mkObj [("ok", sexprJ e)]
  | .error (.refused why) => Json.mkObj [("refused", .str why)]
  | .error (.raised cls) => Json.mkObj [("raised", .str cls)]
  | .error .fuel => Json.mkObj [("fuel", .bool true)]

def fuelN : Nat := 400

def handle (j : Json) : Except String Json := do
  let T := Mxl.C06.Generated.tables
  let P ← jList jFnDef (← field j "prog")
  let fname ← jStr (← field j "fn")
  let d ← match Prog.find P fname with
    | some d => pure d
    | none => .error s!"function {fname} not in prog"
  let margs : Option (List SExpr) ← match fieldD j "margs" .null with
    | .null => pure none
    | m => do pure (some (← jList jSExpr m))
  let tr := fnToSympy T P fuelN d margs
  -- points: [{"env": [[sym, val]...], "args": [val...]}]
  let pts ← jArr (fieldD j "points" (.arr #[]))
  let mut vals : Array Json := #[]
  let mut pys : Array Json := #[]
  for p in pts do
    let env ← jAssoc jVal (← field p "env")
    let args ← jList jVal (← field p "args")
    pys := pys.push (optValJ (callFn P fuelN d args))
    match tr with
    | .ok e => vals := vals.push (optValJ (evalS (envOf env) e))
    | _ => vals := vals.push .null
  -- the entry points the theorems of Props/C06 are stated over (`trBody` = `trLoop` from the start, `trExpr`, `trArgs`),
  -- run directly: `body` is what `fnToSympy … none` returns for a signature without `*args` / keyword-only parameters;
  -- for a function that is a single `return e`, `expr` is the translation of `e` itself (= `body`), and for `e` a call
  -- `args` are its translated arguments.  The harness compares them with `tr` (and through it with the real code).
  let ctx0 : Syms := d.params.map (fun p => (p, SExpr.sym p))
  let bodyTr : TR SExpr := (trBody T P fuelN d.globals [] d.body ctx0).map (·.1)
  let loopTr : TR SExpr := (trLoop T P fuelN d.globals [] d.body [] d.body false ctx0).map (·.1)
  let single : Option PyExpr := match d.body with
    | [.ret e] => some e
    | [.skip, .ret e] => some e
    | _ => none
  let exprJ : Json := match single with
    | some e => trJ (trExpr T P fuelN d.globals [] ctx0 e)
    | none => .null
  let argsJ : Json := match single with
    | some (.call _ args) =>
      (match trArgs T P fuelN d.globals [] ctx0 args with
       | .ok l => Json.mkObj [("ok", .arr (l.map sexprJ).toArray)]
       | .error _ => Json.mkObj [("err", .bool true)])
    | _ => .null
  -- `_check_branch` / `_always_returns` on (branch, rest) pairs cut out of the function by the harness: the model's
  -- `branchOk`, the generated accepting conditions evaluated by `checkBranchG`, and `bodyReturns`; the `ast` classes the
  -- model's constructors stand for
  let cbReq ← jArr (fieldD j "cb" (.arr #[]))
  let cbOut ← cbReq.mapM fun r => do
    let b ← jList jPyStmt (← field r "b")
    let rest ← jList jPyStmt (← field r "rest")
    pure (Json.mkObj [("ok", .bool (branchOk rest b)),
                      ("gen", .bool (checkBranchG Mxl.C06.Generated.checkBranchAccept rest b)),
                      ("ret", .bool (bodyReturns b))])
  let classes : Json := .arr (d.body.map fun st => Json.str (stmtClass st)).toArray
  let retClass : Json := match single with
    | some e => .str (exprClass e)
    | none => .null
  pure (Json.mkObj [("tr", trJ tr), ("vals", .arr vals), ("py", .arr pys),
                    ("cb", .arr cbOut.toArray), ("classes", classes), ("ret_class", retClass),
                    ("entry", Json.mkObj [("body", trJ bodyTr), ("loop", trJ loopTr), ("expr", exprJ), ("args", argsJ),
                                          ("other_params", .bool d.otherParams)]),
                    ("flags", Json.mkObj [])])

end Driver.H_c06
