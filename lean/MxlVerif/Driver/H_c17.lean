/- op "c17": declarative meaning of a generated SBML document, and mxlpy's naming stage.

request  {"op":"c17","doc":<Doc>,"states":[[[species,"amount"],..],..],"watch":[names]}
answer   {"names": [[id, imported name]..],
          "init":  [[id, amount | value]..]          species and parameters
          "at":    [{"vals":[[n,v]..] (watched rule-defined quantities), "rhs":[[species, d amount/dt]..]}..]}
request  {"op":"c17","stems":[s..]}                       → {"norm":[normStem s ..]}
request  {"op":"c17","free":[name,[taken..]]}             → {"name": freeName taken name}
-/
import Driver.Wire
import Driver.H_c08
import MxlVerif.Model.C17Doc
open Lean Mxl Mxl.Wire Mxl.C08 Mxl.C17
namespace Driver.H_c17

def mtypeOfName (s : String) : Option MType :=
  [MType.plus, .minus, .times, .divide, .power, .fnPower, .fnQuotient, .fnRem, .fnRoot, .fnAbs, .fnCeiling,
   .fnFloor, .fnExp, .fnLn, .fnLog, .fnSin, .fnCos, .fnTan, .fnArcsin, .fnArccos, .fnArctan, .fnSinh, .fnCosh,
   .fnTanh, .fnArcsinh, .fnArccosh, .fnArctanh, .fnMax, .fnMin, .fnPiecewise, .fnFactorial, .logicalAnd,
   .logicalOr, .logicalNot, .logicalXor, .relEq, .relNeq, .relLt, .relLeq, .relGt, .relGeq, .function, .unknown].find?
    fun t => Driver.H_c08.mtypeName t == s

partial def jMath (j : Json) : Except String MathML := do
  match ← jArr j with
  | [.str "ci", n] => pure (.ci (← jStr n))
  | [.str "cn", q] => pure (.cn (← jRat q))
  | [.str "csym", .str "e"] => pure (.csym .e)
  | [.str "csym", .str "pi"] => pure (.csym .pi)
  | [.str "csym", .str "true"] => pure (.csym .true)
  | [.str "csym", .str "false"] => pure (.csym .false)
  | [.str "call", f, args] => do
      let as ← (← jArr args).mapM jMath
      pure (.apply .function (.ci (← jStr f) :: as))
  | [.str t, cs] =>
      match mtypeOfName t with
      | some mt => do pure (.apply mt (← (← jArr cs).mapM jMath))
      | none => .error s!"bad node type {t}"
  | _ => .error s!"bad math {j.compress}"

def jOptRat (j : Json) : Except String (Option Rat) :=
  match j with
  | .null => pure none
  | _ => do pure (some (← jRat j))

def jOptStr (j : Json) : Except String (Option String) :=
  match j with
  | .null => pure none
  | _ => do pure (some (← jStr j))

def optJ' (o : Option String) : Json :=
  match o with
  | some s => .str s
  | none => .null

def jSpecies (j : Json) : Except String Species := do
  pure { id := ← jStr (← field j "id"), comp := ← jStr (← field j "comp"), init := ← jOptRat (← field j "init"),
         isAmount := ← jBool (← field j "isAmount"), hosu := ← jBool (← field j "hosu") }

def jFunDef (j : Json) : Except String FunDef := do
  pure { id := ← jStr (← field j "id"), params := ← jList jStr (← field j "params"), body := ← jMath (← field j "body") }

def jSRef (j : Json) : Except String SRef := do
  match ← jArr j with
  | [sp, st, id] => pure { species := ← jStr sp, stoich := ← jOptRat st, id := ← jOptStr id }
  | _ => .error "bad species reference"

def jSRxn (j : Json) : Except String SRxn := do
  pure { id := ← jStr (← field j "id"), reactants := ← jList jSRef (← field j "reactants"),
         products := ← jList jSRef (← field j "products"), law := ← jMath (← field j "law") }

def jDoc (j : Json) : Except String Doc := do
  pure { comps := ← jAssoc jRat (← field j "comps"), species := ← jList jSpecies (← field j "species"),
         params := ← jAssoc jOptRat (← field j "params"), fundefs := ← jList jFunDef (← field j "fundefs"),
         inits := ← jAssoc jMath (← field j "inits"), rules := ← jAssoc jMath (← field j "rules"),
         rxns := ← jList jSRxn (← field j "rxns") }

open Driver.H_c08 in
def handleDoc (j : Json) : Except String Json := do
  let d ← jDoc (← field j "doc")
  let states ← jList (jAssoc jRat) (← field j "states")
  let watch ← jList jStr (← field j "watch")
  let ids := d.species.map (·.id) ++ d.params.map (·.1) ++ d.comps.map (·.1) ++ d.rxns.map (·.id)
  let names := ids.map fun n => (n, nameToPy n)
  let init := (d.species.map (·.id) ++ d.params.map (·.1)).map fun n => (n, docInit17 noInterp d n)
  let at_ := states.map fun st =>
    Json.mkObj [("vals", assocJ (optJ ratJ) (watch.map fun n => (n, docVal17 noInterp d st n))),
                ("rhs", assocJ (optJ ratJ) (d.species.map fun s => (s.id, docRhs17 noInterp d st s.id)))]
  pure (Json.mkObj [("names", assocJ Json.str names), ("init", assocJ (optJ ratJ) init), ("at", .arr at_.toArray)])

def handleFree (j : Json) : Except String Json := do
  match ← jArr j with
  | [name, taken] => do
      let tk ← jList jStr taken
      pure (Json.mkObj [("name", optJ' (freeName tk (← jStr name) (tk.length + 2)))])
  | _ => .error "bad free request"

def handle (j : Json) : Except String Json := do
  match j.getObjVal? "stems" with
  | .ok sj => do
      let stems ← jList jStr sj
      pure (Json.mkObj [("norm", strsJ (stems.map normStem))])
  | .error _ =>
  match j.getObjVal? "free" with
  | .ok rj => handleFree rj
  | .error _ => handleDoc j

end Driver.H_c17
