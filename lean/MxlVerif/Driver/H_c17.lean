/- op "c17": declarative meaning of a generated SBML document, and mxlpy's naming stage.

request  {"op":"c17","doc":<Doc>,"states":[[[species,"amount"],..],..],"watch":[names]}
answer   {"names": [[id, imported name]..],
          "init":  [[id, amount | value]..]          species and parameters
          "at":    [{"vals":[[n,v]..] (watched rule-defined quantities), "rhs":[[species, d amount/dt]..]}..]}
request  {"op":"c17","session":[[stem,digest,code]..]}  → {"handles":[module name..], "names":[..], "intact":[[source ok, loaded ok]..]}   readAll
request  {"op":"c17","stems":[s..]}                       → {"norm":[normStem s ..]}
request  {"op":"c17","free":[name,[taken..]]}             → {"name": freeName taken name}
request  {"op":"c17","symrepr":<SymRepr>}                 → {"ok": <Module>} | {"err": "ValueError"}      genModule
request  {"op":"c17","pmodel":<PModel>}                   → likewise for genModule (importSym pm), plus "sym": the SymRepr's
                                                            values (which variables / parameters carry an initial assignment)
  SymFn = [fnName, expr, [args]];  value = ["num", v] | ["fn", fnName, expr, [args]];  quantity = [key, value, unit]
  derived = [key, SymFn];  reaction = [key, SymFn, [[var, coef]..]],  coef = ["num", v] | ["name", s] | ["fn", fnName, expr, [args]]
  PModel: variables / parameters [[key, value, unit]..], derived / inits [[key, expr, [free]]..],
          reactions [[key, expr, [free], [[var, ["float", v] | ["symbol", s] | ["other", expr, [free]]]..]]..]
  Module: {"functions": [[name, expr, [args]]..], "calls": [["add_variable" | "add_parameter", key, ["num", v, kw, unit] | ["ia", fn, [args]]]
          | ["add_derived", key, fn, [args]] | ["add_reaction", key, fn, [args], [[var, ["num", v] | ["name", s] | ["fn", fn, [args]]]..]]]}
-/
import Driver.Wire
import Driver.H_c08
import MxlVerif.Model.C17Doc
import MxlVerif.Model.C17Codegen
import MxlVerif.Model.C17Session
open Lean Mxl Mxl.Wire Mxl.C08 Mxl.C17
namespace Driver.H_c17

def mtypeOfName (s : String) : Option MType :=
  [MType.plus, .minus, .times, .divide, .power, .fnPower, .fnQuotient, .fnRem, .fnRoot, .fnAbs, .fnCeiling,
   .fnFloor, .fnExp, .fnLn, .fnLog, .fnSin, .fnCos, .fnTan, .fnArcsin, .fnArccos, .fnArctan, .fnSinh, .fnCosh,
   .fnTanh, .fnArcsinh, .fnArccosh, .fnArctanh, .fnMax, .fnMin, .fnPiecewise, .fnFactorial, .logicalAnd,
   .logicalOr, .logicalNot, .logicalXor, .relEq, .relNeq, .relLt, .relLeq, .relGt, .relGeq, .function, .unknown].find?
    fun t => Driver.H_c08.mtypeName t == s

partial def jMath (j : Json) : Except String MathML := do
  match ← jArr j with
  | [.str "ci", n] => pure (.ci (← jStr n))
  | [.str "cn", q] => pure (.cn (← jRat q))
  | [.str "csym", .str "e"] => pure (.csym .e)
  | [.str "csym", .str "pi"] => pure (.csym .pi)
  | [.str "csym", .str "true"] => pure (.csym .true)
  | [.str "csym", .str "false"] => pure (.csym .false)
  | [.str "call", f, args] => do
      let as ← (← jArr args).mapM jMath
      pure (.apply .function (.ci (← jStr f) :: as))
  | [.str t, cs] =>
      match mtypeOfName t with
      | some mt => do pure (.apply mt (← (← jArr cs).mapM jMath))
      | none => .error s!"bad node type {t}"
  | _ => .error s!"bad math {j.compress}"

def jOptRat (j : Json) : Except String (Option Rat) :=
  match j with
  | .null => pure none
  | _ => do pure (some (← jRat j))

def jOptStr (j : Json) : Except String (Option String) :=
  match j with
  | .null => pure none
  | _ => do pure (some (← jStr j))

def optJ' (o : Option String) : Json :=
  match o with
  | some s => .str s
  | none => .null

def jSpecies (j : Json) : Except String Species := do
  pure { id := ← jStr (← field j "id"), comp := ← jStr (← field j "comp"), init := ← jOptRat (← field j "init"),
         isAmount := ← jBool (← field j "isAmount"), hosu := ← jBool (← field j "hosu"),
         fixed := match j.getObjVal? "fixed" with | .ok (.bool b) => b | _ => false }

def jFunDef (j : Json) : Except String FunDef := do
  pure { id := ← jStr (← field j "id"), params := ← jList jStr (← field j "params"), body := ← jMath (← field j "body") }

def jSRef (j : Json) : Except String SRef := do
  match ← jArr j with
  | [sp, st, id] => pure { species := ← jStr sp, stoich := ← jOptRat st, id := ← jOptStr id }
  | _ => .error "bad species reference"

def jSRxn (j : Json) : Except String SRxn := do
  pure { id := ← jStr (← field j "id"), reactants := ← jList jSRef (← field j "reactants"),
         products := ← jList jSRef (← field j "products"), law := ← jMath (← field j "law") }

def jDoc (j : Json) : Except String Doc := do
  pure { comps := ← jAssoc jRat (← field j "comps"), species := ← jList jSpecies (← field j "species"),
         params := ← jAssoc jOptRat (← field j "params"), fundefs := ← jList jFunDef (← field j "fundefs"),
         inits := ← jAssoc jMath (← field j "inits"), rules := ← jAssoc jMath (← field j "rules"),
         rxns := ← jList jSRxn (← field j "rxns") }

open Driver.H_c08 in
def handleDoc (j : Json) : Except String Json := do
  let d ← jDoc (← field j "doc")
  let states ← jList (jAssoc jRat) (← field j "states")
  let watch ← jList jStr (← field j "watch")
  let ids := d.species.map (·.id) ++ d.params.map (·.1) ++ d.comps.map (·.1) ++ d.rxns.map (·.id)
  let names := ids.map fun n => (n, nameToPy n)
  let init := (d.species.map (·.id) ++ d.params.map (·.1)).map fun n => (n, docInit17 noInterp d n)
  let at_ := states.map fun st =>
    Json.mkObj [("vals", assocJ (optJ ratJ) (watch.map fun n => (n, docVal17 noInterp d st n))),
                ("rhs", assocJ (optJ ratJ) (d.species.map fun s => (s.id, docRhs17 noInterp d st s.id)))]
  pure (Json.mkObj [("names", assocJ Json.str names), ("init", assocJ (optJ ratJ) init), ("at", .arr at_.toArray)])

def handleFree (j : Json) : Except String Json := do
  match ← jArr j with
  | [name, taken] => do
      let tk ← jList jStr taken
      pure (Json.mkObj [("name", optJ' (freeName tk (← jStr name) (tk.length + 2)))])
  | _ => .error "bad free request"

/-! ### naming / glue stage -/

def jSymFn3 (a b c : Json) : Except String SymFn := do
  pure { fnName := ← jStr a, expr := ← jNat b, args := ← jList jStr c }

def jSymFn (j : Json) : Except String SymFn := do
  match ← jArr j with
  | [a, b, c] => jSymFn3 a b c
  | _ => .error "bad SymFn"

def jSymVal (j : Json) : Except String SymVal := do
  match ← jArr j with
  | [.str "num", v] => pure (.num (← jNat v))
  | [.str "fn", a, b, c] => do pure (.fn (← jSymFn3 a b c))
  | _ => .error "bad value"

def jSymQty (j : Json) : Except String (String × SymQty) := do
  match ← jArr j with
  | [k, v, u] => pure (← jStr k, { value := ← jSymVal v, unit := ← jBool u })
  | _ => .error "bad quantity"

def jSymCoef (j : Json) : Except String SymCoef := do
  match ← jArr j with
  | [.str "num", v] => pure (.num (← jNat v))
  | [.str "name", s] => pure (.name (← jStr s))
  | [.str "fn", a, b, c] => do pure (.fn (← jSymFn3 a b c))
  | _ => .error "bad coefficient"

def jSymRepr (j : Json) : Except String SymRepr := do
  pure { variables := ← jList jSymQty (← field j "variables")
         parameters := ← jList jSymQty (← field j "parameters")
         derived := ← jList (jPair jStr jSymFn) (← field j "derived")
         reactions := ← jList (fun r => do
            match ← jArr r with
            | [k, f, sto] => pure (← jStr k, ({ fn := ← jSymFn f, stoich := ← jList (jPair jStr jSymCoef) sto } : SymRxn))
            | _ => .error "bad reaction") (← field j "reactions") }

def jPExpr2 (e f : Json) : Except String PExpr := do pure { expr := ← jNat e, free := ← jList jStr f }

def jPCoef (j : Json) : Except String PCoef := do
  match ← jArr j with
  | [.str "float", v] => pure (.float (← jNat v))
  | [.str "symbol", s] => pure (.symbol (← jStr s))
  | [.str "other", e, f] => do pure (.other (← jPExpr2 e f))
  | _ => .error "bad pysbml coefficient"

def jPQty (j : Json) : Except String (String × ExprId × Bool) := do
  match ← jArr j with
  | [k, v, u] => pure (← jStr k, ← jNat v, ← jBool u)
  | _ => .error "bad pysbml quantity"

def jPKeyed (j : Json) : Except String (String × PExpr) := do
  match ← jArr j with
  | [k, e, f] => pure (← jStr k, ← jPExpr2 e f)
  | _ => .error "bad pysbml expression"

def jPModel (j : Json) : Except String PModel := do
  pure { variables := ← jList jPQty (← field j "variables")
         parameters := ← jList jPQty (← field j "parameters")
         derived := ← jList jPKeyed (← field j "derived")
         reactions := ← jList (fun r => do
            match ← jArr r with
            | [k, e, f, sto] => pure (← jStr k, ({ expr := ← jPExpr2 e f, stoich := ← jList (jPair jStr jPCoef) sto } : PRxn))
            | _ => .error "bad pysbml reaction") (← field j "reactions")
         inits := ← jList jPKeyed (← field j "inits") }

def natJ (n : Nat) : Json := .num (.fromNat n)

def evalJ : EVal → Json
  | .num v kw u => .arr #[.str "num", natJ v, .str kw, .bool u]
  | .ia fn args => .arr #[.str "ia", .str fn, strsJ args]

def ecoefJ : ECoef → Json
  | .num v => .arr #[.str "num", natJ v]
  | .name s => .arr #[.str "name", .str s]
  | .fn fn args => .arr #[.str "fn", .str fn, strsJ args]

def callJ : Call → Json
  | .addVariable k v => .arr #[.str "add_variable", .str k, evalJ v]
  | .addParameter k v => .arr #[.str "add_parameter", .str k, evalJ v]
  | .addDerived k fn args => .arr #[.str "add_derived", .str k, .str fn, strsJ args]
  | .addReaction k fn args sto =>
    .arr #[.str "add_reaction", .str k, .str fn, strsJ args, .arr (sto.map fun sv => Json.arr #[.str sv.1, ecoefJ sv.2]).toArray]

def moduleJ : Except String Mxl.C17.Module → Json
  | .error e => Json.mkObj [("err", .str e)]
  | .ok m => Json.mkObj [("ok", Json.mkObj [
      ("functions", .arr (m.functions.map fun kv => Json.arr #[.str kv.1, natJ kv.2.1, strsJ kv.2.2]).toArray),
      ("calls", .arr (m.calls.map callJ).toArray)])]

def symValJ : SymVal → Json
  | .num v => .arr #[.str "num", natJ v]
  | .fn f => .arr #[.str "fn", .str f.fnName, natJ f.expr, strsJ f.args]

/-- {"called": [[exprId, [names]]..]}: the names each printed body calls (absent: none) -/
def calledOf (j : Json) : Except String (ExprId → List String) := do
  match j.getObjVal? "called" with
  | .ok cj => do
      let tbl ← (← jArr cj).mapM fun e => do
        match ← jArr e with
        | [i, ns] => pure ((← jNat i), (← jList jStr ns))
        | _ => .error "bad called entry"
      pure fun e => (tbl.lookup e).getD []
  | .error _ => pure fun _ => []

def handleSym (j : Json) : Except String Json := do
  pure (moduleJ (genModule (← jSymRepr j)))

def handlePModel (j : Json) : Except String Json := do
  let s := importSym (← jPModel j)
  let qs := fun (l : List (String × SymQty)) => Json.arr (l.map fun kv => Json.arr #[.str kv.1, symValJ kv.2.value]).toArray
  let called ← calledOf j
  match moduleJ ((genModule s).map (·.renameParams called)) with
  | .obj kvs => pure (Json.obj (kvs.insert "sym" (Json.mkObj [("variables", qs s.variables), ("parameters", qs s.parameters)])))
  | other => pure other

/-- {"session": [[stem, digest, code]..]} → handles, and for every document whether the source / the loaded text
    under its handle is still its own after all reads -/
def handleSession (j : Json) : Except String Json := do
  let ds ← (← jArr j).mapM fun dj => do
    match ← jArr dj with
    | [a, b, c] => pure (⟨← jStr a, ← jStr b, ← jStr c⟩ : ReadIn)
    | _ => .error "bad session document"
  let (s, hs) := readAll Session.empty ds
  let ok := (ds.zip hs).map fun (d, h) => Json.arr #[.bool (sourceOf s h == some d.code), .bool (loadedOf s h == some d.code)]
  pure (Json.mkObj [("handles", strsJ hs), ("names", strsJ (ds.map outName)), ("intact", .arr ok.toArray),
                    ("module_names", strsJ (ds.map fun d => moduleName d.stem d.digest))])

def handle (j : Json) : Except String Json := do
  match j.getObjVal? "session" with
  | .ok sj => handleSession sj
  | .error _ =>
  match j.getObjVal? "symrepr" with
  | .ok sj => handleSym sj
  | .error _ =>
  match j.getObjVal? "pmodel" with
  | .ok pj => handlePModel pj
  | .error _ =>
  match j.getObjVal? "stems" with
  | .ok sj => do
      let stems ← jList jStr sj
      pure (Json.mkObj [("norm", strsJ (stems.map normStem))])
  | .error _ =>
  match j.getObjVal? "free" with
  | .ok rj => handleFree rj
  | .error _ => handleDoc j

end Driver.H_c17
