/- op "c03": run an op history through `Mxl.C03.step` / `Mxl.C03.query`; after every op (from index
   `from` on) report outcome class, ids, container key lists and the query answer. -/
import Driver.CoreWire
import MxlVerif.Model.C03
open Lean Mxl Mxl.Wire Mxl.C03
namespace Driver.H_c03

def jOpt {α} (f : Json → Except String α) (j : Json) : Except String (Option α) :=
  match j with
  | .null => pure none
  | _ => do pure (some (← f j))

def jEvalFn (j : Json) : Except String (List Rat → Rat) := do
  let e ← match j.getObjVal? "e" with
    | .ok ej => jFExpr ej
    | .error _ => jFExpr j
  pure (fun xs => e.eval xs)

def jStoich (j : Json) : Except String (List (String × Coef)) := jAssoc jCoef j

def jMut (j : Json) : Except String Op := do
  match ← jArr j with
  | [.str "add_parameter", n, v] => pure (.add_parameter (← jStr n) (← jVal v))
  | [.str "remove_parameter", n] => pure (.remove_parameter (← jStr n))
  | [.str "update_parameter", n, v] => pure (.update_parameter (← jStr n) (← jOpt jVal v))
  | [.str "scale_parameter", n, f] => pure (.scale_parameter (← jStr n) (← jRat f))
  | [.str "make_parameter_dynamic", n, iv, st] =>
      pure (.make_parameter_dynamic (← jStr n) (← jOpt jRat iv) (← jOpt (jAssoc jRat) st))
  | [.str "add_parameters", l] => pure (.add_parameters (← jAssoc jVal l))
  | [.str "remove_parameters", l] => pure (.remove_parameters (← jList jStr l))
  | [.str "update_parameters", l] => pure (.update_parameters (← jAssoc jVal l))
  | [.str "scale_parameters", l] => pure (.scale_parameters (← jAssoc jRat l))
  | [.str "add_variable", n, v] => pure (.add_variable (← jStr n) (← jVal v))
  | [.str "remove_variable", n, b] => pure (.remove_variable (← jStr n) (← jBool b))
  | [.str "update_variable", n, v] => pure (.update_variable (← jStr n) (← jVal v))
  | [.str "make_variable_static", n, v] => pure (.make_variable_static (← jStr n) (← jOpt jRat v))
  | [.str "add_variables", l] => pure (.add_variables (← jAssoc jVal l))
  | [.str "remove_variables", l, b] => pure (.remove_variables (← jList jStr l) (← jBool b))
  | [.str "update_variables", l] => pure (.update_variables (← jAssoc jVal l))
  | [.str "add_derived", n, f] => pure (.add_derived (← jStr n) (← jFn f))
  | [.str "update_derived", n, e, a] =>
      pure (.update_derived (← jStr n) (← jOpt jEvalFn e) (← jOpt (jList jStr) a))
  | [.str "remove_derived", n] => pure (.remove_derived (← jStr n))
  | [.str "add_reaction", n, r] => pure (.add_reaction (← jStr n) (← jRxn r))
  | [.str "update_reaction", n, e, a, st] =>
      pure (.update_reaction (← jStr n) (← jOpt jEvalFn e) (← jOpt (jList jStr) a) (← jOpt jStoich st))
  | [.str "remove_reaction", n] => pure (.remove_reaction (← jStr n))
  | [.str "add_readout", n, f] => pure (.add_readout (← jStr n) (← jFn f))
  | [.str "remove_readout", n] => pure (.remove_readout (← jStr n))
  | [.str "add_surrogate", n, su] => pure (.add_surrogate (← jStr n) (← jSur su))
  | [.str "add_surrogate", n, su, a, o, st] =>
      pure (.add_surrogate_kw (← jStr n) (← jSur su)
        { args := ← jOpt (jList jStr) a, outs := ← jOpt (jList jStr) o, stoich := ← jOpt (jAssoc jStoich) st })
  | [.str "update_surrogate", n, su, a, o, st] =>
      pure (.update_surrogate (← jStr n)
        { sur := ← jOpt jSur su, args := ← jOpt (jList jStr) a, outs := ← jOpt (jList jStr) o,
          stoich := ← jOpt (jAssoc jStoich) st })
  | [.str "remove_surrogate", n] => pure (.remove_surrogate (← jStr n))
  | [.str "add_data", n, v] => pure (.add_data (← jStr n) (← jRat v))
  | [.str "update_data", n, v] => pure (.update_data (← jStr n) (← jRat v))
  | [.str "remove_data", n] => pure (.remove_data (← jStr n))
  | _ => .error s!"bad op {j.compress}"

def jFlags (j : Json) : Except String Flags := do
  match ← jList jBool j with
  | [a, b, c, d, e, f, g, h, i] =>
    pure { time := a, vars := b, pars := c, dpars := d, dvars := e, rxns := f, survars := g, surfluxes := h,
           readouts := i }
  | _ => .error s!"bad flags {j.compress}"

def jNameQ (j : Json) : Except String NameQ := do
  match ← jStr j with
  | "vars" => pure .vars
  | "pars" => pure .pars
  | "rxns" => pure .rxns
  | "readouts" => pure .readouts
  | "surouts" => pure (.surOuts true)
  | "survars" => pure (.surOuts false)
  | "surrxns" => pure .surRxns
  | "unused" => pure .unusedPars
  | "rawvars" => pure .rawVars
  | "rawpars" => pure .rawPars
  | "rawderived" => pure .rawDerived
  | "rawrxns" => pure .rawRxns
  | "rawreadouts" => pure .rawReadouts
  | "rawsurs" => pure .rawSurs
  | x => .error s!"bad names query {x}"

def jRows (j : Json) : Except String (List (Rat × List Rat)) := jList (jPair jRat (jList jRat)) j

def jQuery (j : Json) : Except String Query := do
  match ← jArr j with
  | [.str "q", .str "names", w] => pure (.names (← jNameQ w))
  | [.str "q", .str "argnames", fl] => pure (.argNames (← jFlags fl))
  | [.str "q", .str "argsf", v, t, fl] => pure (.args (← jOpt (jList jRat) v) (← jRat t) (← jFlags fl))
  | [.str "q", .str "rawstoich", x] => pure (.rawStoich (← jStr x))
  | [.str "q", .str "argstc", rows, fl] => pure (.argsTC (← jRows rows) (← jFlags fl))
  | [.str "q", .str "fluxestc", rows] => pure (.fluxesTC (← jRows rows))
  | [.str "q", .str "rhstc", rows] => pure (.rhsTC (← jRows rows))
  | [.str "q", .str "eq"] => pure .eqFresh
  | [.str "q", .str "init"] => pure .init
  | [.str "q", .str "pvals"] => pure .pvals
  | [.str "q", .str "classes"] => pure .classes
  | [.str "q", .str "args", v, t] => pure (.args (← jOpt (jList jRat) v) (← jRat t) {})
  | [.str "q", .str "argsro", v, t] => pure (.args (← jOpt (jList jRat) v) (← jRat t) { readouts := true })
  | [.str "q", .str "rhs", v, t] => pure (.rhs (← jOpt (jList jRat) v) (← jRat t))
  | [.str "q", .str "fluxes", v, t] => pure (.fluxes (← jOpt (jList jRat) v) (← jRat t))
  | [.str "q", .str "call", t, v] => pure (.call (← jRat t) (← jList jRat v))
  | [.str "q", .str "stoich", v, t] => pure (.stoich (← jOpt (jList jRat) v) (← jRat t))
  | [.str "q", .str "stoichvar", x, v, t] =>
      pure (.stoichvar (← jStr x) (← jOpt (jList jRat) v) (← jRat t))
  | _ => .error s!"bad query {j.compress}"

/-! signatures of the function objects an op passes (wire: optional `"sig": [nargs, ndefaults|null, nkwonly, varargs]`
    next to `"e"`; without it the harness compiles a function with max(number of args, highest index + 1)
    positional parameters) -/

def maxArgP1 : FExpr → Nat
  | .arg i => i + 1
  | .const _ => 0
  | .add a b | .sub a b | .mul a b => max (maxArgP1 a) (maxArgP1 b)
  | .neg a => maxArgP1 a

def jSig (j : Json) : Except String Gen.Sig := do
  match ← jArr j with
  | [n, d, k, v] => pure { nargs := ← jNat n, defaults := ← jOpt jNat d, kwonly := ← jNat k, varargs := ← jBool v }
  | _ => .error s!"bad sig {j.compress}"

/-- signature of FN = {"args", "e", ["sig"]} -/
def fnSig (j : Json) : Except String Gen.Sig := do
  match j.getObjVal? "sig" with
  | .ok sj => jSig sj
  | .error _ =>
    let args ← jList jStr (← field j "args")
    let e ← jFExpr (← field j "e")
    pure { nargs := max args.length (maxArgP1 e) }

/-- signature of the function argument of update_derived / update_reaction (bare FExpr or {"e", "sig"}) -/
def bareSig (j : Json) (newArgs : Json) : Except String Gen.Sig := do
  let n ← match newArgs with
    | .null => pure 0
    | a => do pure (← jList jStr a).length
  match j.getObjVal? "sig" with
  | .ok sj => jSig sj
  | .error _ =>
    let e ← match j.getObjVal? "e" with
      | .ok ej => jFExpr ej
      | .error _ => jFExpr j
    pure { nargs := max n (maxArgP1 e) }

def valSig (n : Json) (v : Json) : Except String (List (String × Gen.Sig)) := do
  match v.getObjVal? "ia" with
  | .ok f => pure [(← jStr n, ← fnSig f)]
  | .error _ => pure []

def valsSig (l : Json) : Except String (List (String × Gen.Sig)) := do
  let ps ← jList (fun p => do
    match ← jArr p with
    | [n, v] => valSig n v
    | _ => .error "bad pair") l
  pure ps.flatten

def givenOf (j : Json) : Except String (List (String × Gen.Sig)) := do
  match ← jArr j with
  | [.str "add_parameter", n, v] | [.str "add_variable", n, v] | [.str "update_variable", n, v] => valSig n v
  | [.str "update_parameter", n, v] => match v with
    | .null => pure []
    | v => valSig n v
  | [.str "add_parameters", l] | [.str "update_parameters", l] | [.str "add_variables", l]
  | [.str "update_variables", l] => valsSig l
  | [.str "add_derived", n, f] | [.str "add_readout", n, f] | [.str "add_reaction", n, f] =>
    pure [(← jStr n, ← fnSig f)]
  | [.str "update_derived", n, e, a] | [.str "update_reaction", n, e, a, _] => match e with
    | .null => pure []
    | e => do pure [(← jStr n, ← bareSig e a)]
  | _ => pure []

/-- a trailing "meta" mark asks the harness to pass `unit=` / `source=` as well; the model has no units -/
def dropMeta (j : Json) : Json :=
  match j with
  | .arr a => if a.back? == some (.str "meta") then .arr a.pop else j
  | _ => j

def jHOp (j : Json) : Except String HOp := do
  let j := dropMeta j
  match ← jArr j with
  | .str "q" :: _ => pure (.ask (← jQuery j))
  | .str "fork" :: _ => pure .fork  -- ["fork"] = copy.deepcopy, ["fork", "pickle"] = pickle round trip
  | _ => pure (.edit (← jMut j) (← givenOf j))

def errClass : Err → Json
  | .keyError _ => .str "KeyError"
  | .missing _ => .str "MissingDependenciesError"
  | .circular _ => .str "CircularDependencyError"
  | .nameError _ => .str "NameError"
  | .valueError _ => .str "ValueError"
  | .other s => .str s

def insertPair (x : String × Rat) : List (String × Rat) → List (String × Rat)
  | [] => [x]
  | y :: ys => if x.1 < y.1 || (x.1 == y.1 && x.2 ≤ y.2) then x :: y :: ys else y :: insertPair x ys

/-- sort by name, keeping duplicates (`.loc[names]` repeats a label that is listed twice) -/
def sortNames (l : List (String × Rat)) : List (String × Rat) := l.foldr insertPair []

def ansJ (q : Query) : Except Err Ans → Json
  | .error e => Json.mkObj [("err", errJ e)]
  | .ok (.assoc l) =>
    let l := match q with
      | .pvals => sortNames l
      | .args _ _ fl => if fl == {} || fl == { readouts := true } then sortNames l else l
      | _ => l
    Json.mkObj [("ok", assocJ ratJ l)]
  | .ok (.rats l) => Json.mkObj [("ok", ratsJ l)]
  | .ok (.classes p v) => Json.mkObj [("ok", Json.arr #[strsJ p, strsJ v])]
  | .ok (.table l) => Json.mkObj [("ok", assocJ (assocJ ratJ) l)]
  | .ok (.names l) => Json.mkObj [("ok", strsJ l)]
  | .ok (.coefs l) => Json.mkObj [("ok", assocJ (fun (c : Coef) => match c with
      | .num v => Json.mkObj [("c", ratJ v)]
      | .dyn f => Json.mkObj [("args", strsJ f.args)]) l)]
  | .ok (.rows l) => Json.mkObj [("ok", .arr (l.map (assocJ ratJ)).toArray)]
  | .ok (.bool b) => Json.mkObj [("ok", .bool b)]

def keysJ (c : Content) : Json :=
  .arr #[strsJ (omKeys c.vars), strsJ (omKeys c.pars), strsJ (omKeys c.derived), strsJ (omKeys c.readouts),
         strsJ (omKeys c.rxns), strsJ (omKeys c.surs), strsJ (omKeys c.data)]

def idsJ (s : State) : Json := .arr (s.ids.map fun kv => Json.arr #[.str kv.1, .str kv.2]).toArray

def obs (s : State) (out : Json) (ans : Json) : Json :=
  Json.mkObj [("out", out), ("ids", idsJ s), ("keys", keysJ s.content), ("ans", ans)]

/-- one op of the history: the next state is `stepH`'s (the function `run` folds and the theorems are about); the
    observation is read off the same `stepS` / `query` call.  For a query the answer of a freshly built model with
    the same content (`freshAnswer`, the right-hand side of `C03_fresh_equiv`) is reported as well. -/
def runAll (start : Nat) : Nat → State → List HOp → List Json → List Json
  | _, _, [], acc => acc.reverse
  | i, s, h :: rest, acc =>
    let s' := stepH s h
    let o : Json :=
      if i < start then .null else
      match h with
      | .edit op given =>
        obs s' (match (stepS s op given).2 with | .ok () => .str "ok" | .error e => errClass e) .null
      | .ask q =>
        ((obs s' (.str "ok") (ansJ q (query s q).2)).setObjVal! "fresh" (ansJ q (freshAnswer s.sigs s.content q))
          ).setObjVal! "entry" (.str q.entry)
      | .fork => obs s' (.str "ok") .null
    -- after the last op: the model built from scratch by `rebuild` (the left-hand side of `C03_refines_fresh`)
    let o := if rest.isEmpty && !(i < start) then
        let f := freshState s'
        o.setObjVal! "rebuilt" (Json.mkObj [("ids", idsJ f), ("keys", keysJ f.content),
          -- the declared names of `C03_one_name_space` / `Exact`: seven key lists and every surrogate's outputs
          ("names", strsJ (contentNames f.content))])
      else o
    runAll start (i + 1) s' rest (if i < start then acc else o :: acc)

/-- the lists the surface theorems are about (`C03_table_mutators`, `C03_table_surface`) -/
def listsJ : Json :=
  Json.mkObj [("mutators", strsJ (Gen.Mut.all.map fun m => (reprStr m).replace "Mxl.C03.Gen.Mut." "")),
              ("modelled", strsJ modelledEntries), ("out", strsJ (outOfScope.map (·.1)))]

def handle (j : Json) : Except String Json := do
  if (j.getObjVal? "lists").isOk then return listsJ
  let ops ← jList jHOp (← field j "ops")
  let start ← match j.getObjVal? "from" with
    | .ok v => jNat v
    | .error _ => pure 0
  -- the build prefix is not observed: `run` itself carries the state through it
  let s0 := run C03.init (ops.take start)
  pure (.arr (runAll start start s0 (ops.drop start) []).toArray)

end Driver.H_c03
