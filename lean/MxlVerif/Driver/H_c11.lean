/- op "c11": model -> generated MxlPy program -> model with the C11 Lean model; reports the program's
   shape (definitions keyed as the code keys them, builder calls) and answers core queries on the rebuilt
   content. -/
import Driver.CoreWire
import Driver.H_core
import MxlVerif.Model.C11
import MxlVerif.Model.C07Expr
open Lean Mxl Mxl.Wire Mxl.C11
namespace Driver.H_c11

def jPyFn (j : Json) : Except String PyFn := do
  let name ← jStr (← field j "name")
  let e ← jFExpr (← field j "e")
  pure { name, fn := fun xs => e.eval xs }

def jUse (j : Json) : Except String Use := do
  pure { fid := ← jNat (← field j "fid"), args := ← jList jStr (← field j "args") }

def jNVal (j : Json) : Except String NVal :=
  match j.getObjVal? "v" with
  | .ok v => do pure (.plain (← jRat v))
  | .error _ => do pure (.ia (← jUse (← field j "ia")))

def jNCoef (j : Json) : Except String NCoef :=
  match j.getObjVal? "c" with
  | .ok v => do pure (.num (← jRat v))
  | .error _ => do pure (.dyn (← jUse j))

def jNRxn (j : Json) : Except String NRxn := do
  pure { rate := ← jUse j, stoich := ← jAssoc jNCoef (← field j "st") }

def jNContent (fns : List PyFn) (j : Json) : Except String NContent := do
  pure { fns,
         vars := ← jAssoc jNVal (fieldD j "vars" (.arr #[])),
         pars := ← jAssoc jNVal (fieldD j "pars" (.arr #[])),
         derived := ← jAssoc jUse (fieldD j "derived" (.arr #[])),
         rxns := ← jAssoc jNRxn (fieldD j "rxns" (.arr #[])) }

def refJ (r : Ref) : Json := Json.mkObj [("key", .str r.key), ("args", strsJ r.args)]

def bvalJ : BVal → Json
  | .num v => Json.mkObj [("v", ratJ v)]
  | .ref r => refJ r

def callJ : Call → Json
  | .addVariable k v => .arr #["add_variable", .str k, bvalJ v]
  | .addParameter k v => .arr #["add_parameter", .str k, bvalJ v]
  | .addDerived k r => .arr #["add_derived", .str k, refJ r]
  | .addReaction k r st => .arr #["add_reaction", .str k, refJ r, assocJ bvalJ st]

def programJ (p : Program) : Json :=
  Json.mkObj [("defs", .arr (p.defs.map fun kd => Json.arr #[.str kd.1, strsJ kd.2.params]).toArray),
              ("build", .arr (p.build.map callJ).toArray)]

def optStrsJ : Option (List String) → Json
  | none => Json.null
  | some l => strsJ l

def headJ (h : String × String × Option (List String) × List (String × Option (List String))) : Json :=
  .arr #[.str h.1, .str h.2.1, optStrsJ h.2.2.1, .arr (h.2.2.2.map fun vc => Json.arr #[.str vc.1, optStrsJ vc.2]).toArray]

/-- what the model's components declare, and what the builder calls of the generated program declare
    (`C11_build_structure`: equal for every model) -/
def headsJ (bad : List String) (c : NContent) : Json :=
  Json.mkObj [("model", .arr ((heads c).map headJ).toArray),
              ("program", match toSymbolicRepr bad c with
                | .ok s => .arr (((genProgram s).build.map Call.head).map headJ).toArray
                | .error _ => Json.null)]

def sampleArgs (n : Nat) : List (List Rat) :=
  [(List.range n).map (fun i => ((i + 2 : Nat) : Rat)),
   (List.range n).map (fun i => 1 / ((i + 2 : Nat) : Rat) + (if i % 2 == 0 then 1 else 3)),
   (List.range n).map (fun i => ((2 * i + 1 : Nat) : Rat) / 2)]

/-- the `return` expressions of the emitted definitions, read by the expression reader of `Mxl.C07Expr` (Python
    spelling) at sample arguments, against the Lean program's definition under the same key (`Def.call`) -/
def defChecks (p : Program) (texts : List (String × List String × String)) : List Json :=
  texts.map fun ktx =>
    match p.defs.lookup ktx.1 with
    | none => Json.str "no-such-def"
    | some d =>
      match Mxl.C07Expr.lexText false true ktx.2.2 with
      | none => Json.str "outside-fragment"
      | some ts =>
        if ktx.2.1 != d.params then Json.str "other-parameters"
        else Json.bool ((sampleArgs d.params.length).all fun vs =>
          Mxl.C07Expr.evalToks (fun x => (d.params.zip vs).lookup x) ts == some (d.call vs))

def jDefText (j : Json) : Except String (String × List String × String) := do
  match (← jArr j) with
  | [k, ps, t] => pure ((← jStr k), (← jList jStr ps), (← jStr t))
  | _ => throw "defText"

def handle (j : Json) : Except String Json := do
  let fns ← jList jPyFn (← field j "fns")
  let c ← jNContent fns (← field j "content")
  let bad ← jList jStr (fieldD j "bad" (.arr #[]))
  let qs ← jArr (fieldD j "queries" (.arr #[]))
  let prog := resJ programJ ((toSymbolicRepr bad c).bind genMxlpy)
  let texts ← jList jDefText (fieldD j "defTexts" (.arr #[]))
  let checks : Json := match (toSymbolicRepr bad c).bind genMxlpy with
    | .ok p => .arr (defChecks p texts).toArray
    | .error _ => .arr #[]
  let orig ← qs.mapM (Driver.H_core.query c.toContent)
  match roundTrip bad c with
  | .error e => pure (Json.mkObj [("defChecks", checks), ("heads", headsJ bad c), ("program", prog), ("hyp", .bool (refsResolve c)), ("hypInput", .bool (keysInjective c && argsNoDup c)), ("hypSrc", .bool (refsSrcOk c)), ("hypKeys", .bool (keysInjective c)), ("rt", Json.mkObj [("err", errJ e)]), ("orig", .arr orig.toArray)])
  | .ok c' => do
    let rs ← qs.mapM (Driver.H_core.query c')
    pure (Json.mkObj [("defChecks", checks), ("heads", headsJ bad c), ("program", prog), ("hyp", .bool (refsResolve c)), ("hypInput", .bool (keysInjective c && argsNoDup c)), ("hypSrc", .bool (refsSrcOk c)), ("hypKeys", .bool (keysInjective c)), ("rt", Json.mkObj [("ok", .arr rs.toArray)]), ("orig", .arr orig.toArray)])

end Driver.H_c11
