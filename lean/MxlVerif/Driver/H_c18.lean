/- op "c18": elasticities / response coefficients with the impl-faithful model; reports the
   coefficient table and what the caller's model looks like afterwards -/
import Driver.H_c09
import MxlVerif.Model.C18
open Lean Mxl Mxl.Wire Mxl.C09 Mxl.C18
namespace Driver.H_c18

def optJ {α} (f : Json → Except String α) (j : Json) : Except String (Option α) :=
  match j with
  | .null => pure none
  | v => do pure (some (← f v))

def colJ (col : Column) : Json :=
  .arr (col.map fun kv => Json.arr #[.str kv.1, match kv.2 with | some q => ratJ q | none => .null]).toArray

def tableJ (t : List (String × Column)) : Json :=
  .arr (t.map fun kc => Json.arr #[.str kc.1, colJ kc.2]).toArray

def handle (j : Json) : Except String Json := do
  let c ← jContent (← field j "content")
  let toScan ← optJ (jList jStr) (fieldD j "to_scan" .null)
  let vars ← optJ Driver.H_c09.jRow (fieldD j "vars" .null)
  let normalized ← jBool (← field j "normalized")
  let d ← jRat (← field j "d")
  let t ← jRat (fieldD j "t" (.str "0"))
  let sample ← optJ Driver.H_c09.jRow (fieldD j "sample" .null)
  let r : Except Err (Content × List (String × Column)) ←
    match sample, ← jStr (← field j "what") with
    | some row, "var" => pure ((mcVarSample c row toScan vars t normalized d).map fun tb => (c, tb))
    | some row, "par" => pure ((mcParSample c row toScan vars t normalized d).map fun tb => (c, tb))
    | some row, "resp" => do
      let w := ssWorker (← Driver.H_c09.jCfg (← field j "cfg"))
      pure (mcRespSample w c row toScan vars normalized d)
    | _, what => match what with
    | "var" => pure ((varElasticities c toScan vars t normalized d).map fun tb => (c, tb))
    | "par" => pure (parElasticities c toScan vars t normalized d)
    | "resp" => do
      let w := ssWorker (← Driver.H_c09.jCfg (← field j "cfg"))
      match ← jStr (← field j "mode") with
      | "seq" => pure (responseSeq w vars normalized d c toScan)
      | _ => pure (responsePar (← jList jNat (fieldD j "assign" (.arr #[]))) (← jNat (fieldD j "n" (.num 1)))
                    w vars normalized d c toScan)
    | k => .error s!"bad what {k}"
  pure (resJ (fun (ct : Content × List (String × Column)) =>
    Json.mkObj [("cols", tableJ ct.2), ("caller", Driver.H_c09.stateJ ct.1)]) r)

end Driver.H_c18
