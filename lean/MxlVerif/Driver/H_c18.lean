/- op "c18": elasticities / response coefficients with the impl-faithful model; reports the
   coefficient table and what the caller's model looks like afterwards -/
import Driver.H_c09
import MxlVerif.Model.C18
open Lean Mxl Mxl.Wire Mxl.C09 Mxl.C18
namespace Driver.H_c18

def optJ {α} (f : Json → Except String α) (j : Json) : Except String (Option α) :=
  match j with
  | .null => pure none
  | v => do pure (some (← f v))

def colJ (col : Column) : Json :=
  .arr (col.map fun kv => Json.arr #[.str kv.1, match kv.2 with | some q => ratJ q | none => .null]).toArray

def tableJ (t : List (String × Column)) : Json :=
  .arr (t.map fun kc => Json.arr #[.str kc.1, colJ kc.2]).toArray

/-- a run on the one model object: the table or the exception, and in BOTH cases what the caller's model looks
    like afterwards -/
def runJ (r : Run (List (String × Column))) : Json :=
  match r with
  | (c, .ok tb) => Json.mkObj [("ok", Json.mkObj [("cols", tableJ tb), ("caller", Driver.H_c09.stateJ c)])]
  | (c, .error e) => Json.mkObj [("err", errJ e), ("caller", Driver.H_c09.stateJ c)]

def exJ (c : Content) (r : Except Err (Content × List (String × Column))) : Json :=
  match r with
  | .ok ct => runJ (ct.1, .ok ct.2)
  | .error e => runJ (c, .error e)

/-- `what = "scaled"`: the closed forms `Props/C18` states for power laws — `scaledCD d n`, the bound factor
    `prodUp d n`, and the entry `coef` computes from the three flux values of `v = A·xⁿ` -/
def scaledJ (j : Json) : Except String Json := do
  let d ← jRat (← field j "d")
  let n ← jNat (← field j "n")
  let a ← jRat (fieldD j "A" (.str "1"))
  let x ← jRat (fieldD j "x" (.str "1"))
  let e := coef true d x (a * (x * (1 + d)) ^ n) (a * (x * (1 - d)) ^ n) (a * x ^ n)
  pure (Json.mkObj [("scaled", ratJ (scaledCD d n)), ("prodUp", ratJ (prodUp d n)),
                    ("coef", match e with | some q => ratJ q | none => .null)])

def handle (j : Json) : Except String Json := do
  if (← jStr (← field j "what")) == "scaled" then return (← scaledJ j)
  let c ← jContent (← field j "content")
  let toScan ← optJ (jList jStr) (fieldD j "to_scan" .null)
  let vars ← optJ Driver.H_c09.jRow (fieldD j "vars" .null)
  let normalized ← jBool (← field j "normalized")
  let d ← jRat (← field j "d")
  let t ← jRat (fieldD j "t" (.str "0"))
  let sample ← optJ Driver.H_c09.jRow (fieldD j "sample" .null)
  match sample, ← jStr (← field j "what") with
  | some row, "var" => pure (exJ c ((mcVarSample c row toScan vars t normalized d).map fun tb => (c, tb)))
  | some row, "par" => pure (exJ c ((mcParSample c row toScan vars t normalized d).map fun tb => (c, tb)))
  | some row, "resp" => do
    let w := ssWorker (← Driver.H_c09.jCfg (← field j "cfg"))
    pure (exJ c (mcRespSample w c row toScan vars normalized d))
  | _, what => match what with
  | "var" => pure (exJ c ((varElasticities c toScan vars t normalized d).map fun tb => (c, tb)))
  | "par" => pure (runJ (parElasticitiesT c toScan vars t normalized d))
  | "resp" => do
    let w := ssWorker (← Driver.H_c09.jCfg (← field j "cfg"))
    match ← jStr (← field j "mode") with
    | "seq" => pure (runJ (responseSeqT w vars normalized d c toScan))
    | _ => pure (exJ c (responsePar (← jList jNat (fieldD j "assign" (.arr #[]))) (← jNat (fieldD j "n" (.num 1)))
                  w vars normalized d c toScan))
  | k => .error s!"bad what {k}"

end Driver.H_c18
