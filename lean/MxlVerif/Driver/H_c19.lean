/- op "c19": run a script of interrupted / complete cache runs on the file-system model -/
import Driver.Wire
import MxlVerif.Model.C19
import MxlVerif.Generated.C19Save
open Lean Mxl.Wire Mxl.C19
namespace Driver.H_c19

abbrev K := String

def sizeOf (tbl : List (Nat × Nat)) (w : Nat) : Nat := (tbl.lookup w).getD 0

def fileJ : File Nat → Json
  | .absent => .str "absent"
  | .data w p => .arr #[.num w, .num p]

def snapshot (fs : FS K Nat) (keys : List K) : Json :=
  Json.mkObj [
    ("final", .arr (keys.map fun k => Json.arr #[.str k, fileJ (fs (.final k))]).toArray),
    ("tmp", .arr (keys.map fun k => Json.arr #[.str k, fileJ (fs (.tmp k))]).toArray)]

def jMode (j : Json) : Except String SaveMode := do
  match ← jStr j with
  | "gen" => pure Gen.saveMode
  | "direct" => pure .direct
  | "atomic" => pure .atomic
  | s => .error s!"bad mode {s}"

def jProgress (j : Json) : Except String Progress :=
  match j with
  | .str "n" => pure .notStarted
  | .str "d" => pure .done
  | .arr #[.str "cut", c] => do pure (.cut (← jNat c))
  | _ => .error s!"bad progress {j.compress}"

def opKind : Op K Nat → String
  | .openW (.final _) _ => "open-final"
  | .openW (.tmp _) _ => "open-tmp"
  | .write1 (.final _) => "write-final"
  | .write1 (.tmp _) => "write-tmp"
  | .rename _ _ => "rename"

def outJ (o : Except Unit (List (K × Nat))) : Json :=
  match o with
  | .error _ => .str "error"
  | .ok l => .arr #[.str "ok", .arr (l.map fun kw => Json.arr #[.str kw.1, .num kw.2]).toArray]

def bytesJ (l : List Nat) : Json := .arr (l.map fun (b : Nat) => (Json.num (b : JsonNumber))).toArray

def handle (j : Json) : Except String Json := do
  if let .ok nj := j.getObjVal? "name" then
    -- the file names of one key: `cache.name_fn(key)` under the generated scheme and under the pinned one, the
    -- temporary sibling `_pickle_save` writes to, and the decoding that shows the name determines `repr(key)`
    let str ← jList jNat (← field nj "str")
    let repr ← jList jNat (← field nj "repr")
    let pid ← jNat (← field nj "pid")
    let key : List Nat × List Nat := (str, repr)
    let final := defaultName Gen.nameScheme Prod.fst Prod.snd key
    return Json.mkObj [
      ("final", bytesJ final),
      ("plain", bytesJ (defaultName .plainStr Prod.fst Prod.snd key)),
      ("tmp", bytesJ (tmpName Gen.tmpSep Gen.tmpSuffix final pid)),
      ("decoded", bytesJ (pctDecode (final.take (final.length - 2)))),
      ("safe", .bool (pathSafe (tmpName Gen.tmpSep Gen.tmpSuffix final pid) && pathSafe final)),
      ("partsOk", .bool (tmpPartsOk Gen.tmpSep Gen.tmpSuffix))]
  if let .ok wj := j.getObjVal? "writers" then
    -- two writers of ONE result file with their own temporaries: the given schedule ("A" / "B" = whose next file
    -- operation runs; what is left over runs at the end), each writer cut after `cutA` / `cutB` operations; what a
    -- reader would find under the result file's name after every single operation
    let n ← jNat (← field wj "size")
    let cutA ← jNat (← field wj "cutA")
    let cutB ← jNat (← field wj "cutB")
    let sched ← jList jStr (← field wj "schedule")
    let size : Nat → Nat := fun _ => n
    let fin : Path K := .final "k"
    let opsA := (saveOpsAt size (.tmp "A") fin 1).take cutA
    let opsB := (saveOpsAt size (.tmp "B") fin 2).take cutB
    let mut a := opsA
    let mut b := opsB
    let mut l : List (Op K Nat) := []
    for who in sched do
      if who == "A" then
        match a with
        | o :: rest => l := l ++ [o]; a := rest
        | [] => pure ()
      else
        match b with
        | o :: rest => l := l ++ [o]; b := rest
        | [] => pure ()
    l := l ++ a ++ b
    let mut fs : FS K Nat := FS.empty
    let mut seen : Array Json := #[]
    for o in l do
      fs := applyOp fs o
      seen := seen.push (fileJ (fs fin))
    return Json.mkObj [("seen", .arr seen), ("final", fileJ (fs fin)), ("tmpA", fileJ (fs (.tmp "A"))),
      ("tmpB", fileJ (fs (.tmp "B"))), ("same", .bool ((applyOps FS.empty l) fin == fs fin))]
  let mode ← jMode (← field j "mode")
  let tbl ← jList (jPair jNat jNat) (← field j "sizes")
  let size := sizeOf tbl
  match j.getObjVal? "ops" with
  | .ok w =>
    -- the file operations of one save of payload `w`, in order
    let w ← jNat w
    pure (.arr ((saveOps mode size "k" w).map (fun o => Json.str (opKind o))).toArray)
  | .error _ =>
    let inputs ← jList (jPair jStr jNat) (← field j "inputs")
    let keys := inputs.map (·.1)
    let fs0J ← jArr (fieldD j "fs0" (.arr #[]))
    let mut fs : FS K Nat := FS.empty
    for e in fs0J do
      match e with
      | .arr #[.str k, .str "final", w, p] => fs := fs.set (.final k) (.data (← jNat w) (← jNat p))
      | .arr #[.str k, .str "tmp", w, p] => fs := fs.set (.tmp k) (.data (← jNat w) (← jNat p))
      | _ => throw s!"bad fs0 entry {e.compress}"
    let mut outs : Array Json := #[]
    -- the interrupted runs since the last complete run / planting, and the directory they started from: after every
    -- interrupted step the whole history is replayed through `crashHistory` and must give the same directory
    let mut hist : List (Interrupted K Nat) := []
    let mut fsBase := fs
    for st in ← jArr (← field j "script") do
      match st with
      | .arr #[.str "crash", pj] =>
        let prog ← jList (jPair jStr jProgress) pj
        let h : Interrupted K Nat := .pool (fun k => (prog.lookup k).getD .notStarted) inputs
        fs := h.apply mode size (fun (v : Nat) => v) fs
        hist := hist ++ [h]
        let same := (snapshot (crashHistory mode size (fun (v : Nat) => v) fsBase hist) keys).compress == (snapshot fs keys).compress
        outs := outs.push (Json.mkObj [("fs", snapshot fs keys), ("history_ok", .bool same)])
      | .arr #[.str "seqcrash", .str victim, c] =>
        let h : Interrupted K Nat := .seq victim (← jNat c) inputs
        fs := h.apply mode size (fun (v : Nat) => v) fs
        hist := hist ++ [h]
        let same := (snapshot (crashHistory mode size (fun (v : Nat) => v) fsBase hist) keys).compress == (snapshot fs keys).compress
        outs := outs.push (Json.mkObj [("fs", snapshot fs keys), ("history_ok", .bool same)])
      | .arr #[.str "plant", ents] =>
        -- files put into the directory from outside, between runs
        for e in ← jArr ents do
          match e with
          | .arr #[.str k, .str "final", w, p] => fs := fs.set (.final k) (.data (← jNat w) (← jNat p))
          | .arr #[.str k, .str "tmp", w, p] => fs := fs.set (.tmp k) (.data (← jNat w) (← jNat p))
          | _ => throw s!"bad plant entry {e.compress}"
        hist := []
        fsBase := fs
        outs := outs.push (Json.mkObj [("fs", snapshot fs keys)])
      | .arr #[.str "run"] =>
        match parallelise Gen.refusesDuplicateKeys mode size (fun (v : Nat) => v) fs inputs with
        | none =>
          outs := outs.push (Json.mkObj [("out", .str "refused"), ("calls", .arr #[]), ("fs", snapshot fs keys)])
        | some r =>
          hist := []
          fsBase := r.fs
          -- the same inputs processed in reverse order and reported in input order (`pool.map`), and the uncached run
          let sched := runSched mode size (fun (v : Nat) => v) fs inputs.reverse inputs
          fs := r.fs
          outs := outs.push (Json.mkObj [("out", outJ r.out),
            ("calls", .arr (r.calls.map Json.str).toArray), ("fs", snapshot fs keys),
            ("sched", outJ sched), ("uncached", outJ (.ok (uncached (fun (v : Nat) => v) inputs)))])
      | _ => throw s!"bad script step {st.compress}"
    pure (.arr outs)

end Driver.H_c19
