/- op "c20": evaluate the generated loss definitions / scaling wrapper at Rat; run the fit wrappers on a recorded
minimiser result -/
import Driver.Wire
import MxlVerif.Model.C20
import MxlVerif.Generated.C20Losses
open Lean Mxl.Wire Mxl.C20
namespace Driver.H_c20

def optRatJ : Option Rat → Json
  | some q => ratJ q
  | none => .null

def handle (j : Json) : Except String Json := do
  if let .ok bj := j.getObjVal? "bounds" then
    -- the boxes LocalScipyMinimizer hands to scipy, in the order of p0
    let names ← jList jStr (← field bj "names")
    let given ← jAssoc (jPair jRat jRat) (← field bj "given")
    let boxes := fillBounds Gen.defaultBox given names
    return .arr (boxes.map fun b => Json.arr #[ratJ b.1, ratJ b.2]).toArray
  match j.getObjVal? "fit" with
  | .ok fj =>
    -- the wrapper chain fit.* -> LocalScipyMinimizer.__call__ on a recorded scipy result
    let p0 ← jAssoc jRat (← field fj "p0")
    let res ← match ← field fj "res" with
      | .null => pure none
      | r => do
        let (x, f) ← jPair (jList jRat) jRat r
        pure (some (x, f))
    let minimize : (List Rat → Rat) → List Rat → Option (List Rat × Rat) := fun _ _ => res
    match fitWrap (localScipyCall minimize) (fun _ => 0) p0 with
    | some fit => pure (Json.mkObj [("best", assocJ ratJ fit.bestPars), ("loss", ratJ fit.loss)])
    | none => pure .null
  | .error _ =>
    let name ← jStr (← field j "loss")
    let d ← jList jRat (← field j "d")
    let p ← jList jRat (← field j "p")
    match j.getObjVal? "scaled" with
    | .ok sj =>
      let m ← jRat (← field sj "mean")
      let s ← jRat (← field sj "scale")
      let on ← jBool (← field sj "on")
      let v := match name with
        | "mean_squared" => some (Gen.settingsLoss Gen.mean_squared on m s d p)
        | "mae" => some (Gen.settingsLoss Gen.mae on m s d p)
        | "mean" => some (Gen.settingsLoss Gen.mean on m s d p)
        | "mean_absolute_percentage" => some (Gen.settingsLoss Gen.mean_absolute_percentage on m s d p)
        | _ => none
      pure (optRatJ v)
    | .error _ =>
      if name == "cosine_similarity" then
        -- no square root at Rat: the exact inner product and squared norms the generated definition is built from
        let (dot, a, b) := cosineParts d p
        pure (Json.arr #[ratJ dot, ratJ a, ratJ b])
      else pure (optRatJ (Gen.evalRat name d p))

end Driver.H_c20
