/- op "c20": evaluate the generated loss definitions / scaling wrapper at Rat; run the fit wrappers on a recorded
minimiser result -/
import Driver.Wire
import MxlVerif.Model.C20
import MxlVerif.Generated.C20Losses
open Lean Mxl.Wire Mxl.C20
namespace Driver.H_c20

def optRatJ : Option Rat → Json
  | some q => ratJ q
  | none => .null

def jExt (j : Json) : Except String Ext :=
  match j with
  | .str "inf" => pure .inf
  | _ => do pure (.fin (← jRat j))

def extJ : Ext → Json
  | .fin x => ratJ x
  | .inf => .str "inf"

def valsJ (m : ModelVals Ext) : Json :=
  Json.mkObj [("pars", assocJ extJ m.pars), ("vars", assocJ extJ m.vars)]

def fitJ : Option (Fit Ext) → Json
  | some f => Json.mkObj [("best", assocJ extJ f.bestPars), ("loss", extJ f.loss)]
  | none => .null

def jFit (j : Json) : Except String (Option (Fit Ext)) :=
  match j with
  | .null => pure none
  | _ => do pure (some ⟨← jAssoc jExt (← field j "best"), ← jExt (← field j "loss")⟩)

/-- the fit drivers end to end with the scripted minimiser; `residual` is a table from candidate values to the
recorded residual (anything else: `inf`) -/
def handleDriver (dj : Json) : Except String Json := do
  let setsBest ← match ← field dj "setsBest" with
    | .str "gen" => pure Gen.fitSetsBest
    | b => jBool b
  let asDeepcopy ← jBool (← field dj "asDeepcopy")
  let y0 ← match ← field dj "y0" with
    | .null => pure none
    | y => do pure (some (← jAssoc jExt y))
  let mj ← field dj "model"
  let model : ModelVals Ext := ⟨← jAssoc jExt (← field mj "pars"), ← jAssoc jExt (← field mj "vars")⟩
  let p0 ← jAssoc jExt (← field dj "p0")
  let cands ← jList (jList jExt) (← field dj "cands")
  let fail ← jBool (← field dj "fail")
  let table ← jList (jPair (jList jExt) jExt) (← field dj "table")
  let residual : List (String × Ext) → Ext := fun u => (table.lookup (u.map (·.2))).getD .inf
  let out := fitDriver setsBest asDeepcopy y0 model p0 cands fail residual
  let (pN, vN) := routeNames model (p0.map (·.1))
  pure (Json.mkObj [("fit", fitJ out.fit), ("caller", valsJ out.caller), ("work", valsJ out.work),
    ("trace", .arr (out.trace.map (assocJ extJ)).toArray),
    ("p_names", .arr (pN.map Json.str).toArray), ("v_names", .arr (vN.map Json.str).toArray),
    ("y0_ok", .bool (match y0 with | some y => (updateVariables model y).isSome | none => true))])

def handle (j : Json) : Except String Json := do
  if let .ok dj := j.getObjVal? "drv" then
    return ← handleDriver dj
  if let .ok ej := j.getObjVal? "ens" then
    -- EnsembleFit: failures dropped, get_best_fit = first fit with the least loss
    let fits ← jList jFit ej
    let kept := ensembleFits fits
    return Json.mkObj [("kept", .arr (kept.map fun f => fitJ (some f)).toArray), ("best", fitJ (getBestFit kept))]
  if let .ok sj := j.getObjVal? "sum" then
    return extJ (sumResiduals (← jList jExt sj))
  if let .ok bj := j.getObjVal? "bounds" then
    -- the boxes LocalScipyMinimizer hands to scipy, in the order of p0
    let names ← jList jStr (← field bj "names")
    let given ← jAssoc (jPair jRat jRat) (← field bj "given")
    if let .ok vj := bj.getObjVal? "values" then
      -- the LOCAL minimiser: the default box only for a start value inside it
      let vals ← jList jRat vj
      let boxes := fillBoundsLocal Gen.localBoxOnlyIfInside Gen.defaultBox given (names.zip vals)
      let oj : Option Rat → Json := fun o => match o with | some x => ratJ x | none => .null
      return .arr (boxes.map fun b => Json.arr #[oj b.1, oj b.2]).toArray
    let boxes := fillBounds Gen.defaultBox given names
    return .arr (boxes.map fun b => Json.arr #[ratJ b.1, ratJ b.2]).toArray
  match j.getObjVal? "fit" with
  | .ok fj =>
    -- the wrapper chain fit.* -> LocalScipyMinimizer.__call__ on a recorded scipy result
    let p0 ← jAssoc jRat (← field fj "p0")
    let res ← match ← field fj "res" with
      | .null => pure none
      | r => do
        let (x, f) ← jPair (jList jRat) jRat r
        pure (some (x, f))
    let minimize : (List Rat → Rat) → List Rat → Option (List Rat × Rat) := fun _ _ => res
    match fitWrap (localScipyCall minimize) (fun _ => 0) p0 with
    | some fit => pure (Json.mkObj [("best", assocJ ratJ fit.bestPars), ("loss", ratJ fit.loss)])
    | none => pure .null
  | .error _ =>
    let name ← jStr (← field j "loss")
    let d ← jList jRat (← field j "d")
    let p ← jList jRat (← field j "p")
    match j.getObjVal? "scaled" with
    | .ok sj =>
      let m ← jRat (← field sj "mean")
      let s ← jRat (← field sj "scale")
      let on ← jBool (← field sj "on")
      let v := match name with
        | "mean_squared" => some (Gen.settingsLoss Gen.mean_squared on m s d p)
        | "mae" => some (Gen.settingsLoss Gen.mae on m s d p)
        | "mean" => some (Gen.settingsLoss Gen.mean on m s d p)
        | "mean_absolute_percentage" => some (Gen.settingsLoss Gen.mean_absolute_percentage on m s d p)
        | _ => none
      pure (optRatJ v)
    | .error _ =>
      if name == "cosine_similarity" then
        -- no square root at Rat: the exact inner product and squared norms the generated definition is built from
        let (dot, a, b) := cosineParts d p
        pure (Json.arr #[ratJ dot, ratJ a, ratJ b])
      else pure (optRatJ (Gen.evalRat name d p))

end Driver.H_c20
