/- op "c05": build the labelled model with the Lean model of `LabelMapper.build_model` and
   evaluate it at the given isotopomer states -/
import Driver.Wire
import MxlVerif.Model.C05
open Lean Mxl Mxl.Wire Mxl.C05
namespace Driver.H_c05

def bits (w : Label) : String := String.ofList (w.map fun b => if b then '1' else '0')

/-- how Python spells a name of the labelled model -/
def render (n : LName) : String :=
  match n.lab with
  | none => n.base
  | some w => n.base ++ "__" ++ bits w

def parseBits (s : String) : Option Label :=
  s.toList.mapM fun c => if c == '1' then some true else if c == '0' then some false else none

def jDFn (j : Json) : Except String (DFn Mxl.Name) := do
  let args ← jList jStr (← field j "args")
  let e ← jFExpr (← field j "e")
  pure { args, fn := fun xs => e.eval xs }

def jBRxn (j : Json) : Except String BRxn := do
  match ← jArr j with
  | [.str name, body] =>
    let args ← jList jStr (← field body "args")
    let e ← jFExpr (← field body "e")
    let st ← jList (jPair jStr jInt) (← field body "st")
    pure { name, fn := fun xs => e.eval xs, args, stoich := st }
  | _ => .error "bad reaction"

def jBase (j : Json) : Except String Base := do
  pure { pars := ← jAssoc jRat (fieldD j "pars" (.arr #[]))
         vars := ← jAssoc jRat (fieldD j "vars" (.arr #[]))
         derived := ← jAssoc jDFn (fieldD j "derived" (.arr #[]))
         rxns := ← jList jBRxn (fieldD j "rxns" (.arr #[])) }

def errJ : LErr → Json
  | .valueError => .arr #[.str "ValueError"]
  | .indexError => .arr #[.str "IndexError"]
  | .keyError k => .arr #[.str "KeyError", .str k]

def intJ (i : Int) : Json := .str (toString i)

def rxnJ (rx : LRxn) : Json :=
  .arr #[.str (render rx.name), strsJ (rx.args.map render),
         .arr (rx.stoich.map fun kv => Json.arr #[.str (render kv.1), intJ kv.2]).toArray]

/-- a state is keyed by rendered names; map it back through the model's variable list -/
def stateOf (m : LModel) (st : List (String × Rat)) : Except String (List (LName × Rat)) :=
  m.vars.mapM fun kv =>
    match st.lookup (render kv.1) with
    | some v => .ok (kv.1, v)
    | none => .error s!"state lacks {render kv.1}"

def handle (j : Json) : Except String Json := do
  let lv ← jList (jPair jStr jNat) (← field j "lv")
  let maps ← jList (jPair jStr (jList jNat)) (← field j "maps")
  let init ← jList (jPair jStr (jList jNat)) (fieldD j "init" (.arr #[]))
  let base ← jBase (← field j "base")
  let states ← jList (jAssoc jRat) (fieldD j "states" (.arr #[]))
  let distinct := Json.arr (base.rxns.filterMap fun r =>
    match maps.lookup r.name with
    | some _ => some (Json.arr #[.str r.name, .bool (distinctOcc lv r)])
    | none => none).toArray
  -- public queries: [["of", x] | ["at", x, [positions]] | ["n", x, k]]
  let queries ← jList jArr (fieldD j "queries" (.arr #[]))
  let namesJ : Except LErr (List LName) → Json := fun r => match r with
    | .ok l => Json.mkObj [("ok", strsJ (l.map render))]
    | .error e => Json.mkObj [("err", errJ e)]
  let qres ← queries.mapM fun q => match q with
    | [.str "of", .str x] => pure (namesJ (getIsotopomerOf lv x))
    | [.str "at", .str x, ps] => do
      let ps ← jList jNat ps
      pure (namesJ (isotopomersAtPosition lv x ps))
    | [.str "n", .str x, k] => do
      let k ← jNat k
      pure (namesJ (isotopomersWithNLabels lv x k))
    | _ => .error "bad query"
  let isosJ := Json.arr ((getIsotopomers lv).map fun kv =>
    Json.arr #[.str kv.1, strsJ (kv.2.map render)]).toArray
  match buildModel base lv maps init with
  | .error e => pure (Json.mkObj [("err", errJ e), ("distinct", distinct), ("queries", .arr qres.toArray), ("isos", isosJ)])
  | .ok m =>
    let sts ← states.mapM (stateOf m)
    let rhs := sts.map fun st => Json.arr ((m.rhs st).map fun kv =>
      Json.arr #[.str (render kv.1), ratJ kv.2]).toArray
    let sums := sts.map fun st => assocJ ratJ (m.summedRhs lv (base.vars.map (·.1)) st)
    pure (Json.mkObj [("ok", Json.mkObj [
      ("rxns", .arr (m.rxns.map rxnJ).toArray),
      ("vars", .arr (m.vars.map fun kv => Json.arr #[.str (render kv.1), ratJ kv.2]).toArray),
      ("pars", assocJ ratJ m.pars),
      ("derived", .arr ((m.totals.map fun kv => Json.arr #[.str (render kv.1), strsJ (kv.2.map render)])
          ++ (m.derived.map fun kv => Json.arr #[.str kv.1, strsJ (kv.2.args.map render)])).toArray),
      ("rhs", .arr rhs.toArray),
      ("sums", .arr sums.toArray)]), ("distinct", distinct), ("queries", .arr qres.toArray), ("isos", isosJ)])

end Driver.H_c05
