/- op "c05": build the labelled model with the Lean model of `LabelMapper.build_model` and
   evaluate it at the given isotopomer states -/
import Driver.Wire
import MxlVerif.Model.C05
import MxlVerif.Model.C05Py
import MxlVerif.Model.C16
open Lean Mxl Mxl.Wire Mxl.C05
namespace Driver.H_c05

def bits (w : Label) : String := String.ofList (w.map fun b => if b then '1' else '0')

/-- how Python spells a name of the labelled model -/
def render (n : LName) : String :=
  match n.lab with
  | none => n.base
  | some w => n.base ++ "__" ++ bits w

def parseBits (s : String) : Option Label :=
  s.toList.mapM fun c => if c == '1' then some true else if c == '0' then some false else none

def jDFn (j : Json) : Except String (DFn Mxl.Name) := do
  let args ← jList jStr (← field j "args")
  let e ← jFExpr (← field j "e")
  pure { args, fn := fun xs => e.eval xs }

def jBRxn (j : Json) : Except String BRxn := do
  match ← jArr j with
  | [.str name, body] =>
    let args ← jList jStr (← field body "args")
    let e ← jFExpr (← field body "e")
    let st ← jList (jPair jStr jInt) (← field body "st")
    pure { name, fn := fun xs => e.eval xs, args, stoich := st }
  | _ => .error "bad reaction"

def jBase (j : Json) : Except String Base := do
  pure { pars := ← jAssoc jRat (fieldD j "pars" (.arr #[]))
         vars := ← jAssoc jRat (fieldD j "vars" (.arr #[]))
         derived := ← jAssoc jDFn (fieldD j "derived" (.arr #[]))
         rxns := ← jList jBRxn (fieldD j "rxns" (.arr #[])) }

def errJ : LErr → Json
  | .valueError => .arr #[.str "ValueError"]
  | .indexError => .arr #[.str "IndexError"]
  | .keyError k => .arr #[.str "KeyError", .str k]
  | .typeError => .arr #[.str "TypeError"]
  | .notImplementedError => .arr #[.str "NotImplementedError"]

def intJ (i : Int) : Json := .str (toString i)

def rxnJ (rx : LRxn) : Json :=
  .arr #[.str (render rx.name), strsJ (rx.args.map render),
         .arr (rx.stoich.map fun kv => Json.arr #[.str (render kv.1), intJ kv.2]).toArray]

/-- a state is keyed by rendered names; map it back through the model's variable list -/
def stateOf (m : LModel) (st : List (String × Rat)) : Except String (List (LName × Rat)) :=
  m.vars.mapM fun kv =>
    match st.lookup (render kv.1) with
    | some v => .ok (kv.1, v)
    | none => .error s!"state lacks {render kv.1}"

/-- the structural part of a built model, as the harness compares it -/
def modelJ (m : LModel) : List (String × Json) := [
  ("rxns", .arr (m.rxns.map rxnJ).toArray),
  ("vars", .arr (m.vars.map fun kv => Json.arr #[.str (render kv.1), ratJ kv.2]).toArray),
  ("pars", assocJ ratJ m.pars),
  ("derived", .arr ((m.totals.map fun kv => Json.arr #[.str (render kv.1), strsJ (kv.2.map render)])
      ++ (m.derived.map fun kv => Json.arr #[.str kv.1, strsJ (kv.2.args.map render)])).toArray)]

def resultJ : Except LErr LModel → Json
  | .error e => Json.mkObj [("err", errJ e)]
  | .ok m => Json.mkObj [("ok", Json.mkObj (modelJ m))]

/-- the map as natural numbers when it has no negative index -/
def natMap (lm : List Int) : Option (List Nat) :=
  lm.mapM fun i => if 0 ≤ i then some i.toNat else none

/-- a raw coefficient: `{"int": n}`, `{"float": "n/d"}` or `"derived"` -/
def jCoef (j : Json) : Except String Coef :=
  match j with
  | .str "derived" => .ok .derived
  | _ =>
    match j.getObjVal? "int" with
    | .ok v => do pure (.int (← jInt v))
    | .error _ => do pure (.float (← jRat (← field j "float")))

def handle (j : Json) : Except String Json := do
  let lv ← jList (jPair jStr jNat) (← field j "lv")
  let maps ← jList (jPair jStr (jList jInt)) (← field j "maps")
  let initI ← jList (jPair jStr (jList jInt)) (fieldD j "init" (.arr #[]))
  let init := initI.map fun kp => (kp.1, natPositions kp.2)
  let base ← jBase (← field j "base")
  -- raw coefficients of the reactions whose stoichiometry is not all Python ints
  let raw ← jList (jPair jStr (jList (jPair jStr jCoef))) (fieldD j "raw" (.arr #[]))
  let states ← jList (jAssoc jRat) (fieldD j "states" (.arr #[]))
  let distinct := Json.arr (base.rxns.filterMap fun r =>
    match maps.lookup r.name with
    | some _ => some (Json.arr #[.str r.name, .bool (distinctOcc lv r)])
    | none => none).toArray
  -- the vocabulary of the property statements, per mapped reaction: substrate / product label
  -- positions and the external label string (compared with the real helpers)
  let dims := Json.arr (base.rxns.filterMap fun r =>
    match maps.lookup r.name with
    | some lm => some (Json.arr #[.str r.name, toJson (nSub lv r), toJson (nProd lv r), .str (bits (extOf lv r)),
        match normMap (max (nSub lv r) (nProd lv r)) lm with
        | .ok l => toJson l
        | .error e => errJ e])
    | none => none).toArray
  -- public queries: [["of", x] | ["at", x, [positions]] | ["n", x, k]]
  let queries ← jList jArr (fieldD j "queries" (.arr #[]))
  let namesJ : Except LErr (List LName) → Json := fun r => match r with
    | .ok l => Json.mkObj [("ok", strsJ (l.map render))]
    | .error e => Json.mkObj [("err", errJ e)]
  let qres ← queries.mapM fun q => match q with
    | [.str "of", .str x] => pure (namesJ (getIsotopomerOf lv x))
    | [.str "at", .str x, ps] => do
      let ps ← jList jInt ps
      pure (namesJ (isotopomersAtPositionI lv x ps))
    | [.str "n", .str x, k] => do
      let k ← jInt k
      pure (namesJ (isotopomersWithNLabelsI lv x k))
    | _ => .error "bad query"
  let isosJ := Json.arr ((getIsotopomers lv).map fun kv =>
    Json.arr #[.str kv.1, strsJ (kv.2.map render)]).toArray
  -- the natural-number entry point (the one the theorems are stated for) on maps without negative
  -- indices must give what the integer entry point gives
  let nat : String :=
    if !raw.isEmpty then "na"
    else if (resultJ (buildModelI base lv maps init)).compress != (resultJ (buildModelP base lv maps raw init)).compress
    then "differs"
    else match maps.mapM fun km => (natMap km.2).map fun l => (km.1, l) with
    | none => "na"
    | some nmaps =>
      if (resultJ (buildModel base lv nmaps init)).compress == (resultJ (buildModelP base lv maps raw init)).compress
      then "same" else "differs"
  -- net coefficient of every base variable in every base reaction (`netOf`, the steady-state premise)
  let net := Json.arr (base.rxns.flatMap fun r => base.vars.map fun kv =>
    Json.arr #[.str r.name, .str kv.1, intJ (netOf base r.name kv.1)]).toArray
  -- reactions without a label map: what is handed to add_reaction (raw coefficients passed through),
  -- and the labelled compounds they change (no variables of the labelled model: KeyError on evaluation)
  let coefJ : Coef → Json := fun c => match c with
    | .int v => Json.mkObj [("int", intJ v)]
    | .float q => Json.mkObj [("float", ratJ q)]
    | .derived => .str "derived"
  let unmapped := base.rxns.filter fun r => (maps.lookup r.name).isNone
  let stOf : BRxn → List (Mxl.Name × Coef) := fun r =>
    (raw.lookup r.name).getD (r.stoich.map fun kv => (kv.1, Coef.int kv.2))
  let uraw := Json.arr (unmapped.map fun r =>
    let u := unmappedRaw lv r.name r.args (stOf r)
    Json.arr #[.str u.name, strsJ (u.args.map render),
      .arr (u.stoich.map fun kc => Json.arr #[.str kc.1, coefJ kc.2]).toArray]).toArray
  -- … and the mapped reactions whose map covers the substrates but not the product atoms (`len < nProd`): the
  -- product names cut from the too short product string are no variables either (finding F-C05-5)
  let uncovered := base.rxns.filterMap fun r => match maps.lookup r.name with
    | some lm => if lm.length < nProd lv r then some r.name else none
    | none => none
  let danglingL := (unmapped.flatMap fun r => danglingOf lv (stOf r)) ++ uncovered
  let dangling := strsJ danglingL
  -- the label string `build_model` computes for every `initial_labels` entry of a listed compound
  let initSuf := Json.arr (initI.filterMap fun kp =>
    (lv.lookup kp.1).map fun n => Json.arr #[.str kp.1, .str (bits (initSuffixI n kp.2))]).toArray
  let common := [("distinct", distinct), ("dims", dims), ("net", net), ("initsuf", initSuf), ("uraw", uraw), ("dangling", dangling), ("queries", Json.arr qres.toArray), ("isos", isosJ),
    ("nat", Json.str nat)]
  match buildModelPy base lv maps raw initI with
  | .error e => pure (Json.mkObj ([("err", errJ e)] ++ common))
  | .ok m =>
    let sts ← states.mapM (stateOf m)
    let keyErr := Json.mkObj [("err", Json.arr #[.str "KeyError"])]
    let rhs := sts.map fun st => if danglingL.isEmpty then Json.arr ((m.rhs st).map fun kv =>
      Json.arr #[.str (render kv.1), ratJ kv.2]).toArray else keyErr
    let sums := sts.map fun st => if danglingL.isEmpty then
      assocJ ratJ (m.summedRhs lv (base.vars.map (·.1)) st) else keyErr
    -- the right-hand side of the theorems: the base model's derivative at the isotopomer totals
    let baseRhs := sts.map fun st =>
      assocJ ratJ (base.vars.map fun kv => (kv.1, baseRhsOf base.rxns (totalsEnv lv (m.env st)) kv.1))
    -- is the rate law the product of its arguments at this state (`MassAction.fn_prod`)
    let prodAgree := sts.map fun st => Json.arr (base.rxns.map fun r =>
      Json.arr #[.str r.name,
        .bool (r.rate (totalsEnv lv (m.env st)) == listProd (r.args.map (totalsEnv lv (m.env st))))]).toArray
    -- the base fluxes at the totals (`fluxAtTotals`: the `fluxes` the linear mapper is given)
    let fluxes := sts.map fun st =>
      assocJ ratJ (base.rxns.map fun r => (r.name, fluxAtTotals base lv (m.env st) r.name))
    -- label flux per position (`C16_position_flux`, left-hand side): for every mapped reaction and padded
    -- position `l`, the summed rates of its isotopomer reactions whose rate suffix is labelled at `l`
    let posflux := sts.map fun st => Json.arr (base.rxns.flatMap fun r =>
      match maps.lookup r.name with
      | none => []
      | some _ =>
        let grp := m.rxns.filter fun rx => rx.name.base == r.name && rx.name.lab.isSome
        (List.range (max (nSub lv r) (nProd lv r))).map fun l =>
          Json.arr #[.str r.name, toJson l,
            ratJ ((grp.map fun rx => Mxl.C16.ind ((Mxl.C16.suffixOf rx).getD l false) * rx.rate (m.env st)).sum)]).toArray
    pure (Json.mkObj ([("ok", Json.mkObj (modelJ m ++ [
      ("fluxes", .arr fluxes.toArray),
      ("posflux", .arr posflux.toArray),
      ("rhs", .arr rhs.toArray),
      ("sums", .arr sums.toArray),
      ("base_rhs", .arr baseRhs.toArray),
      ("prod", .arr prodAgree.toArray)]))] ++ common))

end Driver.H_c05
