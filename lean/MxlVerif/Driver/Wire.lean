/-
JSON wire helpers for the line-protocol driver (no Mathlib).
Rationals travel as strings "n" or "n/d"; names as strings.
-/
import Lean.Data.Json
import MxlVerif.Core.Basic
import MxlVerif.Core.FExpr
open Lean
namespace Mxl.Wire

def parseRat (s : String) : Except String Rat :=
  match s.splitOn "/" with
  | [n] => match n.toInt? with
    | some i => .ok (i : Rat)
    | none => .error s!"bad rat {s}"
  | [n, d] => match n.toInt?, d.toNat? with
    | some i, some k => if k == 0 then .error "zero den" else .ok (mkRat i k)
    | _, _ => .error s!"bad rat {s}"
  | _ => .error s!"bad rat {s}"

def ratStr (q : Rat) : String :=
  if q.den == 1 then toString q.num else s!"{q.num}/{q.den}"

def jRat (j : Json) : Except String Rat :=
  match j with
  | .str s => parseRat s
  | .num n => if n.exponent == 0 then .ok (n.mantissa : Rat) else .error "non-integer json number"
  | _ => .error s!"expected rat, got {j.compress}"

def ratJ (q : Rat) : Json := .str (ratStr q)

def jStr (j : Json) : Except String String :=
  match j with | .str s => .ok s | _ => .error s!"expected string, got {j.compress}"

def jNat (j : Json) : Except String Nat :=
  match j with
  | .num n => if n.exponent == 0 && n.mantissa ≥ 0 then .ok n.mantissa.toNat else .error "expected nat"
  | _ => .error s!"expected nat, got {j.compress}"

def jInt (j : Json) : Except String Int :=
  match j with
  | .num n => if n.exponent == 0 then .ok n.mantissa else .error "expected int"
  | _ => .error s!"expected int, got {j.compress}"

def jBool (j : Json) : Except String Bool :=
  match j with | .bool b => .ok b | _ => .error s!"expected bool, got {j.compress}"

def jArr (j : Json) : Except String (List Json) :=
  match j with | .arr a => .ok a.toList | _ => .error s!"expected array, got {j.compress}"

def jList {α} (f : Json → Except String α) (j : Json) : Except String (List α) := do
  (← jArr j).mapM f

def field (j : Json) (k : String) : Except String Json :=
  match j.getObjVal? k with
  | .ok v => .ok v
  | .error _ => .error s!"missing field {k}"

def fieldD (j : Json) (k : String) (d : Json) : Json :=
  match j.getObjVal? k with
  | .ok v => v
  | .error _ => d

def jPair {α β} (f : Json → Except String α) (g : Json → Except String β) (j : Json) :
    Except String (α × β) := do
  match ← jArr j with
  | [a, b] => pure (← f a, ← g b)
  | _ => .error s!"expected pair, got {j.compress}"

def jAssoc {β} (g : Json → Except String β) (j : Json) : Except String (List (String × β)) :=
  jList (jPair jStr g) j

partial def jFExpr (j : Json) : Except String FExpr := do
  match ← jArr j with
  | [.str "a", i] => pure (.arg (← jNat i))
  | [.str "c", q] => pure (.const (← jRat q))
  | [.str "+", a, b] => pure (.add (← jFExpr a) (← jFExpr b))
  | [.str "-", a, b] => pure (.sub (← jFExpr a) (← jFExpr b))
  | [.str "*", a, b] => pure (.mul (← jFExpr a) (← jFExpr b))
  | [.str "neg", a] => pure (.neg (← jFExpr a))
  | _ => .error s!"bad expr {j.compress}"

def strsJ (l : List String) : Json := .arr (l.map Json.str).toArray
def assocJ {β} (f : β → Json) (l : List (String × β)) : Json :=
  .arr (l.map fun kv => Json.arr #[.str kv.1, f kv.2]).toArray

end Mxl.Wire
