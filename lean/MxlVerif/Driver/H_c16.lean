/- op "c16": build the linear label model with the Lean model of `LinearLabelMapper.build_model`
   and evaluate its right-hand side -/
import Driver.Wire
import MxlVerif.Model.C16
import MxlVerif.Model.C16Py
import Driver.H_c05
open Lean Mxl Mxl.Wire Mxl.C16
namespace Driver.H_c16

def render : Slot → String
  | .ext => "EXT"
  | .pos c i => c ++ "__" ++ toString i

def errJ : Mxl.C05.LErr → Json
  | .valueError => .arr #[.str "ValueError"]
  | .indexError => .arr #[.str "IndexError"]
  | .keyError k => .arr #[.str "KeyError", .str k]
  | .typeError => .arr #[.str "TypeError"]
  | .notImplementedError => .arr #[.str "NotImplementedError"]

def rxnJ (rx : LinRxn) : Json :=
  let st : List Json :=
    (if rx.substrate ≠ Slot.ext then [Json.arr #[.str (render rx.substrate), .str "neg", .str rx.substrate.base]] else [])
    ++ (if rx.product ≠ Slot.ext then [Json.arr #[.str (render rx.product), .str "pos", .str rx.product.base]] else [])
  .arr #[.str (rx.rxn ++ "__" ++ toString rx.slot), strsJ [render rx.substrate, rx.rxn], .arr st.toArray]

structure Eval where
  E : List (String × Rat)
  ext : Rat
  v : List (String × Rat)
  C : List (String × Rat)

def jEval (j : Json) : Except String Eval := do
  pure { E := ← jAssoc jRat (← field j "E"), ext := ← jRat (← field j "ext"),
         v := ← jAssoc jRat (← field j "v"), C := ← jAssoc jRat (← field j "C") }

def evalRhs (m : LinModel) (ev : Eval) : Json :=
  let E : Slot → Rat := fun s => match s with
    | .ext => ev.ext
    | s => (ev.E.lookup (render s)).getD 0
  let v : Mxl.Name → Rat := fun r => (ev.v.lookup r).getD 0
  let C : Mxl.Name → Rat := fun c => (ev.C.lookup c).getD 0
  match linRhsChecked m.rxns E v C with
  | none => Json.mkObj [("err", Json.arr #[.str "ZeroDivisionError"])]
  | some f => .arr (m.vars.map fun kv => Json.arr #[.str (render kv.1), ratJ (f kv.1)]).toArray

def parseSlot (s : String) : Except String Slot :=
  if s == "EXT" then .ok .ext
  else match s.splitOn "__" with
    | [c, i] => match i.toNat? with
      | some n => .ok (.pos c n)
      | none => .error s!"bad slot {s}"
    | _ => .error s!"bad slot {s}"

def slotsJ (l : List Slot) : Json := strsJ (l.map render)

def slotsResJ : Except Mxl.C05.LErr (List Slot) → Json
  | .ok l => Json.mkObj [("ok", slotsJ l)]
  | .error e => Json.mkObj [("err", errJ e)]

def modelJ (m : LinModel) : List (String × Json) := [
  ("vars", .arr (m.vars.map fun kv => Json.arr #[.str (render kv.1), ratJ kv.2]).toArray),
  ("rxns", .arr (m.rxns.map rxnJ).toArray)]

def resultJ : Except Mxl.C05.LErr LinModel → Json
  | .error e => Json.mkObj [("err", errJ e)]
  | .ok m => Json.mkObj [("ok", Json.mkObj (modelJ m))]

def handle (j : Json) : Except String Json := do
  let lv ← jList (jPair jStr jNat) (← field j "lv")
  let maps ← jList (jPair jStr (jList jInt)) (← field j "maps")
  let init ← jList (jPair jStr (jList jNat)) (fieldD j "init" (.arr #[]))
  let rxns ← jList (jPair jStr (jList (jPair jStr jInt))) (← field j "rxns")
  let evals ← jList jEval (fieldD j "evals" (.arr #[]))
  let raw ← jList (jPair jStr (jList (jPair jStr Driver.H_c05.jCoef))) (fieldD j "raw" (.arr #[]))
  -- the pinned helper `_map_substrates_to_labelmap` on given (substrates, map) pairs
  let helperIn ← jList (jPair (jList jStr) (jList jNat)) (fieldD j "helper" (.arr #[]))
  let helper ← helperIn.mapM fun sl => do
    let subs ← sl.1.mapM parseSlot
    pure (slotsResJ (mapSubstratesToLabelmap subs sl.2))
  -- the vocabulary of the theorems for the named reactions: padded substrate / product positions and
  -- the documented sources of a map (compared with the real helpers' outputs)
  let paddedFor ← jList jStr (fieldD j "padded" (.arr #[]))
  let padded := paddedFor.filterMap fun name =>
    match rxns.lookup name, maps.lookup name with
    | some st, some lm =>
      let r : Mxl.C05.BRxn := { name, fn := fun _ => 0, args := [], stoich := st }
      some (Json.arr #[.str name, slotsJ (paddedSubs lv r), slotsJ (paddedProds lv r),
        slotsJ (documentedSources (paddedSubs lv r) ((Driver.H_c05.natMap lm).getD []))])
    | _, _ => none
  let isos := Json.arr ((isosOf lv).map fun kv => Json.arr #[.str kv.1, slotsJ kv.2]).toArray
  -- positional enrichment of isotopomer states and the isotopomers a marginal sums over
  let isoStates ← jList (jAssoc jRat) (fieldD j "iso_states" (.arr #[]))
  let allSlots := (isosOf lv).flatMap (·.2)
  let enrich := isoStates.map fun st =>
    let σ : Mxl.C05.LName → Rat := fun n => (st.lookup (Driver.H_c05.render n)).getD 0
    Json.arr (allSlots.map fun s => Json.arr #[.str (render s), ratJ (enrichOf lv σ s)]).toArray
  let labelled := Json.arr (lv.flatMap fun kn => (List.range kn.2).map fun i =>
    Json.arr #[.str (render (.pos kn.1 i)), strsJ ((labelledAt kn.1 kn.2 i).map Driver.H_c05.render)]).toArray
  let nat : String :=
    if !raw.isEmpty then "na"
    else if (resultJ (linearBuildI rxns lv maps init)).compress != (resultJ (linearBuildP rxns lv maps raw init)).compress
    then "differs"
    else match maps.mapM fun km => (Driver.H_c05.natMap km.2).map fun l => (km.1, l) with
    | none => "na"
    | some nmaps =>
      if (resultJ (linearBuild rxns lv nmaps init)).compress == (resultJ (linearBuildP rxns lv maps raw init)).compress
      then "same" else "differs"
  let padlen := Json.arr (maps.map fun km =>
    Json.arr #[.str km.1, toJson (padLen (isosOf lv) rxns km.1)]).toArray
  let common := [("padlen", padlen), ("helper", Json.arr helper.toArray), ("padded", Json.arr padded.toArray), ("isos", isos),
    ("enrich", Json.arr enrich.toArray), ("labelled", labelled), ("nat", Json.str nat)]
  match linearBuildP rxns lv maps raw init with
  | .error e => pure (Json.mkObj ([("err", errJ e)] ++ common))
  | .ok m =>
    pure (Json.mkObj ([("ok", Json.mkObj (modelJ m ++ [
      ("rhs", .arr (evals.map (evalRhs m)).toArray)]))] ++ common))

end Driver.H_c16
