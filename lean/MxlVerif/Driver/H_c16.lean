/- op "c16": build the linear label model with the Lean model of `LinearLabelMapper.build_model`
   and evaluate its right-hand side -/
import Driver.Wire
import MxlVerif.Model.C16
open Lean Mxl Mxl.Wire Mxl.C16
namespace Driver.H_c16

def render : Slot → String
  | .ext => "EXT"
  | .pos c i => c ++ "__" ++ toString i

def errJ : Mxl.C05.LErr → Json
  | .valueError => .arr #[.str "ValueError"]
  | .indexError => .arr #[.str "IndexError"]
  | .keyError k => .arr #[.str "KeyError", .str k]

def rxnJ (rx : LinRxn) : Json :=
  let st : List Json :=
    (if rx.substrate ≠ Slot.ext then [Json.arr #[.str (render rx.substrate), .str "neg", .str rx.substrate.base]] else [])
    ++ (if rx.product ≠ Slot.ext then [Json.arr #[.str (render rx.product), .str "pos", .str rx.product.base]] else [])
  .arr #[.str (rx.rxn ++ "__" ++ toString rx.slot), strsJ [render rx.substrate, rx.rxn], .arr st.toArray]

structure Eval where
  E : List (String × Rat)
  ext : Rat
  v : List (String × Rat)
  C : List (String × Rat)

def jEval (j : Json) : Except String Eval := do
  pure { E := ← jAssoc jRat (← field j "E"), ext := ← jRat (← field j "ext"),
         v := ← jAssoc jRat (← field j "v"), C := ← jAssoc jRat (← field j "C") }

def evalRhs (m : LinModel) (ev : Eval) : Json :=
  let E : Slot → Rat := fun s => match s with
    | .ext => ev.ext
    | s => (ev.E.lookup (render s)).getD 0
  let v : Mxl.Name → Rat := fun r => (ev.v.lookup r).getD 0
  let C : Mxl.Name → Rat := fun c => (ev.C.lookup c).getD 0
  .arr (m.vars.map fun kv => Json.arr #[.str (render kv.1), ratJ (linRhs m.rxns E v C kv.1)]).toArray

def handle (j : Json) : Except String Json := do
  let lv ← jList (jPair jStr jNat) (← field j "lv")
  let maps ← jList (jPair jStr (jList jNat)) (← field j "maps")
  let init ← jList (jPair jStr (jList jNat)) (fieldD j "init" (.arr #[]))
  let rxns ← jList (jPair jStr (jList (jPair jStr jInt))) (← field j "rxns")
  let evals ← jList jEval (fieldD j "evals" (.arr #[]))
  match linearBuild rxns lv maps init with
  | .error e => pure (Json.mkObj [("err", errJ e)])
  | .ok m =>
    pure (Json.mkObj [("ok", Json.mkObj [
      ("vars", .arr (m.vars.map fun kv => Json.arr #[.str (render kv.1), ratJ kv.2]).toArray),
      ("rxns", .arr (m.rxns.map rxnJ).toArray),
      ("rhs", .arr (evals.map (evalRhs m)).toArray)])])

end Driver.H_c16
