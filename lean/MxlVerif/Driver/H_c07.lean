/- op "c07": generate the straight-line program for each language with the C07 model, report its
   shape, run it at the given (time, state, free-parameter values) and give the model's own
   `callRhs` (with the free parameters set) as the specification value. -/
import Driver.CoreWire
import MxlVerif.Model.C07
open Lean Mxl Mxl.Wire Mxl.C07
namespace Driver.H_c07

def jLang (j : Json) : Except String Lang := do
  match ← jStr j with
  | "py" => pure .py | "ts" => pure .ts | "rs" => pure .rs | "jl" => pure .jl
  | s => .error s!"bad lang {s}"

def unpackJ : Unpack → Json
  | .bracket => "bracket" | .bare => "bare" | .invalid => "invalid"

def rhsKind : Rhs → String
  | .const _ => "const" | .app _ => "app" | .lin _ => "lin"

def shapeJ (p : SLP) : Json :=
  Json.mkObj [
    ("unpack", unpackJ p.unpack),
    ("inputs", strsJ p.inputs),
    ("extra", strsJ p.extra),
    ("assigns", .arr (p.assigns.map fun kr =>
        Json.arr #[.str kr.1, .str (rhsKind kr.2), strsJ kr.2.reads,
                   match kr.2 with | .const q => ratJ q | _ => .null]).toArray),
    ("ret", strsJ p.ret),
    ("retUnit", .bool p.retUnit),
    ("retBracket", .bool p.retBracket),
    ("retLen", match p.retLen with | some n => .num (n : Nat) | none => .null)]

def jState (j : Json) : Except String (Rat × List Rat × List Rat) := do
  match ← jArr j with
  | [t, xs, ps] => pure (← jRat t, ← jList jRat xs, ← jList jRat ps)
  | _ => .error s!"bad state {j.compress}"

def handle (j : Json) : Except String Json := do
  let c ← jContent (← field j "content")
  let bad ← jList jStr (fieldD j "bad" (.arr #[]))
  let free ← jList jStr (fieldD j "free" (.arr #[]))
  let langs ← jList jLang (← field j "langs")
  let states ← jList jState (← field j "states")
  let perLang := langs.map fun L =>
    let g := genModel bad c L free
    Json.mkObj [
      ("gen", resJ shapeJ g),
      ("runs", .arr (states.map fun s => resJ ratsJ (genRun bad c L free s.1 s.2.1 s.2.2)).toArray)]
  let spec := states.map fun s => resJ ratsJ (callRhs (setPars c free s.2.2) s.1 s.2.1)
  pure (Json.mkObj [("langs", .arr perLang.toArray), ("spec", .arr spec.toArray), ("okC", .bool (okC c))])

end Driver.H_c07
