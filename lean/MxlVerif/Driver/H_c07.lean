/- op "c07": generate the straight-line program for each language with the C07 model, report its
   shape, run it at the given (time, state, free-parameter values) and give the model's own
   `callRhs` (with the free parameters set) as the specification value. -/
import Driver.CoreWire
import MxlVerif.Model.C07
import MxlVerif.Model.C07Expr
open Lean Mxl Mxl.Wire Mxl.C07
namespace Driver.H_c07

def jLang (j : Json) : Except String Lang := do
  match ← jStr j with
  | "py" => pure .py | "ts" => pure .ts | "rs" => pure .rs | "jl" => pure .jl
  | s => .error s!"bad lang {s}"

def unpackJ : Unpack → Json
  | .bracket => "bracket" | .bare => "bare" | .invalid => "invalid"

def rhsKind : Rhs → String
  | .const _ => "const" | .app _ => "app" | .lin _ => "lin"

def shapeJ (p : SLP) : Json :=
  Json.mkObj [
    ("unpack", unpackJ p.unpack),
    ("inputs", strsJ p.inputs),
    ("extra", strsJ p.extra),
    ("assigns", .arr (p.assigns.map fun kr =>
        Json.arr #[.str kr.1, .str (rhsKind kr.2), strsJ kr.2.reads,
                   match kr.2 with | .const q => ratJ q | _ => .null]).toArray),
    ("ret", strsJ p.ret),
    ("retUnit", .bool p.retUnit),
    ("retBracket", .bool p.retBracket),
    ("retLen", match p.retLen with | some n => .num (n : Nat) | none => .null)]

def jState (j : Json) : Except String (Rat × List Rat × List Rat) := do
  match ← jArr j with
  | [t, xs, ps] => pure (← jRat t, ← jList jRat xs, ← jList jRat ps)
  | _ => .error s!"bad state {j.compress}"

/-- request `{"op": "c07", "exprLines": [[target, text], …], "jl": bool, "env": [[name, value], …]}`: the assignment
    lines of a generated function read by the Lean reader (`Mxl.C07Expr.runLines`) -/
def handleExpr (j : Json) : Except String Json := do
  let lines ← jList (fun l => do
    let a ← jArr l
    match a with
    | [k, t] => pure ((← jStr k), (← jStr t))
    | _ => throw "line") (← field j "exprLines")
  let jl ← (match (fieldD j "jl" (.bool false)) with | .bool b => pure b | _ => throw "jl")
  let py ← (match (fieldD j "py" (.bool false)) with | .bool b => pure b | _ => throw "py")
  let env ← jAssoc jRat (fieldD j "env" (.arr #[]))
  match Mxl.C07Expr.runLines jl py lines env.reverse [] with
  | .error (.unsupported k) => pure (Json.mkObj [("unsupported", .str k)])
  | .error (.noValue k) => pure (Json.mkObj [("noValue", .str k)])
  | .ok (e, flags) =>
    pure (Json.mkObj [("values", .arr ((e.take lines.length).reverse.map fun kv => Json.arr #[.str kv.1, ratJ kv.2]).toArray),
                      ("reprint", .arr (flags.map fun f => Json.bool f.1).toArray),
                      ("treeValue", .arr (flags.map fun f => Json.bool f.2).toArray)])

def handle (j : Json) : Except String Json := do
  if (j.getObjVal? "exprLines").isOk then return (← handleExpr j)
  let c ← jContent (← field j "content")
  let bad ← jList jStr (fieldD j "bad" (.arr #[]))
  let free ← jList jStr (fieldD j "free" (.arr #[]))
  let langs ← jList jLang (← field j "langs")
  let states ← jList jState (← field j "states")
  let perLang := langs.map fun L =>
    let g := genModel bad c L free
    Json.mkObj [
      ("gen", resJ shapeJ g),
      ("runs", .arr (states.map fun s => resJ ratsJ (genRun bad c L free s.1 s.2.1 s.2.2)).toArray)]
  let spec := states.map fun s => resJ ratsJ (callRhs (setPars c free s.2.2) s.1 s.2.1)
  pure (Json.mkObj [("langs", .arr perLang.toArray), ("spec", .arr spec.toArray), ("okC", .bool (okC c))])

end Driver.H_c07
