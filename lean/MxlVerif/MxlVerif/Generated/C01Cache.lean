-- GENERATED from src/mxlpy/model.py::Model._create_cache/_get_args/get_arg_names by /verif/translate/c01.py; do not edit (rewritten on every run)
namespace Mxl.Generated.C01Cache

/-- `to_sort`: the union of ias | derived | rxns | surs in this order -/
def toSortOf {α : Type} (u : α → α → α) (ias derived rxns surs : α) : α :=
  (u (u (u ias derived) rxns) surs)

/-- `available`: the union of pars | vars | data | time in this order -/
def availableOf {α : Type} (u : α → α → α) (pars vars data time : α) : α :=
  (u (u (u pars vars) data) time)

/-- `dependent`: the union of pars | vars | data | time in this order -/
def dependentOf {α : Type} (u : α → α → α) (pars vars data time : α) : α :=
  (u (u (u pars vars) data) time)

/-- `args`: the union of allpars | state | data in this order -/
def argsOf {α : Type} (u : α → α → α) (allpars state data : α) : α :=
  (u (u allpars state) data)

/-- `containers`: the union of derived | rxns | surs in this order -/
def containersOf {α : Type} (u : α → α → α) (derived rxns surs : α) : α :=
  (u (u derived rxns) surs)

/-- how `_create_cache` files a sorted name before it looks at derived quantities -/
inductive Kind where
  | dynamic | static | derived
deriving DecidableEq, Repr

/-- the if / elif chain of the split loop (the last `else` = a derived quantity: static and added to the
    parameter names iff all its arguments are parameter names, which start as ALL parameters) -/
def classifyKind (inReactions inSurrogates inVariables inParameters : Bool) : Kind :=
  if (inReactions || inSurrogates) then Kind.dynamic else if (inVariables || inParameters) then Kind.static else Kind.derived

/-- `get_arg_names`: (flag consulted, group appended) in the order of the method body -/
def argGroups : List (String × String) :=
  [("include_time", "time"),
   ("include_variables", "variables"),
   ("include_parameters", "parameters"),
   ("include_derived_variables", "derived_variables"),
   ("include_derived_parameters", "derived_parameters"),
   ("include_reactions", "reactions"),
   ("include_surrogate_variables", "surrogate_variables"),
   ("include_surrogate_fluxes", "surrogate_fluxes"),
   ("include_readouts", "readouts")]

end Mxl.Generated.C01Cache
