-- GENERATED from src/mxlpy/model.py::Model._create_cache/_get_args/get_arg_names by /verif/translate/c01.py; do not edit (rewritten on every run)
namespace Mxl.Generated.C01Cache

/-- `to_sort = initial_assignments | self._derived | self._reactions | self._surrogates` -/
def toSortOf {α : Type} (u : α → α → α) (ias derived rxns surs : α) : α :=
  (u (u (u ias derived) rxns) surs)

/-- `available = set(base_parameter_values) | set(base_variable_values) | set(self._data) | {'time'}` -/
def availableOf {α : Type} (u : α → α → α) (pars vars data time : α) : α :=
  (u (u (u pars vars) data) time)

/-- `dependent = base_parameter_values | base_variable_values | self._data | {'time': 0.0}` -/
def dependentOf {α : Type} (u : α → α → α) (pars vars data time : α) : α :=
  (u (u (u pars vars) data) time)

/-- `args = cache.all_parameter_values | variables | self._data` -/
def argsOf {α : Type} (u : α → α → α) (allpars state data : α) : α :=
  (u (u allpars state) data)

/-- `containers = self._derived | self._reactions | self._surrogates` -/
def containersOf {α : Type} (u : α → α → α) (derived rxns surs : α) : α :=
  (u (u derived rxns) surs)

/-- `get_arg_names`: (flag consulted, group appended) in the order of the method body -/
def argGroups : List (String × String) :=
  [("include_time", "time"),
   ("include_variables", "variables"),
   ("include_parameters", "parameters"),
   ("include_derived_variables", "derived_variables"),
   ("include_derived_parameters", "derived_parameters"),
   ("include_reactions", "reactions"),
   ("include_surrogate_variables", "surrogate_variables"),
   ("include_surrogate_fluxes", "surrogate_fluxes"),
   ("include_readouts", "readouts")]

end Mxl.Generated.C01Cache
