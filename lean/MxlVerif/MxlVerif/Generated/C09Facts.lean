-- GENERATED from src/mxlpy/scan.py, src/mxlpy/mc.py, src/mxlpy/parallel.py by /verif/translate/c09.py; do not edit (rewritten on every run)

namespace Mxl.Generated.C09

inductive RowStep where
  | copy | updVars | updPars | call
deriving DecidableEq, Repr

inductive Container where
  | positional | byLabel
deriving DecidableEq, Repr

structure Driver where
  module : String
  name : String
  table : String
  container : Container
  workerY0None : Bool
  y0OnModel : Bool
  passesParallel : Bool
  passesMaxWorkers : Bool
  passesCache : Bool
  passesTimeout : Bool
deriving DecidableEq, Repr

/-- `_update_parameters_and_initial_conditions`, statement by statement -/
def rowSteps : List RowStep := [.copy, .updVars, .updPars, .call]

def cacheChecksKeys : Bool := true

def loadBeforeRun : Bool := true

def seqIsMap : Bool := true

def appendInOrder : Bool := true

def timeoutSkipsRow : Bool := true

/-- every scan worker turns a `ZeroDivisionError` of the simulator into a failed result (`guardZeroDiv`) -/
def workersCatchZeroDivision : Bool := true

/-- `Simulation.default` does not raise for a model that cannot be evaluated at its initial state -/
def placeholderSurvivesZeroDivision : Bool := true

/-- `time_points[time_points >= 0]` -/
def tcKeeps (t : Rat) : Bool := decide (t ≥ (0 : Rat))

/-- the start that is inserted when missing -/
def tcStart : Rat := (0 : Rat)

/-- `_time_points_of_time_course` -/
def tcPlaceholder (tps : List Rat) : List Rat :=
  let kept := tps.filter tcKeeps
  if kept.length == 0 || kept.head? != some tcStart then tcStart :: kept else kept

/-- `points[(points > 0) & (points <= ends[-1])]` -/
def ptcKeeps (t tEnd : Rat) : Bool := decide (t > (0 : Rat)) && decide (t ≤ tEnd)

def ptcStart : Rat := (0 : Rat)

def protoStart : Rat := (0 : Rat)

/-- `np.linspace(t_start, t_end, time_points_per_step + 1)[1:]` -/
def protoPoints (n : Nat) : Nat := n + 1
def protoDrop : Nat := 1

/-- the loop of `_time_points_of_protocol` (`linspace` is the model's `np.linspace`) -/
def protoSteps (linspace : Rat → Rat → Nat → List Rat) (n : Nat) : Rat → List Rat → List Rat
  | _, [] => []
  | tStart, tEnd :: rest => (linspace tStart tEnd (protoPoints n)).drop protoDrop ++ protoSteps linspace n tEnd rest

def protoPlaceholder (linspace : Rat → Rat → Nat → List Rat) (n : Nat) (ends : List Rat) : List Rat :=
  protoStart :: protoSteps linspace n protoStart ends

def drivers : List Driver := [
  { module := "scan", name := "steady_state", table := "to_scan", container := .positional, workerY0None := true, y0OnModel := true, passesParallel := true, passesMaxWorkers := false, passesCache := true, passesTimeout := false },
  { module := "scan", name := "time_course", table := "to_scan", container := .byLabel, workerY0None := true, y0OnModel := true, passesParallel := true, passesMaxWorkers := false, passesCache := true, passesTimeout := false },
  { module := "scan", name := "protocol", table := "to_scan", container := .byLabel, workerY0None := true, y0OnModel := true, passesParallel := true, passesMaxWorkers := false, passesCache := true, passesTimeout := false },
  { module := "scan", name := "protocol_time_course", table := "to_scan", container := .byLabel, workerY0None := true, y0OnModel := true, passesParallel := true, passesMaxWorkers := false, passesCache := true, passesTimeout := false },
  { module := "mc", name := "steady_state", table := "mc_to_scan", container := .positional, workerY0None := true, y0OnModel := true, passesParallel := false, passesMaxWorkers := true, passesCache := true, passesTimeout := false },
  { module := "mc", name := "time_course", table := "mc_to_scan", container := .byLabel, workerY0None := true, y0OnModel := true, passesParallel := false, passesMaxWorkers := true, passesCache := true, passesTimeout := false },
  { module := "mc", name := "protocol", table := "mc_to_scan", container := .byLabel, workerY0None := true, y0OnModel := true, passesParallel := false, passesMaxWorkers := true, passesCache := true, passesTimeout := false },
  { module := "mc", name := "protocol_time_course", table := "mc_to_scan", container := .byLabel, workerY0None := true, y0OnModel := true, passesParallel := false, passesMaxWorkers := true, passesCache := true, passesTimeout := false },
  { module := "mc", name := "scan_steady_state", table := "mc_to_scan", container := .byLabel, workerY0None := true, y0OnModel := true, passesParallel := false, passesMaxWorkers := true, passesCache := true, passesTimeout := false },
  { module := "mc", name := "variable_elasticities", table := "mc_to_scan", container := .byLabel, workerY0None := true, y0OnModel := true, passesParallel := false, passesMaxWorkers := true, passesCache := true, passesTimeout := false },
  { module := "mc", name := "parameter_elasticities", table := "mc_to_scan", container := .byLabel, workerY0None := true, y0OnModel := true, passesParallel := false, passesMaxWorkers := true, passesCache := true, passesTimeout := false },
  { module := "mc", name := "response_coefficients", table := "mc_to_scan", container := .byLabel, workerY0None := true, y0OnModel := true, passesParallel := false, passesMaxWorkers := true, passesCache := true, passesTimeout := false }]

end Mxl.Generated.C09
