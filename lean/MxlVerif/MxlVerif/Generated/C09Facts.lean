-- GENERATED from src/mxlpy/scan.py, src/mxlpy/mc.py, src/mxlpy/parallel.py by /verif/translate/c09.py; do not edit (rewritten on every run)

namespace Mxl.Generated.C09

inductive RowStep where
  | copy | updVars | updPars | call
deriving DecidableEq, Repr

inductive Container where
  | positional | byLabel
deriving DecidableEq, Repr

structure Driver where
  module : String
  name : String
  table : String
  container : Container
  workerY0None : Bool
  y0OnModel : Bool
  passesParallel : Bool
  passesMaxWorkers : Bool
  passesCache : Bool
  passesTimeout : Bool
deriving DecidableEq, Repr

/-- `_update_parameters_and_initial_conditions`, statement by statement -/
def rowSteps : List RowStep := [.copy, .updVars, .updPars, .call]

def cacheChecksKeys : Bool := true

def loadBeforeRun : Bool := true

def seqIsMap : Bool := true

def appendInOrder : Bool := true

def timeoutSkipsRow : Bool := true

/-- every scan worker turns a `ZeroDivisionError` of the simulator into a failed result (`guardZeroDiv`) -/
def workersCatchZeroDivision : Bool := true

/-- `Simulation.default` does not raise for a model that cannot be evaluated at its initial state -/
def placeholderSurvivesZeroDivision : Bool := true

def drivers : List Driver := [
  { module := "scan", name := "steady_state", table := "to_scan", container := .positional, workerY0None := true, y0OnModel := true, passesParallel := true, passesMaxWorkers := false, passesCache := true, passesTimeout := false },
  { module := "scan", name := "time_course", table := "to_scan", container := .byLabel, workerY0None := true, y0OnModel := true, passesParallel := true, passesMaxWorkers := false, passesCache := true, passesTimeout := false },
  { module := "scan", name := "protocol", table := "to_scan", container := .byLabel, workerY0None := true, y0OnModel := true, passesParallel := true, passesMaxWorkers := false, passesCache := true, passesTimeout := false },
  { module := "scan", name := "protocol_time_course", table := "to_scan", container := .byLabel, workerY0None := true, y0OnModel := true, passesParallel := true, passesMaxWorkers := false, passesCache := true, passesTimeout := false },
  { module := "mc", name := "steady_state", table := "mc_to_scan", container := .positional, workerY0None := true, y0OnModel := true, passesParallel := false, passesMaxWorkers := true, passesCache := true, passesTimeout := false },
  { module := "mc", name := "time_course", table := "mc_to_scan", container := .byLabel, workerY0None := true, y0OnModel := true, passesParallel := false, passesMaxWorkers := true, passesCache := true, passesTimeout := false },
  { module := "mc", name := "protocol", table := "mc_to_scan", container := .byLabel, workerY0None := true, y0OnModel := true, passesParallel := false, passesMaxWorkers := true, passesCache := true, passesTimeout := false },
  { module := "mc", name := "protocol_time_course", table := "mc_to_scan", container := .byLabel, workerY0None := true, y0OnModel := true, passesParallel := false, passesMaxWorkers := true, passesCache := true, passesTimeout := false },
  { module := "mc", name := "scan_steady_state", table := "mc_to_scan", container := .byLabel, workerY0None := true, y0OnModel := true, passesParallel := false, passesMaxWorkers := true, passesCache := true, passesTimeout := false },
  { module := "mc", name := "variable_elasticities", table := "mc_to_scan", container := .byLabel, workerY0None := true, y0OnModel := true, passesParallel := false, passesMaxWorkers := true, passesCache := true, passesTimeout := false },
  { module := "mc", name := "parameter_elasticities", table := "mc_to_scan", container := .byLabel, workerY0None := true, y0OnModel := true, passesParallel := false, passesMaxWorkers := true, passesCache := true, passesTimeout := false },
  { module := "mc", name := "response_coefficients", table := "mc_to_scan", container := .byLabel, workerY0None := true, y0OnModel := true, passesParallel := false, passesMaxWorkers := true, passesCache := true, passesTimeout := false }]

end Mxl.Generated.C09
