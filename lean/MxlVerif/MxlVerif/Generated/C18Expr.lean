-- GENERATED from src/mxlpy/mca.py by /verif/translate/c18.py; do not edit (rewritten on every run)

namespace Mxl.Generated.C18

/-- `old * (1 + displacement)` -/
def varUp (old d : Rat) : Rat := (old * ((1 : Rat) + d))

/-- `old * (1 - displacement)` -/
def varLo (old d : Rat) : Rat := (old * ((1 : Rat) - d))

/-- `(upper - lower) / (2 * displacement * old)` -/
def varQuot (upper lower d old : Rat) : Rat := ((upper - lower) / (((2 : Rat) * d) * old))

/-- the factor of `if normalized: elasticity_coef *= …` -/
def varScale (old base : Rat) : Rat := (old / base)

/-- `old * (1 + displacement)` -/
def parUp (old d : Rat) : Rat := (old * ((1 : Rat) + d))

/-- `old * (1 - displacement)` -/
def parLo (old d : Rat) : Rat := (old * ((1 : Rat) - d))

/-- `(upper - lower) / (2 * displacement * old)` -/
def parQuot (upper lower d old : Rat) : Rat := ((upper - lower) / (((2 : Rat) * d) * old))

def parScale (old base : Rat) : Rat := (old / base)

/-- both perturbations of `par` sit in a `try:` whose `finally:` does `model.update_parameters({par: old})` -/
def parFinallyResets : Bool := true

/-- `variables` is resolved once, before the first perturbation, and handed to every flux evaluation -/
def parStateResolvedOnce : Bool := true

/-- `old * (1 + displacement)` -/
def respUp (old d : Rat) : Rat := (old * ((1 : Rat) + d))

/-- `old * (1 - displacement)` -/
def respLo (old d : Rat) : Rat := (old * ((1 : Rat) - d))

/-- `(upper.variables.iloc[-1] - lower.variables.iloc[-1]) / (2 * displacement * old)` -/
def respQuot (upper lower d old : Rat) : Rat := ((upper - lower) / (((2 : Rat) * d) * old))

/-- `(upper.fluxes.iloc[-1] - lower.fluxes.iloc[-1]) / (2 * displacement * old)` -/
def respFluxQuot (upper lower d old : Rat) : Rat := ((upper - lower) / (((2 : Rat) * d) * old))

def respScale (old base : Rat) : Rat := (old / base)

def respFluxScale (old base : Rat) : Rat := (old / base)

/-- the perturbations sit in a `try:` whose `finally:` resets the parameter and, under `if y0 is not None`,
    gives the model its saved variables back -/
def respFinallyRestores : Bool := true

/-- `Model.update_variables` / `update_parameters` call `self._check_known_names(...)` (which raises and writes nothing)
    before the first `update_variable` / `update_parameter` -/
def updatesCheckNamesFirst : Bool := true

end Mxl.Generated.C18
