-- GENERATED from src/mxlpy/label_map.py by /verif/translate/c05.py; do not edit (rewritten on every run)
namespace Mxl.C05.Gen
/-- every mirrored function has one of the modelled statement shapes, no decorator; the dataclass has its three fields -/
def shapeOk : Bool := true
/-- `base + sep + bits` in `_generate_binary_labels`, `_assign_compound_labels` and the rate names -/
def sep : String := "__"
/-- `it.product(alphabet, repeat=n)`, the same tuple at both sites; iteration order = tuple order -/
def alphabet : List Char := ['0', '1']
/-- the character `_get_external_labels` repeats for positions beyond the substrates -/
def extChar : Char := '1'
/-- initial-label placement / position queries: requested position, other position -/
def oneChar : Char := '1'
def zeroChar : Char := '0'
def totalSuffix : String := "__total"
/-- rate arguments are replaced per occurrence (the j-th mention reads the j-th occurrence) rather than by one dict -/
def positionalArgs : Bool := true
end Mxl.C05.Gen
