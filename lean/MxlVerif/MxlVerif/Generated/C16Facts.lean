-- GENERATED from src/mxlpy/linear_label_map.py by /verif/translate/c16.py; do not edit (rewritten on every run)
namespace Mxl.C16.Gen
/-- every mirrored function has one of the modelled statement shapes, no decorator; the dataclass has its three fields -/
def shapeOk : Bool := true
/-- placeholder of the external pool (padding, parameter name, excluded from stoichiometries) -/
def ext : String := "EXT"
/-- `substrate.split(sep)[0]` recovers the pool name of a position variable `f'{compound}__{i}'` -/
def sep : String := "__"
/-- default of `external_label` -/
def extDefault : Nat := 1
/-- `build_model` reads a map through `_map_labelmap_to_substrates` (product i from substrate labelmap[i]) -/
def documentedDirection : Bool := true
end Mxl.C16.Gen
