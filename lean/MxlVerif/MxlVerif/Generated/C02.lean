-- GENERATED from src/mxlpy/model.py::_sort_dependencies by /verif/translate/c02.py; do not edit (rewritten on every run)
namespace Mxl.Generated.C02

/-- `max_iterations = len(elements) ** 2` -/
def maxIterations (n : Nat) : Nat := (n ^ 2)

end Mxl.Generated.C02
