/-
C14 helper lemmas: `make_protocol` on well-formed steps is the cumulative-sum table; insertion
sort commutes with filtering; the half-open selections of the outer join are the per-step
requested points.
-/
import MxlVerif.Model.C14
import MxlVerif.Lemmas.C04Hist
namespace Mxl.C14
open Mxl.C04

/-- cumulative-sum rows -/
def cumRows (T : Rat) : List PStep → Protocol
  | [] => []
  | (d, p) :: rest => (T + d, p) :: cumRows (T + d) rest

/-! ### `make_protocol` -/

theorem rowInsert_fresh (acc : Protocol) (t : Rat) (p : Upd) (h : ∀ r ∈ acc, r.1 ≠ t) :
    rowInsert acc t p = acc ++ [(t, p)] := by
  induction acc with
  | nil => rfl
  | cons r rest ih =>
    obtain ⟨t', p'⟩ := r
    have h1 : t' ≠ t := h (t', p') (by simp)
    have h2 : (t' == t) = false := by simpa using h1
    simp only [rowInsert, h2, Bool.false_eq_true, if_false, List.cons_append]
    rw [ih (fun r hr => h r (List.mem_cons_of_mem _ hr))]

theorem cumRows_gt (T : Rat) (steps : List PStep) (hpos : steps.all (fun s => decide (0 < s.1)) = true) :
    ∀ r ∈ cumRows T steps, T < r.1 := by
  induction steps generalizing T with
  | nil => intro r hr; simp [cumRows] at hr
  | cons s rest ih =>
    obtain ⟨d, p⟩ := s
    simp only [List.all_cons, Bool.and_eq_true, decide_eq_true_eq] at hpos
    intro r hr
    simp only [cumRows, List.mem_cons] at hr
    rcases hr with rfl | hr
    · show T < T + d; grind
    · have := ih (T + d) hpos.2 r hr
      grind

theorem makeRows_pos (T : Rat) (acc : Protocol) (steps : List PStep)
    (hpos : steps.all (fun s => decide (0 < s.1)) = true) (hacc : ∀ r ∈ acc, r.1 ≤ T) :
    makeRows T acc steps = acc ++ cumRows T steps := by
  induction steps generalizing T acc with
  | nil => simp [makeRows, cumRows]
  | cons s rest ih =>
    obtain ⟨d, p⟩ := s
    simp only [List.all_cons, Bool.and_eq_true, decide_eq_true_eq] at hpos
    simp only [makeRows, cumRows]
    rw [rowInsert_fresh acc (T + d) p (by intro r hr; have := hacc r hr; grind)]
    rw [ih (T + d) _ hpos.2]
    · simp
    · intro r hr
      rcases List.mem_append.mp hr with h | h
      · have := hacc r h; grind
      · simp at h; subst h; exact Rat.le_refl

theorem cumRows_pars (T : Rat) (steps : List PStep) :
    (cumRows T steps).map (·.2) = steps.map (·.2) := by
  induction steps generalizing T with
  | nil => rfl
  | cons s rest ih => obtain ⟨d, p⟩ := s; simp [cumRows, ih]

theorem nodupNames_iff (l : List Name) : nodupNames l = true ↔ l.Nodup := by
  induction l with
  | nil => simp [nodupNames]
  | cons k rest ih => simp [nodupNames, ih]

theorem columns_same (cols : List Name) (ps : List Upd) (h : ∀ p ∈ ps, p.map (·.1) = cols) :
    columns cols ps = cols := by
  induction ps with
  | nil => rfl
  | cons p rest ih =>
    simp only [columns]
    have hp := h p (by simp)
    have : (p.map (·.1)).filter (fun k => !cols.contains k) = [] := by
      rw [hp]; simp
    rw [this, List.append_nil]
    exact ih (fun q hq => h q (List.mem_cons_of_mem _ hq))

theorem filterMap_congr' {α β} (l : List α) (f g : α → Option β) (h : ∀ x ∈ l, f x = g x) :
    l.filterMap f = l.filterMap g := by
  induction l with
  | nil => rfl
  | cons x rest ih =>
    simp only [List.filterMap_cons, h x (by simp)]
    rw [ih (fun y hy => h y (List.mem_cons_of_mem _ hy))]

theorem rowDict_self (p : Upd) (h : (p.map (·.1)).Nodup) : rowDict (p.map (·.1)) p = p := by
  unfold rowDict
  induction p with
  | nil => rfl
  | cons kv rest ih =>
    obtain ⟨k, v⟩ := kv
    simp only [List.map_cons, List.nodup_cons] at h
    simp only [List.map_cons, List.filterMap_cons, List.lookup_cons_self, Option.map_some]
    congr 1
    refine (filterMap_congr' _ _ _ ?_).trans (ih h.2)
    intro k' hk'
    have hne : (k' == k) = false := by
      have : k' ≠ k := by intro e; subst e; exact h.1 hk'
      simpa using this
    simp [List.lookup, hne]

theorem cumRows_map (T : Rat) (steps : List PStep) (f : Upd → Upd) :
    (cumRows T steps).map (fun r => (r.1, f r.2)) = cumRows T (steps.map fun s => (s.1, f s.2)) := by
  induction steps generalizing T with
  | nil => rfl
  | cons s rest ih => obtain ⟨d, p⟩ := s; simp [cumRows, ih]

theorem normSteps_pos (steps : List PStep) (hpos : steps.all (fun s => decide (0 < s.1)) = true) :
    (normSteps steps).all (fun s => decide (0 < s.1)) = true := by
  simpa [normSteps, List.all_map, Function.comp_def] using hpos

theorem normSteps_isEmpty (steps : List PStep) : (normSteps steps).isEmpty = steps.isEmpty := by
  cases steps <;> simp [normSteps]

/-- with positive durations `make_protocol` is the table of cumulative end times; row `i` holds step `i`'s values
    in column order (`normSteps`): no row is lost, merged or reordered -/
theorem makeProtocol_wf (steps : List PStep) (hwf : wfSteps steps = true) :
    makeProtocol steps = cumRows 0 (normSteps steps) := by
  have hpos : steps.all (fun s => decide (0 < s.1)) = true := hwf
  unfold makeProtocol normSteps
  simp only
  rw [makeRows_pos 0 [] steps hpos (by simp), List.nil_append, cumRows_pars, cumRows_map]

/-- the documented form — every step names the same distinct parameters in the same order — is a fixed point of
    the table's normalisation: each row is the step's own dict -/
theorem normSteps_uniform (steps : List PStep) (huni : uniform steps = true) : normSteps steps = steps := by
  unfold normSteps
  cases steps with
  | nil => rfl
  | cons s rest =>
    obtain ⟨d, p⟩ := s
    simp only [uniform, Bool.and_eq_true, nodupNames_iff, List.all_eq_true, beq_iff_eq] at huni
    have hall : ∀ q ∈ ((d, p) :: rest).map (·.2), q.map (·.1) = p.map (·.1) := by
      intro q hq
      simp only [List.map_cons, List.mem_cons, List.mem_map] at hq
      rcases hq with rfl | ⟨s, hs, rfl⟩
      · rfl
      · exact huni.2 s hs
    have hcols : columns [] (((d, p) :: rest).map (·.2)) = p.map (·.1) := by
      simp only [List.map_cons, columns, List.nil_append]
      have : (p.map (·.1)).filter (fun k => !([] : List Name).contains k) = p.map (·.1) := by simp
      rw [this]
      exact columns_same _ _ (fun q hq => hall q (List.mem_cons_of_mem _ hq))
    simp only
    rw [hcols]
    have : ((d, p) :: rest).map (fun s => (s.1, rowDict (p.map (·.1)) s.2)) = ((d, p) :: rest).map id := by
      apply List.map_congr_left
      intro r hr
      have hk := hall r.2 (List.mem_map_of_mem hr)
      simp only [id]
      rw [← hk, rowDict_self r.2 (by rw [hk]; exact huni.1)]
    rw [this, List.map_id]

theorem rowDict_lookup (cols : List Name) (p : Upd) (k : Name) :
    (rowDict cols p).lookup k = if cols.contains k then p.lookup k else none := by
  unfold rowDict
  induction cols with
  | nil => simp
  | cons c rest ih =>
    simp only [List.filterMap_cons]
    cases hc : p.lookup c with
    | none =>
      simp only [Option.map_none, ih, List.contains_cons]
      by_cases hkc : k = c
      · subst hkc; simp [hc]
      · have : (k == c) = false := by simpa using hkc
        simp [this]
    | some v =>
      simp only [Option.map_some, List.lookup_cons, List.contains_cons]
      by_cases hkc : k = c
      · subst hkc; simp [hc]
      · have : (k == c) = false := by simpa using hkc
        simp only [this, Bool.false_or]
        exact ih

theorem columns_acc_sub (acc : List Name) (ps : List Upd) (k : Name) (hk : k ∈ acc) : k ∈ columns acc ps := by
  induction ps generalizing acc with
  | nil => exact hk
  | cons p rest ih => exact ih _ (List.mem_append_left _ hk)

theorem columns_mem (acc : List Name) (ps : List Upd) (p : Upd) (hp : p ∈ ps) (k : Name)
    (hk : k ∈ p.map (·.1)) : k ∈ columns acc ps := by
  induction ps generalizing acc with
  | nil => cases hp
  | cons q rest ih =>
    simp only [columns]
    rcases List.mem_cons.mp hp with rfl | h
    · apply columns_acc_sub
      by_cases hin : k ∈ acc
      · exact List.mem_append_left _ hin
      · apply List.mem_append_right
        simp only [List.mem_filter, Bool.not_eq_eq_eq_not, Bool.not_true]
        exact ⟨hk, by simpa using hin⟩
    · exact ih _ h

theorem columns_complete (steps : List PStep) (s : PStep) (hs : s ∈ steps) (k : Name)
    (hk : k ∈ s.2.map (·.1)) : (columns [] (steps.map (·.2))).contains k = true := by
  simp only [List.contains_iff_mem]
  exact columns_mem [] _ s.2 (List.mem_map_of_mem hs) k hk

theorem gen_protocolSkipsUnnamed : Gen.protocolSkipsUnnamed = true ∧ Gen.protocolTCSkipsUnnamed = true := ⟨rfl, rfl⟩

/-! ### the protocol loops are explicit calls -/

theorem handle_errors {σ} (s : Sim σ) (rows : List (Rat × σ)) (b : Bool) :
    (handle s rows b).errors = s.errors ∧ (handle s rows b).segs.isSome = true := ⟨rfl, rfl⟩

theorem simulate_ok {σ} (S : Sys σ) (s : Sim σ) (t : Rat) (n : Option Nat) (he : s.errors = 0) :
    (simulate S s t n).1.errors = 0 ∧
      ((simulate S s t n).2 = none → (simulate S s t n).1.segs.isSome = true) := by
  unfold simulate
  simp only [he, Nat.lt_irrefl, if_false, gt_iff_lt, gen_simulateChecksBeforeShift, if_true]
  cases reached? s.segs with
  | error e => exact ⟨he, by intro h; cases h⟩
  | ok prior =>
    simp only
    split
    · exact ⟨he, by intro h; cases h⟩
    · split
      · exact ⟨he, by intro h; cases h⟩
      · exact ⟨rfl, fun _ => rfl⟩

theorem timeCourse_ok {σ} (S : Sys σ) (s : Sim σ) (pts : List Rat) (he : s.errors = 0) :
    (timeCourse S s pts).1.errors = 0 ∧
      ((timeCourse S s pts).2 = none → (timeCourse S s pts).1.segs.isSome = true) := by
  unfold timeCourse
  simp only [he, Nat.lt_irrefl, if_false, gt_iff_lt, gen_timeCourseChecksBeforeShift, if_true]
  cases reached? s.segs with
  | error e => exact ⟨he, by intro h; cases h⟩
  | ok prior =>
    simp only
    cases pts.getLast? with
    | none => exact ⟨he, by intro h; cases h⟩
    | some last =>
      simp only
      split
      · exact ⟨he, by intro h; cases h⟩
      · split
        · exact ⟨he, by intro h; cases h⟩
        · exact ⟨rfl, fun _ => rfl⟩

theorem protoLoop_eq {σ} (S : Sys σ) (T : Rat) (n : Nat) : ∀ (steps : List PStep) (T0 : Rat) (s : Sim σ),
    s.errors = 0 →
    protoLoop S T (some n) s (cumRows T0 steps) = runStop S s (expandProtocol (T + T0) n steps)
  | [], _, _, _ => rfl
  | (d, p) :: rest, T0, s, he => by
    have e1 : T + (T0 + d) = T + T0 + d := by grind
    simp only [cumRows, protoLoop, expandProtocol, runStop, step, e1]
    have hu : (updPars s p).1.errors = 0 := he
    rcases hup : updPars s p with ⟨s1, _ | e⟩
    · rw [hup] at hu
      simp only
      have hs := simulate_ok S s1 (T + T0 + d) (some n) hu
      rcases hsim : simulate S s1 (T + T0 + d) (some n) with ⟨s2, _ | e⟩
      · rw [hsim] at hs
        have hsome : s2.segs.isNone = false := by
          have := hs.2 rfl
          cases hh : s2.segs <;> simp [hh] at this ⊢
        simp only [hsome, Bool.false_eq_true, if_false]
        have := protoLoop_eq S T n rest (T0 + d) s2 hs.1
        rw [this, e1]
      · rfl
    · rfl

/-! ### insertion sort and filtering -/

theorem mem_insertRat (x y : Rat) (l : List Rat) : y ∈ insertRat x l ↔ y = x ∨ y ∈ l := by
  induction l with
  | nil => simp [insertRat]
  | cons z zs ih =>
    simp only [insertRat]
    split
    · simp
    · simp only [List.mem_cons, ih]
      constructor
      · rintro (h | h | h) <;> simp [h]
      · rintro (h | h | h) <;> simp [h]

theorem insertRat_sorted (x : Rat) (l : List Rat) (h : l.Pairwise (· ≤ ·)) :
    (insertRat x l).Pairwise (· ≤ ·) := by
  induction l with
  | nil => simp [insertRat]
  | cons z zs ih =>
    have hz := List.pairwise_cons.mp h
    simp only [insertRat]
    split
    · rename_i hxz
      refine List.pairwise_cons.mpr ⟨?_, h⟩
      intro y hy
      rcases List.mem_cons.mp hy with rfl | hy
      · exact hxz
      · have := hz.1 y hy; grind
    · rename_i hxz
      refine List.pairwise_cons.mpr ⟨?_, ih hz.2⟩
      intro y hy
      rcases (mem_insertRat x y zs).mp hy with rfl | hy
      · grind
      · exact hz.1 y hy

theorem sortRat_sorted (l : List Rat) : (sortRat l).Pairwise (· ≤ ·) := by
  induction l with
  | nil => simp [sortRat]
  | cons x xs ih => exact insertRat_sorted x _ ih

theorem insertRat_of_le (x : Rat) (l : List Rat) (h : ∀ z ∈ l, x ≤ z) : insertRat x l = x :: l := by
  cases l with
  | nil => rfl
  | cons z zs => simp [insertRat, h z (by simp)]

theorem filter_insertRat (p : Rat → Bool) (x : Rat) (m : List Rat) (hm : m.Pairwise (· ≤ ·)) :
    (insertRat x m).filter p = if p x then insertRat x (m.filter p) else m.filter p := by
  induction m with
  | nil => cases hp : p x <;> simp [insertRat, hp]
  | cons y ys ih =>
    have hy := List.pairwise_cons.mp hm
    by_cases hxy : x ≤ y
    · simp only [insertRat, hxy, if_true]
      cases hp : p x
      · simp [List.filter_cons, hp]
      · have hle : ∀ z ∈ (y :: ys).filter p, x ≤ z := by
          intro z hz
          have hz' := (List.mem_filter.mp hz).1
          rcases List.mem_cons.mp hz' with rfl | h'
          · exact hxy
          · have := hy.1 z h'; grind
        rw [List.filter_cons_of_pos (by simpa using hp)]
        simp only [if_true]
        rw [insertRat_of_le x _ hle]
    · simp only [insertRat, hxy, if_false]
      rw [List.filter_cons, ih hy.2]
      cases hp : p x <;> cases hpy : p y <;> simp [List.filter_cons, hpy, insertRat, hxy]

theorem filter_sortRat (p : Rat → Bool) (l : List Rat) : (sortRat l).filter p = sortRat (l.filter p) := by
  induction l with
  | nil => rfl
  | cons x xs ih =>
    show (insertRat x (sortRat xs)).filter p = _
    rw [filter_insertRat p x _ (sortRat_sorted xs), ih]
    cases hp : p x <;> simp [List.filter_cons, hp, sortRat]

theorem filter_beq_of_nodup (l : List Rat) (a : Rat) (hnd : l.Nodup) (ha : a ∈ l) :
    l.filter (· == a) = [a] := by
  induction l with
  | nil => simp at ha
  | cons x xs ih =>
    have hx := List.nodup_cons.mp hnd
    by_cases hxa : x = a
    · subst hxa
      have : xs.filter (· == x) = [] := by
        rw [List.filter_eq_nil_iff]
        intro y hy
        have : y ≠ x := by intro e; subst e; exact hx.1 hy
        simpa using this
      simp [List.filter_cons, this]
    · have ha' : a ∈ xs := by
        rcases List.mem_cons.mp ha with h | h
        · exact absurd h.symm hxa
        · exact h
      have : (x == a) = false := by simpa using hxa
      simp [List.filter_cons, this, ih hx.2 ha']

/-- the selection with the comparison operators of the current source is the half-open `(lo, hi]` -/
theorem select_eq (full : List Rat) (lo hi : Rat) :
    select full lo hi = full.filter fun t => decide (lo < t) && decide (t ≤ hi) := rfl

@[simp] theorem gen_protocolTCRefusal (a b : Rat) : Gen.protocolTCRefusal.eval a b = decide (a ≤ b) := rfl

/-- the half-open selection `(lo, hi]` of the outer join is exactly what the step asks for: the
    requested points inside plus the boundary `hi` -/
theorem select_outerJoin (idx pts : List Rat) (lo hi : Rat) (hhi : hi ∈ idx) (hnd : idx.Nodup)
    (hlo : lo < hi) (honly : ∀ b ∈ idx, lo < b → b ≤ hi → b = hi) :
    select (outerJoin idx pts) lo hi = stepPoints pts lo hi := by
  rw [select_eq]
  unfold outerJoin stepPoints
  rw [filter_sortRat, List.filter_append]
  congr 2
  rw [List.filter_filter]
  have hfun : ∀ b ∈ idx, ((decide (lo < b) && decide (b ≤ hi)) && !pts.contains b)
      = ((b == hi) && !pts.contains hi) := by
    intro b hb
    by_cases hbh : b = hi
    · subst hbh
      have : decide (b ≤ b) = true := by simp [Rat.le_refl]
      simp [hlo, this]
    · have h1 : (b == hi) = false := by simpa using hbh
      have h2 : (decide (lo < b) && decide (b ≤ hi)) = false := by
        cases h3 : (decide (lo < b) && decide (b ≤ hi))
        · rfl
        · simp only [Bool.and_eq_true, decide_eq_true_eq] at h3
          exact absurd (honly b hb h3.1 h3.2) hbh
      simp [h1, h2]
  rw [List.filter_congr hfun]
  cases hc : pts.contains hi
  · simp only [Bool.not_false, Bool.and_true, Bool.false_eq_true, if_false]
    exact filter_beq_of_nodup idx hi hnd hhi
  · simp

theorem mem_sortRat (y : Rat) (l : List Rat) : y ∈ sortRat l ↔ y ∈ l := by
  induction l with
  | nil => simp [sortRat]
  | cons x xs ih =>
    show y ∈ insertRat x (sortRat xs) ↔ _
    rw [mem_insertRat, ih]; simp

theorem sorted_getLast (m : List Rat) (hi : Rat) (hs : m.Pairwise (· ≤ ·)) (hmem : hi ∈ m)
    (hmax : ∀ x ∈ m, x ≤ hi) : m.getLast? = some hi := by
  induction m with
  | nil => simp at hmem
  | cons x rest ih =>
    cases rest with
    | nil => simp at hmem; simp [hmem]
    | cons y ys =>
      rw [List.getLast?_cons_cons]
      have hp := List.pairwise_cons.mp hs
      apply ih hp.2 _ (fun z hz => hmax z (List.mem_cons_of_mem _ hz))
      rcases List.mem_cons.mp hmem with h | h
      · have h1 := hp.1 y (by simp)
        have h2 := hmax y (by simp)
        have : y = hi := by grind
        rw [this]; simp
      · exact h

/-- the largest element of a list ends up last -/
theorem sortRat_getLast (l : List Rat) (hi : Rat) (hmem : hi ∈ l) (hmax : ∀ x ∈ l, x ≤ hi) :
    (sortRat l).getLast? = some hi :=
  sorted_getLast _ hi (sortRat_sorted l) ((mem_sortRat hi l).mpr hmem)
    (fun x hx => hmax x ((mem_sortRat x l).mp hx))

/-! ### what a step of the time-course form asks for -/

theorem mem_stepPoints (pts : List Rat) (lo hi t : Rat) (hlo : lo < hi) :
    t ∈ stepPoints pts lo hi ↔ (t ∈ pts ∧ lo < t ∧ t ≤ hi) ∨ t = hi := by
  unfold stepPoints
  rw [mem_sortRat, List.mem_append, List.mem_filter]
  constructor
  · rintro (⟨h1, h2⟩ | h)
    · left
      simp only [Bool.and_eq_true, decide_eq_true_eq] at h2
      exact ⟨h1, h2⟩
    · right
      split at h
      · simp at h
      · simpa using h
  · rintro (⟨h1, h2, h3⟩ | h)
    · left; exact ⟨h1, by simp [h2, h3]⟩
    · subst h
      by_cases hc : pts.contains t = true
      · left
        have : t ∈ pts := by simpa using hc
        exact ⟨this, by simp [hlo, Rat.le_refl]⟩
      · right
        have hnm : t ∉ pts := by simpa using hc
        simp [hnm]

theorem stepPoints_getLast (pts : List Rat) (lo hi : Rat) (hlo : lo < hi) :
    (stepPoints pts lo hi).getLast? = some hi := by
  have hm : ∀ t, t ∈ (pts.filter fun t => decide (lo < t) && decide (t ≤ hi)) ++ (if pts.contains hi then [] else [hi])
      ↔ ((t ∈ pts ∧ lo < t ∧ t ≤ hi) ∨ t = hi) := by
    intro t
    have := mem_stepPoints pts lo hi t hlo
    unfold stepPoints at this
    rw [mem_sortRat] at this
    exact this
  unfold stepPoints
  apply sortRat_getLast
  · exact (hm hi).mpr (Or.inr rfl)
  · intro x hx
    rcases (hm x).mp hx with ⟨_, _, h⟩ | h
    · exact h
    · rw [h]; exact Rat.le_refl

theorem stepPoints_sorted (pts : List Rat) (lo hi : Rat) : (stepPoints pts lo hi).Pairwise (· ≤ ·) :=
  sortRat_sorted _

/-! ### the time-course loop -/

theorem cumRows_shift (T0 T : Rat) (steps : List PStep) :
    (cumRows T0 steps).map (fun r => (r.1 + T, r.2)) = cumRows (T0 + T) steps := by
  induction steps generalizing T0 with
  | nil => rfl
  | cons s rest ih =>
    obtain ⟨d, p⟩ := s
    simp only [cumRows, List.map_cons]
    have e : T0 + d + T = T0 + T + d := by grind
    rw [ih (T0 + d), e]

theorem cumRows_pairwise (T : Rat) (steps : List PStep)
    (hpos : steps.all (fun s => decide (0 < s.1)) = true) :
    ((cumRows T steps).map (·.1)).Pairwise (· < ·) := by
  induction steps generalizing T with
  | nil => simp [cumRows]
  | cons s rest ih =>
    obtain ⟨d, p⟩ := s
    have hpos' := hpos
    simp only [List.all_cons, Bool.and_eq_true, decide_eq_true_eq] at hpos'
    simp only [cumRows, List.map_cons]
    refine List.pairwise_cons.mpr ⟨?_, ih (T + d) hpos'.2⟩
    intro b hb
    obtain ⟨r, hr, rfl⟩ := List.mem_map.mp hb
    exact cumRows_gt (T + d) rest hpos'.2 r hr

theorem ptcLoop_eq {σ} (S : Sys σ) (pts idx : List Rat) (hnd : idx.Nodup) :
    ∀ (steps : List PStep) (T : Rat) (s : Sim σ) (pre : List Rat),
    s.errors = 0 → steps.all (fun s => decide (0 < s.1)) = true →
    idx = pre ++ (cumRows T steps).map (·.1) → (∀ b ∈ pre, b ≤ T) →
    ptcLoop S (outerJoin idx pts) T s (cumRows T steps) = runStop S s (expandProtocolTC pts T steps)
  | [], _, _, _, _, _, _, _ => rfl
  | (d, p) :: rest, T, s, pre, he, hpos, hidx, hpre => by
    have hpos' := hpos
    simp only [List.all_cons, Bool.and_eq_true, decide_eq_true_eq] at hpos'
    have hsel : select (outerJoin idx pts) T (T + d) = stepPoints pts T (T + d) := by
      apply select_outerJoin idx pts T (T + d) _ hnd (by grind)
      · intro b hb h1 h2
        rw [hidx] at hb
        simp only [cumRows, List.map_cons, List.mem_append, List.mem_cons] at hb
        rcases hb with h | h | h
        · have := hpre b h; grind
        · exact h
        · obtain ⟨r, hr, rfl⟩ := List.mem_map.mp h
          have := cumRows_gt (T + d) rest hpos'.2 r hr
          grind
      · rw [hidx]; simp [cumRows]
    simp only [cumRows, ptcLoop, expandProtocolTC, runStop, step, hsel]
    have hu : (updPars s p).1.errors = 0 := he
    rcases hup : updPars s p with ⟨s1, _ | e⟩
    · rw [hup] at hu
      simp only
      have hs := timeCourse_ok S s1 (stepPoints pts T (T + d)) hu
      rcases htc : timeCourse S s1 (stepPoints pts T (T + d)) with ⟨s2, _ | e⟩
      · rw [htc] at hs
        have hsome : s2.segs.isNone = false := by
          have := hs.2 rfl
          cases hh : s2.segs <;> simp [hh] at this ⊢
        simp only [hsome, Bool.false_eq_true, if_false]
        exact ptcLoop_eq S pts idx hnd rest (T + d) s2 (pre ++ [T + d]) hs.1 hpos'.2
          (by rw [hidx]; simp [cumRows])
          (by
            intro b hb
            rcases List.mem_append.mp hb with h | h
            · have := hpre b h; grind
            · simp at h; subst h; exact Rat.le_refl)
      · rfl
    · rfl

theorem simulateProtocol_eq {σ} (S : Sys σ) (s : Sim σ) (steps : List PStep) (n : Nat) (T : Rat)
    (hwf : wfSteps steps = true) (he : s.errors = 0) (hT : reached? s.segs = .ok T) :
    simulateProtocol S s (makeProtocol steps) n = runStop S s (expandProtocol T n (normSteps steps)) := by
  unfold simulateProtocol
  simp only [he, Nat.lt_irrefl, if_false, gt_iff_lt, hT, makeProtocol_wf steps hwf]
  rw [protoLoop_eq S T n (normSteps steps) 0 s he]
  have : T + 0 = T := by grind
  rw [this]

theorem cumRows_isEmpty (T : Rat) (steps : List PStep) : (cumRows T steps).isEmpty = steps.isEmpty := by
  cases steps with
  | nil => rfl
  | cons s rest => obtain ⟨d, p⟩ := s; rfl

theorem simulateProtocolTC_eq {σ} (S : Sys σ) (s : Sim σ) (steps : List PStep) (pts : List Rat)
    (rel : Bool) (T : Rat) (hwf : wfSteps steps = true) (he : s.errors = 0)
    (hT : reached? s.segs = .ok T) :
    simulateProtocolTC S s (makeProtocol steps) pts rel =
      (if steps.isEmpty then (s, some .typeError) else
       match (if rel then pts.map (· + T) else pts).getLast? with
       | none => (s, some .indexError)
       | some last =>
         if last ≤ T then (s, some .valueError) else
         runStop S s (expandProtocolTC (if rel then pts.map (· + T) else pts) T (normSteps steps))) := by
  have hpos : (normSteps steps).all (fun s => decide (0 < s.1)) = true := normSteps_pos steps hwf
  unfold simulateProtocolTC
  simp only [he, Nat.lt_irrefl, if_false, gt_iff_lt, hT, makeProtocol_wf steps hwf, gen_protocolTCRefusal,
    decide_eq_true_eq, cumRows_isEmpty, normSteps_isEmpty]
  split
  · rfl
  · rename_i hemp
    have hshift : (cumRows 0 (normSteps steps)).map (fun r => (r.1 + T, r.2)) = cumRows T (normSteps steps) := by
      rw [cumRows_shift]
      have : (0 : Rat) + T = T := by grind
      rw [this]
    rw [hshift]
    cases (if rel then pts.map (· + T) else pts).getLast? with
    | none => rfl
    | some last =>
      simp only
      split
      · rfl
      · have hemp' : (normSteps steps).isEmpty = false := by rw [normSteps_isEmpty]; simpa using hemp
        generalize normSteps steps = ns at hpos hemp'
        cases ns with
        | nil => simp at hemp'
        | cons st rest =>
          have hne : (cumRows T (st :: rest)).getLast? ≠ none := by
            obtain ⟨d, p⟩ := st
            simp [cumRows]
          cases hgl : (cumRows T (st :: rest)).getLast? with
          | none => exact absurd hgl hne
          | some r =>
            simp only
            exact ptcLoop_eq S _ _ ((cumRows_pairwise T (st :: rest) hpos).imp (by intro a b hab; grind))
              (st :: rest) T s [] he hpos (by simp) (by intro b hb; simp at hb)

end Mxl.C14
