/-
C03 — "a freshly built model with the same content" as an actual history: the `add_*` calls of `rebuild` on an empty
model are all accepted and end with exactly the given content (and the stated signatures of its functions).
-/
import MxlVerif.Lemmas.C03Det
namespace Mxl.C03
open Mxl

/-- what `stepS` records for one accepted call -/
def recSigs (fn : List Name) (given T : List (Name × Gen.Sig)) : List (Name × Gen.Sig) :=
  (given.filter fun g => fn.contains g.1).foldl (fun m g => omInsert m g.1 g.2) T

theorem stepS_ok {s : State} {op : Op} (given) (h : (step s op).2 = .ok ()) :
    (stepS s op given).2 = .ok () ∧ (stepS s op given).1.content = (step s op).1.content ∧
    (stepS s op given).1.sigs = recSigs op.fnNames given s.sigs := by
  unfold stepS recSigs
  simp only [h, step_sigs]
  exact ⟨trivial, trivial, trivial⟩

/-- one more name recorded (or not, when it was never stated) -/
def sigStep (σ : List (Name × Gen.Sig)) (n : Name) (T : List (Name × Gen.Sig)) : List (Name × Gen.Sig) :=
  match σ.lookup n with
  | some g => omInsert T n g
  | none => T

def sigFold (σ : List (Name × Gen.Sig)) (names : List Name) (T : List (Name × Gen.Sig)) : List (Name × Gen.Sig) :=
  names.foldl (fun T n => sigStep σ n T) T

theorem recSigs_givenFor (σ) (n : Name) (T) : recSigs [n] (givenFor σ n) T = sigStep σ n T := by
  unfold recSigs givenFor sigStep
  cases σ.lookup n with
  | none => rfl
  | some g => simp

theorem recSigs_nil (fn) (T) : recSigs fn [] T = T := rfl

theorem lookup_sigFold (σ) (names : List Name) : ∀ (T : List (Name × Gen.Sig)) (x : Name),
    (sigFold σ names T).lookup x
      = if x ∈ names then (match σ.lookup x with | some g => some g | none => T.lookup x) else T.lookup x := by
  induction names with
  | nil => intro T x; simp [sigFold]
  | cons n rest ih =>
    intro T x
    have hf : sigFold σ (n :: rest) T = sigFold σ rest (sigStep σ n T) := rfl
    rw [hf, ih]
    by_cases hxn : x = n
    · subst hxn
      simp only [List.mem_cons, true_or, if_true]
      unfold sigStep
      cases hσ : σ.lookup x with
      | none => simp
      | some g => simp [lookup_omInsert_self]
    · have hl : (sigStep σ n T).lookup x = T.lookup x := by
        unfold sigStep
        cases σ.lookup n with
        | none => rfl
        | some g => exact lookup_omInsert_ne T g hxn
      simp only [List.mem_cons, hxn, false_or, hl]

theorem sigFold_append (σ) (a b : List Name) (T) : sigFold σ (a ++ b) T = sigFold σ b (sigFold σ a T) := by
  simp [sigFold, List.foldl_append]

/-! ### one accepted add -/

theorem not_mem_ids_of_cc {s : State} (hs : Exact s) {n : Name} (h0 : cc s n = 0) : n ∉ omKeys s.ids := by
  intro hm
  have := List.count_pos_iff.mpr hm
  have := hs.1 n
  unfold idc at *
  omega

theorem addG_ok_content {β} {m} (hm : Gen.idOrder m = .idFirst) {L : Lens β} (hL : LensLaw L) (k n) (v : β)
    {s : State} (hs : Exact s) (h1 : n ≠ "time") (h0 : cc s n = 0) :
    (addG m L k n v (inval m s)).2 = .ok () ∧
    (addG m L k n v (inval m s)).1.content = L.set s.content (L.get s.content ++ [(n, v)]) := by
  have h2 : n ∉ omKeys (inval m s).ids := by rw [inval_ids]; exact not_mem_ids_of_cc hs h0
  have h3 : n ∉ omKeys (L.get s.content) := by
    intro hm2
    have := List.count_pos_iff.mpr hm2
    have := hL.sub s.content n
    unfold cc at h0
    omega
  rw [addG_closed hm]
  simp only [h1, h2, if_false, inval_content, omInsert_of_not_mem v h3]
  exact ⟨trivial, trivial⟩

theorem addSurrogate_ok_content (n su) {s : State} (hs : Exact s)
    (hfresh : ∀ x ∈ n :: su.outs, x ≠ "time" ∧ cc s x = 0) (hnd : (n :: su.outs).Nodup) :
    (addSurrogate n su s).2 = .ok () ∧
    (addSurrogate n su s).1.content = setSurs s.content (s.content.surs ++ [(n, su)]) := by
  have hsame := inval_same .add_surrogate s
  have hs0 := exact_of_same hsame hs
  have hc0 : (inval .add_surrogate s).content = s.content := inval_content _ _
  unfold addSurrogate
  simp only [table_add_surrogate_checks, if_true]
  generalize hS : inval Gen.Mut.add_surrogate s = s0 at *
  have hfr : ∀ x ∈ n :: su.outs, x ≠ "time" ∧ x ∉ omKeys s0.ids := by
    intro x hx
    refine ⟨(hfresh x hx).1, not_mem_ids_of_cc hs0 ?_⟩
    unfold cc at *
    rw [hc0]
    exact (hfresh x hx).2
  have hc : checkNewIds (omKeys s0.ids) (n :: su.outs) = .ok () := (checkNewIds_ok_iff _ _).mpr ⟨hfr, hnd⟩
  rw [hc]
  simp only
  obtain ⟨s', h1, h2, _⟩ := insertId_insertIds_spec (ctxOf .add_surrogate 0) (ctxOf .add_surrogate 1)
    n su.outs s0 hfr hnd
  have hexp : andThen (insertId n (ctxOf .add_surrogate 0) s0)
      (fun s => andThen (insertIds (ctxOf .add_surrogate 1) su.outs s) (putSur n su))
      = andThen (andThen (insertId n (ctxOf .add_surrogate 0) s0) (insertIds (ctxOf .add_surrogate 1) su.outs))
          (putSur n su) := by
    rw [andThen_assoc]
  rw [hexp, h1]
  simp only [andThen, putSur, ok]
  have hn_surs : n ∉ omKeys s0.content.surs := by
    intro hm
    have h4 := List.count_pos_iff.mpr hm
    have h5 := keys_surs_le s0 n
    have h6 := (hfresh n (by simp)).2
    unfold cc at *
    rw [hc0] at h4 h5
    omega
  refine ⟨trivial, ?_⟩
  rw [h2, omInsert_of_not_mem su hn_surs, hc0]

/-! ### phases -/

theorem stepH_exact (o : HOp) {s : State} (hs : Exact s) : Exact (stepH s o) := by
  cases o with
  | edit op given => exact exact_of_same (stepS_same s op given) (step_exact s op hs)
  | ask q => exact exact_of_same (query_same s q) hs
  | fork => exact hs

theorem run_cons (s : State) (o : HOp) (rest : List HOp) : run s (o :: rest) = run (stepH s o) rest := rfl

theorem add_step {β} {m} (hm : Gen.idOrder m = .idFirst) {L : Lens β} (hL : LensLaw L) (k) (op : Op) (n : Name)
    (v : β) (given) (hop : ∀ s, step s op = addG m L k n v (inval m s)) {s : State} (hs : Exact s)
    (h1 : n ≠ "time") (h0 : cc s n = 0) :
    (stepH s (.edit op given)).content = L.set s.content (L.get s.content ++ [(n, v)]) ∧
    (stepH s (.edit op given)).sigs = recSigs op.fnNames given s.sigs := by
  obtain ⟨hok, hc⟩ := addG_ok_content hm hL k n v hs h1 h0
  rw [← hop s] at hok hc
  obtain ⟨_, c2, g2⟩ := stepS_ok given hok
  exact ⟨c2.trans hc, g2⟩

theorem lens_phase {β} {L : Lens β} (hL : LensLaw L)
    (hss : ∀ c x y, L.set (L.set c x) y = L.set c y) (hsg : ∀ c, L.set c (L.get c) = c)
    (σ : List (Name × Gen.Sig)) (fn : Bool) (mkH : Name × β → HOp)
    (hstep : ∀ kv s, Exact s → kv.1 ≠ "time" → cc s kv.1 = 0 →
      (stepH s (mkH kv)).content = L.set s.content (L.get s.content ++ [kv]) ∧
      (stepH s (mkH kv)).sigs = (if fn then sigStep σ kv.1 s.sigs else s.sigs))
    (l : List (Name × β)) : ∀ s, Exact s → (∀ kv ∈ l, kv.1 ≠ "time") →
      (∀ a, cc s a + (omKeys l).count a ≤ 1) →
      Exact (run s (l.map mkH)) ∧
      (run s (l.map mkH)).content = L.set s.content (L.get s.content ++ l) ∧
      (run s (l.map mkH)).sigs = sigFold σ (if fn then omKeys l else []) s.sigs := by
  induction l with
  | nil =>
    intro s hs _ _
    refine ⟨hs, ?_, ?_⟩
    · simp [run, hsg]
    · cases fn <;> rfl
  | cons kv rest ih =>
    intro s hs ht hcount
    have h0 : cc s kv.1 = 0 := by
      have := hcount kv.1
      simp only [omKeys_cons, List.count_cons_self] at this
      omega
    have h1 := ht kv (by simp)
    obtain ⟨hc1, hg1⟩ := hstep kv s hs h1 h0
    have hs1 : Exact (stepH s (mkH kv)) := stepH_exact _ hs
    have hcc : ∀ a, cc (stepH s (mkH kv)) a = cc s a + [kv.1].count a := by
      intro a
      unfold cc
      rw [hc1]
      have hn := hL.names s.content (L.get s.content ++ [kv]) a
      simp only [omKeys_append, omKeys_cons, omKeys_nil, List.count_append] at hn
      omega
    have hcount1 : ∀ a, cc (stepH s (mkH kv)) a + (omKeys rest).count a ≤ 1 := by
      intro a
      have := hcount a
      rw [hcc a]
      simp only [omKeys_cons, List.count_cons, List.count_nil] at this ⊢
      omega
    obtain ⟨e1, e2, e3⟩ := ih _ hs1 (fun kv' h => ht kv' (by simp [h])) hcount1
    simp only [List.map_cons, run_cons]
    refine ⟨e1, ?_, ?_⟩
    · rw [e2, hc1, hL.get_set, hss, List.append_assoc]
      rfl
    · rw [e3, hg1]
      cases fn <;> rfl

def surNames (l : List (Name × Sur)) : List Name := l.flatMap fun kv => kv.1 :: kv.2.outs

theorem count_surNames (l : List (Name × Sur)) (a : Name) :
    (surNames l).count a = (omKeys l).count a + (l.flatMap fun kv => kv.2.outs).count a := by
  induction l with
  | nil => rfl
  | cons kv rest ih =>
    simp only [surNames, List.flatMap_cons, List.count_append, omKeys_cons, List.count_cons] at ih ⊢
    omega

def mkSur (kv : Name × Sur) : HOp := .edit (.add_surrogate kv.1 kv.2) []

theorem surs_phase (l : List (Name × Sur)) : ∀ s, Exact s → (∀ x ∈ surNames l, x ≠ "time") →
      (∀ a, cc s a + (surNames l).count a ≤ 1) →
      Exact (run s (l.map mkSur)) ∧
      (run s (l.map mkSur)).content = setSurs s.content (s.content.surs ++ l) ∧
      (run s (l.map mkSur)).sigs = s.sigs := by
  induction l with
  | nil =>
    intro s hs _ _
    refine ⟨hs, ?_, rfl⟩
    simp [run, setSurs]
  | cons kv rest ih =>
    intro s hs ht hcount
    obtain ⟨n, su⟩ := kv
    have hsn : surNames ((n, su) :: rest) = (n :: su.outs) ++ surNames rest := by
      simp [surNames]
    have hfresh : ∀ x ∈ n :: su.outs, x ≠ "time" ∧ cc s x = 0 := by
      intro x hx
      refine ⟨ht x (by rw [hsn]; exact List.mem_append_left _ hx), ?_⟩
      have := hcount x
      rw [hsn, List.count_append] at this
      have := List.count_pos_iff.mpr hx
      omega
    have hnd : (n :: su.outs).Nodup := by
      rw [List.nodup_iff_count]
      intro a
      have := hcount a
      rw [hsn, List.count_append] at this
      omega
    obtain ⟨hok, hc⟩ := addSurrogate_ok_content n su hs hfresh hnd
    obtain ⟨_, c2, g2⟩ := stepS_ok (s := s) (op := .add_surrogate n su) [] hok
    have hc1 : (stepH s (mkSur (n, su))).content = setSurs s.content (s.content.surs ++ [(n, su)]) := c2.trans hc
    have hg1 : (stepH s (mkSur (n, su))).sigs = s.sigs := g2
    have hs1 : Exact (stepH s (mkSur (n, su))) := stepH_exact _ hs
    have hcc : ∀ a, cc (stepH s (mkSur (n, su))) a = cc s a + (n :: su.outs).count a := by
      intro a
      unfold cc
      rw [hc1]
      have h4 := names_surs s.content (s.content.surs ++ [(n, su)]) a
      have h5 : (surOuts s.content).count a = (s.content.surs.flatMap (fun kv => kv.2.outs)).count a := rfl
      simp only [omKeys_append, omKeys_cons, omKeys_nil, List.flatMap_append, List.flatMap_cons,
        List.flatMap_nil, List.append_nil, List.count_append, List.count_cons, List.count_nil] at h4 ⊢
      omega
    have hcount1 : ∀ a, cc (stepH s (mkSur (n, su))) a + (surNames rest).count a ≤ 1 := by
      intro a
      have := hcount a
      rw [hsn, List.count_append] at this
      rw [hcc a]
      omega
    obtain ⟨e1, e2, e3⟩ := ih _ hs1 (fun x hx => ht x (by rw [hsn]; exact List.mem_append_right _ hx)) hcount1
    simp only [List.map_cons, run_cons]
    refine ⟨e1, ?_, e3.trans hg1⟩
    rw [e2, hc1]
    simp [setSurs, List.append_assoc]

/-! ### all seven containers -/

/-- the names whose component carries a function object that `add_*` records a signature for -/
def fnKeys (c : Content) : List Name :=
  omKeys c.vars ++ omKeys c.pars ++ omKeys c.derived ++ omKeys c.rxns ++ omKeys c.readouts

theorem keys_ne_time {β} (l : List (Name × β)) (h : (omKeys l).count "time" = 0) : ∀ kv ∈ l, kv.1 ≠ "time" := by
  intro kv hkv e
  have hm : "time" ∈ omKeys l := by
    rw [← e]
    unfold omKeys
    exact List.mem_map_of_mem hkv
  have := List.count_pos_iff.mpr hm
  omega

theorem rebuild_spec {s : State} (hs : Exact s) :
    Exact (freshState s) ∧ (freshState s).content = s.content ∧
    (freshState s).sigs = sigFold s.sigs (fnKeys s.content) [] := by
  obtain ⟨he, hle, ht⟩ := hs
  generalize hσ : s.sigs = σ
  generalize hcd : s.content = c at *
  have G : ∀ a, (contentNames c).count a ≤ 1 := by
    intro a
    have h1 := he a
    have h2 := hle a
    unfold idc cc at *
    rw [hcd] at h1
    omega
  have T0 : (contentNames c).count "time" = 0 := by
    have h1 := he "time"
    unfold idc cc at *
    rw [hcd] at h1
    omega
  simp only [contentNames, surOuts, List.count_append] at G T0
  have hso : ∀ a, (surNames c.surs).count a
      = (omKeys c.surs).count a + (c.surs.flatMap fun kv => kv.2.outs).count a := count_surNames c.surs
  unfold freshState
  rw [hσ, hcd]
  unfold rebuild
  simp only [run_append]
  -- data
  obtain ⟨x1, c1, g1⟩ := lens_phase dataL_law (fun _ _ _ => rfl) (fun _ => rfl) σ false
    (fun kv => HOp.edit (.add_data kv.1 kv.2) [])
    (fun kv s hs h1 h0 => by
      have := add_step (table_add_order .add_data (by simp)) dataL_law (ctxOf .add_data 0) (.add_data kv.1 kv.2)
        kv.1 kv.2 [] (fun _ => rfl) hs h1 h0
      simpa [recSigs_nil] using this)
    c.data init exact_init (keys_ne_time _ (by omega))
    (fun a => by have := G a; simp [cc, init, contentNames, surOuts]; omega)
  generalize run init (List.map (fun kv => HOp.edit (Op.add_data kv.1 kv.2) []) c.data) = s1 at x1 c1 g1 ⊢
  have c1' : s1.content = { data := c.data } := by rw [c1]; simp [init, dataL]
  have g1' : s1.sigs = [] := by rw [g1]; rfl
  -- variables
  obtain ⟨x2, c2, g2⟩ := lens_phase varsL_law (fun _ _ _ => rfl) (fun _ => rfl) σ true
    (fun kv => HOp.edit (.add_variable kv.1 kv.2) (givenFor σ kv.1))
    (fun kv s hs h1 h0 => by
      have := add_step (table_add_order .add_variable (by simp)) varsL_law (ctxOf .add_variable 0)
        (.add_variable kv.1 kv.2) kv.1 kv.2 (givenFor σ kv.1) (fun _ => rfl) hs h1 h0
      simpa [Op.fnNames, recSigs_givenFor] using this)
    c.vars s1 x1 (keys_ne_time _ (by omega))
    (fun a => by have := G a; simp [cc, c1', contentNames, surOuts]; omega)
  generalize run s1 (List.map (fun kv => HOp.edit (Op.add_variable kv.1 kv.2) (givenFor σ kv.1)) c.vars) = s2
    at x2 c2 g2 ⊢
  have c2' : s2.content = { data := c.data, vars := c.vars } := by rw [c2, c1']; simp [varsL]
  -- parameters
  obtain ⟨x3, c3, g3⟩ := lens_phase parsL_law (fun _ _ _ => rfl) (fun _ => rfl) σ true
    (fun kv => HOp.edit (.add_parameter kv.1 kv.2) (givenFor σ kv.1))
    (fun kv s hs h1 h0 => by
      have := add_step (table_add_order .add_parameter (by simp)) parsL_law (ctxOf .add_parameter 0)
        (.add_parameter kv.1 kv.2) kv.1 kv.2 (givenFor σ kv.1) (fun _ => rfl) hs h1 h0
      simpa [Op.fnNames, recSigs_givenFor] using this)
    c.pars s2 x2 (keys_ne_time _ (by omega))
    (fun a => by have := G a; simp [cc, c2', contentNames, surOuts, List.count_append]; omega)
  generalize run s2 (List.map (fun kv => HOp.edit (Op.add_parameter kv.1 kv.2) (givenFor σ kv.1)) c.pars) = s3
    at x3 c3 g3 ⊢
  have c3' : s3.content = { data := c.data, vars := c.vars, pars := c.pars } := by rw [c3, c2']; simp [parsL]
  -- derived
  obtain ⟨x4, c4, g4⟩ := lens_phase derivedL_law (fun _ _ _ => rfl) (fun _ => rfl) σ true
    (fun kv => HOp.edit (.add_derived kv.1 kv.2) (givenFor σ kv.1))
    (fun kv s hs h1 h0 => by
      have := add_step (table_add_order .add_derived (by simp)) derivedL_law (ctxOf .add_derived 0)
        (.add_derived kv.1 kv.2) kv.1 kv.2 (givenFor σ kv.1) (fun _ => rfl) hs h1 h0
      simpa [Op.fnNames, recSigs_givenFor] using this)
    c.derived s3 x3 (keys_ne_time _ (by omega))
    (fun a => by have := G a; simp [cc, c3', contentNames, surOuts, List.count_append]; omega)
  generalize run s3 (List.map (fun kv => HOp.edit (Op.add_derived kv.1 kv.2) (givenFor σ kv.1)) c.derived) = s4
    at x4 c4 g4 ⊢
  have c4' : s4.content = { data := c.data, vars := c.vars, pars := c.pars, derived := c.derived } := by
    rw [c4, c3']; simp [derivedL]
  -- reactions
  obtain ⟨x5, c5, g5⟩ := lens_phase rxnsL_law (fun _ _ _ => rfl) (fun _ => rfl) σ true
    (fun kv => HOp.edit (.add_reaction kv.1 kv.2) (givenFor σ kv.1))
    (fun kv s hs h1 h0 => by
      have := add_step (table_add_order .add_reaction (by simp)) rxnsL_law (ctxOf .add_reaction 0)
        (.add_reaction kv.1 kv.2) kv.1 kv.2 (givenFor σ kv.1) (fun _ => rfl) hs h1 h0
      simpa [Op.fnNames, recSigs_givenFor] using this)
    c.rxns s4 x4 (keys_ne_time _ (by omega))
    (fun a => by have := G a; simp [cc, c4', contentNames, surOuts, List.count_append]; omega)
  generalize run s4 (List.map (fun kv => HOp.edit (Op.add_reaction kv.1 kv.2) (givenFor σ kv.1)) c.rxns) = s5
    at x5 c5 g5 ⊢
  have c5' : s5.content = { data := c.data, vars := c.vars, pars := c.pars, derived := c.derived, rxns := c.rxns } := by
    rw [c5, c4']; simp [rxnsL]
  -- surrogates
  obtain ⟨x6, c6, g6⟩ := surs_phase c.surs s5 x5
    (fun x hx e => by
      have := List.count_pos_iff.mpr hx
      rw [e, hso] at this
      omega)
    (fun a => by have := G a; rw [hso]; simp [cc, c5', contentNames, surOuts, List.count_append]; omega)
  have hm : (List.map (fun kv => HOp.edit (Op.add_surrogate kv.1 kv.2) []) c.surs) = c.surs.map mkSur := rfl
  rw [hm]
  generalize run s5 (c.surs.map mkSur) = s6 at x6 c6 g6 ⊢
  have c6' : s6.content =
      { data := c.data, vars := c.vars, pars := c.pars, derived := c.derived, rxns := c.rxns, surs := c.surs } := by
    rw [c6, c5']; simp [setSurs]
  -- readouts
  obtain ⟨x7, c7, g7⟩ := lens_phase readoutsL_law (fun _ _ _ => rfl) (fun _ => rfl) σ true
    (fun kv => HOp.edit (.add_readout kv.1 kv.2) (givenFor σ kv.1))
    (fun kv s hs h1 h0 => by
      have := add_step (table_add_order .add_readout (by simp)) readoutsL_law (ctxOf .add_readout 0)
        (.add_readout kv.1 kv.2) kv.1 kv.2 (givenFor σ kv.1) (fun _ => rfl) hs h1 h0
      simpa [Op.fnNames, recSigs_givenFor] using this)
    c.readouts s6 x6 (keys_ne_time _ (by omega))
    (fun a => by have := G a; simp [cc, c6', contentNames, surOuts, List.count_append]; omega)
  refine ⟨x7, ?_, ?_⟩
  · rw [c7, c6']; simp [readoutsL]
  · rw [g7, g6, g5, g4, g3, g2, g1']
    simp only [if_true, fnKeys, sigFold_append]

/-! ### the rebuilt model passes / fails the arity check exactly like the edited one -/

theorem mem_keys_omInsert' {β} (m : List (Name × β)) (k : Name) (v : β) (x : Name)
    (h : x ∈ omKeys (omInsert m k v)) : x = k ∨ x ∈ omKeys m := by
  induction m with
  | nil => simp [omInsert, omKeys] at h; exact Or.inl h
  | cons a rest ih =>
    obtain ⟨k', v'⟩ := a
    simp only [omInsert] at h
    by_cases hk : (k' == k) = true
    · simp only [hk, if_true, omKeys_cons, List.mem_cons] at h
      rcases h with h | h
      · exact Or.inl h
      · exact Or.inr (by simp [h])
    · simp only [hk] at h
      simp only [Bool.false_eq_true, if_false, omKeys_cons, List.mem_cons] at h
      rcases h with h | h
      · exact Or.inr (by simp [h])
      · rcases ih h with h2 | h2
        · exact Or.inl h2
        · exact Or.inr (by simp [h2])

theorem mem_keys_omUnion' {β} (b : List (Name × β)) : ∀ (a : List (Name × β)) (x : Name),
    x ∈ omKeys (omUnion a b) → x ∈ omKeys a ∨ x ∈ omKeys b := by
  induction b with
  | nil => intro a x h; exact Or.inl h
  | cons y ys ih =>
    intro a x h
    have : omUnion a (y :: ys) = omUnion (omInsert a y.1 y.2) ys := rfl
    rw [this] at h
    rcases ih _ x h with h1 | h1
    · rcases mem_keys_omInsert' a y.1 y.2 x h1 with h2 | h2
      · exact Or.inr (by simp [h2])
      · exact Or.inl h2
    · exact Or.inr (by simp [h1])

theorem mem_keys_iaOf (m : List (Name × Val)) (x : Name) (h : x ∈ omKeys (iaOf m)) : x ∈ omKeys m := by
  induction m with
  | nil => simp [iaOf] at h
  | cons a rest ih =>
    obtain ⟨k, v⟩ := a
    cases v with
    | plain r =>
      have : iaOf ((k, Val.plain r) :: rest) = iaOf rest := by simp [iaOf]
      rw [this] at h
      simp [ih h]
    | ia f =>
      have : iaOf ((k, Val.ia f) :: rest) = (k, f) :: iaOf rest := by simp [iaOf]
      rw [this] at h
      simp only [omKeys_cons, List.mem_cons] at h ⊢
      rcases h with h | h
      · exact Or.inl h
      · exact Or.inr (ih h)

theorem fnArities_sub (c : Content) : ∀ na ∈ fnArities c, na.1 ∈ fnKeys c := by
  intro na hna
  have hA : Gen.arityChecked = ["initial_assignments", "_derived", "_reactions", "_readouts"] := rfl
  unfold fnArities at hna
  rw [hA] at hna
  simp only [List.flatMap_cons, List.flatMap_nil, List.append_nil, List.mem_append] at hna
  unfold fnKeys
  simp only [List.mem_append]
  rcases hna with h | h | h | h
  · simp only [beq_self_eq_true, if_true, List.mem_map] at h
    obtain ⟨kv, hkv, rfl⟩ := h
    have hk : kv.1 ∈ omKeys (omUnion (iaOf c.vars) (iaOf c.pars)) := by
      unfold omKeys; exact List.mem_map_of_mem hkv
    rcases mem_keys_omUnion' _ _ _ hk with h1 | h1
    · exact Or.inl (Or.inl (Or.inl (Or.inl (mem_keys_iaOf _ _ h1))))
    · exact Or.inl (Or.inl (Or.inl (Or.inr (mem_keys_iaOf _ _ h1))))
  · have e1 : ("_derived" == "initial_assignments") = false := by decide
    simp only [e1, beq_self_eq_true, if_true] at h
    simp only [Bool.false_eq_true, if_false, List.mem_map] at h
    obtain ⟨kv, hkv, rfl⟩ := h
    exact Or.inl (Or.inl (Or.inr (by unfold omKeys; exact List.mem_map_of_mem hkv)))
  · have e1 : ("_reactions" == "initial_assignments") = false := by decide
    have e2 : ("_reactions" == "_derived") = false := by decide
    simp only [e1, e2, beq_self_eq_true, if_true, Bool.false_eq_true, if_false, List.mem_map] at h
    obtain ⟨kv, hkv, rfl⟩ := h
    exact Or.inl (Or.inr (by unfold omKeys; exact List.mem_map_of_mem hkv))
  · have e1 : ("_readouts" == "initial_assignments") = false := by decide
    have e2 : ("_readouts" == "_derived") = false := by decide
    have e3 : ("_readouts" == "_reactions") = false := by decide
    simp only [e1, e2, e3, beq_self_eq_true, if_true, Bool.false_eq_true, if_false, List.mem_map] at h
    obtain ⟨kv, hkv, rfl⟩ := h
    exact Or.inr (by unfold omKeys; exact List.mem_map_of_mem hkv)

theorem all_congr_mem {α} {l : List α} {f g : α → Bool} (h : ∀ x ∈ l, f x = g x) : l.all f = l.all g := by
  induction l with
  | nil => rfl
  | cons a rest ih =>
    simp only [List.all_cons]
    rw [h a (by simp), ih (fun x hx => h x (by simp [hx]))]

theorem arityOK_rebuilt (σ : List (Name × Gen.Sig)) (c : Content) :
    arityOK (sigFold σ (fnKeys c) []) c = arityOK σ c := by
  unfold arityOK
  apply all_congr_mem
  intro na hna
  have hm := fnArities_sub c na hna
  rw [lookup_sigFold]
  simp only [hm, if_true]
  cases σ.lookup na.1 with
  | none => rfl
  | some g => rfl

/-- every query: the freshly built model answers what `freshAnswer` says for the edited model's content -/
theorem freshAnswer_rebuilt (σ : List (Name × Gen.Sig)) (c : Content) (q : Query) :
    freshAnswer (sigFold σ (fnKeys c) []) c q = freshAnswer σ c q := by
  unfold freshAnswer buildCache
  rw [arityOK_rebuilt]

end Mxl.C03
