/- C12 — what the symbol tables built by `derivedLoop` / `rxnLoop` satisfy (core Lean only). -/
import MxlVerif.Lemmas.C12Step
namespace Mxl.C12
open Mxl

theorem All2.functional {α β} {R : α → β → Prop} (hR : ∀ a b b', R a b → R a b' → b = b') :
    ∀ {l r r'}, All2 R l r → All2 R l r' → r = r' := by
  intro l r r' h1
  induction h1 generalizing r' with
  | nil => intro h2; cases h2; rfl
  | cons hab _ ih => intro h2; cases h2 with | cons hab' h2' => rw [hR _ _ _ hab hab', ih h2']

/-- every entry of `S` survives in `S'` with the same value -/
def ValStable (ρ : Name → Rat) (S S' : Symbols) : Prop :=
  ∀ a e, S.lookup a = some e → ∃ e', S'.lookup a = some e' ∧ evalS ρ e' = evalS ρ e

theorem ValStable.refl (ρ S) : ValStable ρ S S := fun _ e h => ⟨e, h, rfl⟩

theorem ValStable.trans {ρ S1 S2 S3} (h1 : ValStable ρ S1 S2) (h2 : ValStable ρ S2 S3) :
    ValStable ρ S1 S3 := by
  intro a e h
  obtain ⟨e', he', hv'⟩ := h1 a e h
  obtain ⟨e'', he'', hv''⟩ := h2 a e' he'
  exact ⟨e'', he'', hv''.trans hv'⟩

theorem All2.lift {ρ S S'} (h : ValStable ρ S S') :
    ∀ {args es}, All2 (fun a e => S.lookup a = some e) args es →
      ∃ es', All2 (fun a e => S'.lookup a = some e) args es' ∧ es'.map (evalS ρ) = es.map (evalS ρ) := by
  intro args es h1
  induction h1 with
  | nil => exact ⟨[], .nil, rfl⟩
  | cons hae _ ih =>
    obtain ⟨es', h', hm⟩ := ih
    obtain ⟨e', he', hv⟩ := h _ _ hae
    exact ⟨e' :: es', .cons he' h', by simp [hv, hm]⟩

/-- every derived quantity present in the table evaluates to its function of the values of its
    arguments in the table -/
def SemClosed (derived : List (Name × SFn)) (ρ : Name → Rat) (S : Symbols) : Prop :=
  ∀ k f e, derived.lookup k = some f → S.lookup k = some e →
    ∃ es, All2 (fun a e' => S.lookup a = some e') f.args es ∧
      evalS ρ e = evalB (es.map (evalS ρ)) f.body

theorem substFn_inv (S : Symbols) (f : SFn) (e : SExpr) (h : substFn S f = .ok e) :
    ∃ es, All2 (fun a e' => S.lookup a = some e') f.args es ∧ e = substArgs es f.body := by
  unfold substFn at h
  cases hl : lookupSyms S f.args with
  | error err => simp [hl, bind, Except.bind] at h
  | ok es =>
    simp [hl, bind, Except.bind, pure, Except.pure] at h
    exact ⟨es, lookupSyms_ok _ _ _ hl, h.symm⟩

theorem lookup_functional (S : Symbols) : ∀ (a : Name) (b b' : SExpr),
    S.lookup a = some b → S.lookup a = some b' → b = b' := by
  intro a b b' h1 h2; rw [h1] at h2; exact Option.some.inj h2

theorem derived_step (derived : List (Name × SFn)) (ρ : Name → Rat) (S : Symbols) (k : Name)
    (f : SFn) (e : SExpr) (hk : derived.lookup k = some f) (hs : substFn S f = .ok e)
    (hc : SemClosed derived ρ S) :
    ValStable ρ S (omInsert S k e) ∧ SemClosed derived ρ (omInsert S k e) := by
  obtain ⟨es, hes, he⟩ := substFn_inv S f e hs
  have hval : evalS ρ e = evalB (es.map (evalS ρ)) f.body := by rw [he, evalS_substArgs]
  have hstab : ValStable ρ S (omInsert S k e) := by
    intro a ea ha
    rw [lookup_omInsert]
    by_cases hak : a = k
    · subst hak
      refine ⟨e, by simp, ?_⟩
      obtain ⟨es0, hes0, hv0⟩ := hc a f ea hk ha
      have : es0 = es := All2.functional (lookup_functional S) hes0 hes
      rw [hv0, hval, this]
    · exact ⟨ea, by simp [hak, ha], rfl⟩
  refine ⟨hstab, ?_⟩
  intro k2 f2 e2 hk2 hl2
  rw [lookup_omInsert] at hl2
  by_cases h2 : k2 = k
  · subst h2
    simp at hl2
    rw [hk] at hk2
    have hf : f = f2 := Option.some.inj hk2
    subst hf
    subst hl2
    obtain ⟨es', hes', hm⟩ := All2.lift hstab hes
    exact ⟨es', hes', by rw [hval, hm]⟩
  · simp [h2] at hl2
    obtain ⟨es2, hes2, hv2⟩ := hc k2 f2 e2 hk2 hl2
    obtain ⟨es', hes', hm⟩ := All2.lift hstab hes2
    exact ⟨es', hes', by rw [hv2, hm]⟩

theorem derivedLoop_sound (derived : List (Name × SFn)) (ρ : Name → Rat) :
    ∀ (names : List Name) (S S' : Symbols), derivedLoop derived names S = .ok S' →
      SemClosed derived ρ S →
      SemClosed derived ρ S' ∧ ValStable ρ S S' ∧
      (∀ a, a ∉ omKeys derived → S'.lookup a = S.lookup a) ∧
      (∀ a, a ∈ omKeys S' → a ∈ omKeys S ∨ a ∈ omKeys derived) := by
  intro names
  induction names with
  | nil =>
    intro S S' h hc
    simp [derivedLoop] at h
    subst h
    exact ⟨hc, ValStable.refl _ _, fun _ _ => rfl, fun _ h => Or.inl h⟩
  | cons k ks ih =>
    intro S S' h hc
    unfold derivedLoop at h
    cases hk : derived.lookup k with
    | none =>
      simp only [hk] at h
      exact ih S S' h hc
    | some f =>
      simp only [hk, bind, Except.bind] at h
      cases hs : substFn S f with
      | error err => simp [hs] at h
      | ok e =>
        simp only [hs] at h
        obtain ⟨hst, hc1⟩ := derived_step derived ρ S k f e hk hs hc
        obtain ⟨hc2, hst2, hother, hkeys⟩ := ih _ S' h hc1
        refine ⟨hc2, hst.trans hst2, ?_, ?_⟩
        · intro a ha
          rw [hother a ha, lookup_omInsert]
          have : a ≠ k := fun hak => ha (hak ▸ mem_keys_of_lookup _ _ _ hk)
          simp [this]
        · intro a ha
          rcases hkeys a ha with h1 | h1
          · rw [mem_keys_omInsert] at h1
            rcases h1 with h1 | h1
            · right; exact h1 ▸ mem_keys_of_lookup _ _ _ hk
            · left; exact h1
          · right; exact h1

/-- `rxnLoop` stores, for each reaction, exactly the substitution of its rate -/
theorem rxnLoop_sound (S : Symbols) :
    ∀ (l : List (Name × SRxn)) (rx rx' : Symbols), rxnLoop S l rx = .ok rx' →
      (omKeys l).Nodup →
      ∀ k e, rx'.lookup k = some e →
        (∃ r, l.lookup k = some r ∧ substFn S r.rate = .ok e) ∨ (k ∉ omKeys l ∧ rx.lookup k = some e) := by
  intro l
  induction l with
  | nil =>
    intro rx rx' h _ k e hk
    simp [rxnLoop] at h; subst h
    exact Or.inr ⟨by simp [omKeys], hk⟩
  | cons kr rest ih =>
    obtain ⟨k0, r0⟩ := kr
    intro rx rx' h hn k e hk
    simp only [rxnLoop, bind, Except.bind] at h
    cases hs : substFn S r0.rate with
    | error err => simp [hs] at h
    | ok e0 =>
      simp only [hs] at h
      simp only [omKeys, List.map_cons, List.nodup_cons] at hn
      rcases ih _ rx' h hn.2 k e hk with ⟨r, hr, hsr⟩ | ⟨hnot, hl⟩
      · left
        have : k ≠ k0 := fun hkk => hn.1 (hkk ▸ mem_keys_of_lookup _ _ _ hr)
        exact ⟨r, by simp [lookup_cons_eq, this, hr], hsr⟩
      · rw [lookup_omInsert] at hl
        by_cases hkk : k = k0
        · left; subst hkk; simp at hl; subst hl
          exact ⟨r0, by simp [lookup_cons_eq], hs⟩
        · right
          simp [hkk] at hl
          exact ⟨by simp [omKeys, hkk]; simpa [omKeys] using hnot, hl⟩

end Mxl.C12
