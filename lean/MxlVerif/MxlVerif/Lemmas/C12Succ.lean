/- C12 — the derived-quantity loop succeeds on every dependency-respecting order (core Lean only). -/
import MxlVerif.Lemmas.C12Order
namespace Mxl.C12
open Mxl

theorem lookupSyms_succeeds (S : Symbols) (args : List Name) (h : ∀ a ∈ args, a ∈ omKeys S) :
    ∃ es, lookupSyms S args = .ok es := by
  induction args with
  | nil => exact ⟨[], rfl⟩
  | cons a args ih =>
    obtain ⟨es, hes⟩ := ih (fun a' ha' => h a' (List.mem_cons_of_mem _ ha'))
    obtain ⟨e, he⟩ := lookup_isSome_of_mem_keys S a (h a List.mem_cons_self)
    refine ⟨e :: es, ?_⟩
    unfold lookupSyms at hes ⊢
    rw [List.mapM_cons]
    simp [he, hes, bind, Except.bind, pure, Except.pure]

theorem substFn_succeeds (S : Symbols) (f : SFn) (h : ∀ a ∈ f.args, a ∈ omKeys S) :
    ∃ e, substFn S f = .ok e := by
  obtain ⟨es, hes⟩ := lookupSyms_succeeds S f.args h
  exact ⟨substArgs es f.body, by simp [substFn, hes, bind, Except.bind, pure, Except.pure]⟩

theorem mem_omUnion {β} (a b : List (Name × β)) (k : Name) (v : β) (h : (k, v) ∈ omUnion a b) :
    (k, v) ∈ a ∨ (k, v) ∈ b := by
  unfold omUnion at h
  induction b generalizing a with
  | nil => exact Or.inl h
  | cons kv b ih =>
    simp only [List.foldl_cons] at h
    rcases ih _ h with h1 | h1
    · rcases mem_omInsert _ _ _ _ _ h1 with ⟨hk, hv⟩ | h2
      · right; subst hk hv; exact List.mem_cons_self
      · exact Or.inl h2
    · exact Or.inr (List.mem_cons_of_mem _ h1)

/-- an entry of `to_sort` is a derived quantity with its own function, or something that is
    no derived quantity; in both cases it provides exactly its own name -/
theorem toSort_mem (sc : SContent) (w : WFacts sc) (k : Name) (comp : Comp)
    (h : (k, comp) ∈ sc.toContent.toSort) :
    (∃ fn, comp = .fn fn) ∧
    ((∃ f, sc.derived.lookup k = some f ∧ comp = .fn f.toFn) ∨ k ∉ omKeys sc.derived) := by
  unfold Content.toSort at h
  have hs : sc.toContent.surs = [] := w.surs
  simp only [hs, List.map_nil, omUnion_nil] at h
  rcases mem_omUnion _ _ _ _ h with h1 | h1
  · rcases mem_omUnion _ _ _ _ h1 with h2 | h2
    · obtain ⟨⟨k', fn⟩, hm, he⟩ := List.mem_map.mp h2
      simp at he; obtain ⟨hk, hc⟩ := he; subst hk
      refine ⟨⟨fn, hc.symm⟩, Or.inr ?_⟩
      have := mem_keys_omUnion _ _ _ |>.mp (List.mem_map.mpr ⟨(k', fn), hm, rfl⟩ : k' ∈ omKeys _)
      rcases this with h3 | h3
      · have := mem_keys_iaOf _ _ h3; rw [keys_vars] at this; exact w.v_d k' this
      · have := mem_keys_iaOf _ _ h3; rw [keys_pars] at this; exact w.p_d k' this
    · obtain ⟨⟨k', fn⟩, hm, he⟩ := List.mem_map.mp h2
      simp at he; obtain ⟨hk, hc⟩ := he; subst hk
      have : (k', fn) ∈ sc.derived.map fun kv => (kv.1, kv.2.toFn) := hm
      obtain ⟨⟨k2, f⟩, hm2, he2⟩ := List.mem_map.mp this
      simp at he2; obtain ⟨hk2, hf2⟩ := he2; subst hk2 hf2
      exact ⟨⟨_, hc.symm⟩, Or.inl ⟨f, lookup_of_mem_nodup _ _ _ w.dN hm2, hc.symm⟩⟩
  · obtain ⟨⟨k', r⟩, hm, he⟩ := List.mem_map.mp h1
    simp at he; obtain ⟨hk, hc⟩ := he; subst hk
    refine ⟨⟨_, hc.symm⟩, Or.inr ?_⟩
    have : k' ∈ omKeys sc.toContent.rxns := List.mem_map.mpr ⟨(k', r), hm, rfl⟩
    rw [keys_rxns] at this
    exact fun hd => w.d_r k' hd this

theorem deps_mem (sc : SContent) (w : WFacts sc) (d : Dep) (h : d ∈ sc.toContent.deps) :
    d.provided = [d.name] ∧
    ((∃ f, sc.derived.lookup d.name = some f ∧ d.required = f.args) ∨ d.name ∉ omKeys sc.derived) := by
  unfold Content.deps at h
  obtain ⟨⟨k, comp⟩, hm, he⟩ := List.mem_map.mp h
  subst he
  obtain ⟨⟨fn, hfn⟩, hcase⟩ := toSort_mem sc w k comp hm
  subst hfn
  refine ⟨rfl, ?_⟩
  rcases hcase with ⟨f, hf, hc⟩ | hnd
  · left; refine ⟨f, hf, ?_⟩
    simp at hc; subst hc; rfl
  · exact Or.inr hnd

theorem derivedLoop_succeeds (sc : SContent) (w : WFacts sc)
    (hconv : ∀ k f, sc.derived.lookup k = some f → ∀ a ∈ f.args, a ∈ sc.symNames) :
    ∀ (order av : List Name) (S : Symbols), Sorted sc.toContent.deps av order →
      (∀ a ∈ av, a ∈ omKeys sc.derived → a ∈ omKeys S) →
      (∀ a ∈ sc.symNames, a ∉ omKeys sc.derived → a ∈ omKeys S) →
      ∃ S', derivedLoop sc.derived order S = .ok S' ∧ (∀ a ∈ omKeys S, a ∈ omKeys S') ∧
        (∀ k ∈ order, k ∈ omKeys sc.derived → k ∈ omKeys S') := by
  intro order av S hs
  induction hs generalizing S with
  | nil => intro _ _; exact ⟨S, rfl, fun _ h => h, by simp⟩
  | @cons av d rest hd hreq _ ih =>
    intro hav hbase
    obtain ⟨hprov, hcase⟩ := deps_mem sc w d hd
    rw [hprov] at ih
    unfold derivedLoop
    rcases hcase with ⟨f, hf, hargs⟩ | hnd
    · simp only [hf, bind, Except.bind]
      have hall : ∀ a ∈ f.args, a ∈ omKeys S := by
        intro a ha
        have hsym := hconv _ f hf a ha
        by_cases hda : a ∈ omKeys sc.derived
        · exact hav a (hreq a (hargs ▸ ha)) hda
        · exact hbase a hsym hda
      obtain ⟨e, he⟩ := substFn_succeeds S f hall
      simp only [he]
      obtain ⟨S', hS', hmono, hcov⟩ := ih (omInsert S d.name e)
        (by
          intro a ha hda
          rw [mem_keys_omInsert]
          rcases List.mem_append.mp ha with h1 | h1
          · left; simpa using h1
          · right; exact hav a h1 hda)
        (by intro a ha hda; rw [mem_keys_omInsert]; right; exact hbase a ha hda)
      refine ⟨S', hS', fun a ha => hmono a ((mem_keys_omInsert _ _ _ _).mpr (Or.inr ha)), ?_⟩
      intro k hk hkd
      rcases List.mem_cons.mp hk with h1 | h1
      · subst h1; exact hmono _ ((mem_keys_omInsert _ _ _ _).mpr (Or.inl rfl))
      · exact hcov k h1 hkd
    · have hnone : sc.derived.lookup d.name = none := (lookup_none_iff _ _).mpr hnd
      simp only [hnone]
      obtain ⟨S', hS', hmono, hcov⟩ := ih S
        (by
          intro a ha hda
          rcases List.mem_append.mp ha with h1 | h1
          · simp at h1; subst h1; exact absurd hda hnd
          · exact hav a h1 hda)
        hbase
      refine ⟨S', hS', hmono, ?_⟩
      intro k hk hkd
      rcases List.mem_cons.mp hk with h1 | h1
      · subst h1; exact absurd hkd hnd
      · exact hcov k h1 hkd

end Mxl.C12
