/-
Declaration order is irrelevant — stated directly for the executable pipeline
`createCache` = `sortDeps` + `evalInOrder` + `classify`: permuting every container of a content
(well-named: `WFnames`) changes neither whether the cache builds nor any resolved value
(initial conditions, parameter table incl. assignment-defined and derived parameters).
-/
import MxlVerif.Lemmas.ClassesExact
import MxlVerif.Lemmas.Unique
namespace Mxl

/-- the same model content declared in another order: every container is a permutation -/
structure SameContent (c' c : Content) : Prop where
  vars : c'.vars.Perm c.vars
  pars : c'.pars.Perm c.pars
  derived : c'.derived.Perm c.derived
  rxns : c'.rxns.Perm c.rxns
  surs : c'.surs.Perm c.surs
  data : c'.data.Perm c.data

/-! ### association lists under permutation -/

theorem lookup_perm {β} {l l' : List (Name × β)} (hp : l'.Perm l) (hnd : (omKeys l).Nodup)
    (k : Name) : l'.lookup k = l.lookup k := by
  have hnd' : (omKeys l').Nodup := (hp.map _).nodup_iff.mpr hnd
  cases h : l.lookup k with
  | none =>
    apply lookup_none_of_not_mem_keys
    intro hm
    have : k ∈ omKeys l := ((hp.map (·.1)).mem_iff).mp hm
    obtain ⟨v, hv⟩ := lookup_isSome_of_mem_keys this
    rw [h] at hv; cases hv
  | some v =>
    exact lookup_of_mem hnd' (hp.mem_iff.mpr (mem_of_lookup h))

theorem omKeys_perm {β} {l l' : List (Name × β)} (hp : l'.Perm l) : (omKeys l').Perm (omKeys l) :=
  hp.map _

theorem plainOf_perm {l l' : List (Name × Val)} (hp : l'.Perm l) : (plainOf l').Perm (plainOf l) :=
  hp.filterMap _

theorem iaOf_perm {l l' : List (Name × Val)} (hp : l'.Perm l) : (iaOf l').Perm (iaOf l) :=
  hp.filterMap _

/-- a table whose every entry is read from `f` is `f` restricted to the table's keys -/
theorem lookup_of_vals {l : List (Name × Rat)} {f : Name → Option Rat}
    (h : ∀ kv ∈ l, f kv.1 = some kv.2) {k : Name} (hk : k ∈ omKeys l) : l.lookup k = f k := by
  obtain ⟨v, hv⟩ := lookup_isSome_of_mem_keys hk
  rw [hv, h (k, v) (mem_of_lookup hv)]

/-- two tables read from pointwise-equal functions, with the same key sets, are equal as maps -/
theorem lookup_eq_of_vals {l l' : List (Name × Rat)} {f f' : Name → Option Rat}
    (h : ∀ kv ∈ l, f kv.1 = some kv.2) (h' : ∀ kv ∈ l', f' kv.1 = some kv.2)
    (hf : ∀ n, f' n = f n) (hkeys : ∀ k, k ∈ omKeys l' ↔ k ∈ omKeys l) (k : Name) :
    l'.lookup k = l.lookup k := by
  by_cases hk : k ∈ omKeys l
  · rw [lookup_of_vals h hk, lookup_of_vals h' ((hkeys k).mpr hk), hf]
  · rw [lookup_none_of_not_mem_keys hk, lookup_none_of_not_mem_keys (fun hm => hk ((hkeys k).mp hm))]

/-! ### the pieces of a content under permutation -/

theorem SameContent.names_perm {c c' : Content} (h : SameContent c' c) :
    c'.names.Perm c.names := by
  unfold Content.names
  exact ((((((omKeys_perm h.vars).append (omKeys_perm h.pars)).append
    (omKeys_perm h.derived)).append (omKeys_perm h.rxns)).append (omKeys_perm h.surs)).append
    (h.surs.flatMap_right _)).append (omKeys_perm h.data)

theorem SameContent.wf {c c' : Content} (h : SameContent c' c) (hn : WFnames c) : WFnames c' :=
  ⟨(List.Perm.cons _ h.names_perm).nodup_iff.mpr hn.nodup,
   fun kv hkv vs => hn.surLen kv (h.surs.mem_iff.mp hkv) vs⟩

theorem SameContent.toSort_perm {c c' : Content} (h : SameContent c' c) (hn : WFnames c) :
    c'.toSort.Perm c.toSort := by
  rw [(h.wf hn).toSort_eq, hn.toSort_eq]
  exact (((((iaOf_perm h.vars).map _).append ((iaOf_perm h.pars).map _)).append
    (h.derived.map _)).append (h.rxns.map _)).append (h.surs.map _)

theorem SameContent.available_iff {c c' : Content} (h : SameContent c' c) (r : Name) :
    r ∈ c'.available ↔ r ∈ c.available := by
  unfold Content.available
  have h1 := (omKeys_perm (plainOf_perm h.pars)).mem_iff (a := r)
  have h2 := (omKeys_perm (plainOf_perm h.vars)).mem_iff (a := r)
  have h3 := (omKeys_perm h.data).mem_iff (a := r)
  simp only [List.mem_append, h1, h2, h3]

theorem SameContent.toSort_lookup {c c' : Content} (h : SameContent c' c) (hn : WFnames c)
    (k : Name) : c'.toSort.lookup k = c.toSort.lookup k :=
  lookup_perm (h.toSort_perm hn) hn.keysNodup k

theorem baseEnv_keys_nodup {c : Content} (hn : WFnames c) (t : Rat) :
    (omKeys (baseEnv (plainOf c.pars) (plainOf c.vars) c.data t)).Nodup := by
  apply nodup_of_count
  intro k
  have := hn.count_le k
  simp only [baseEnv, omKeys, List.map_cons, List.map_append, List.map_reverse, List.count_cons,
    List.count_append, List.count_reverse] at this ⊢
  by_cases hk : k = "time"
  · subst hk; simp at this ⊢; omega
  · have hne : ("time" == k) = false := by simpa using fun h' => hk h'.symm
    simp only [hne, hk] at this ⊢
    simp at this ⊢; omega

theorem SameContent.baseEnv_lookup {c c' : Content} (h : SameContent c' c) (hn : WFnames c)
    (t : Rat) (n : Name) :
    (baseEnv (plainOf c'.pars) (plainOf c'.vars) c'.data t).lookup n =
      (baseEnv (plainOf c.pars) (plainOf c.vars) c.data t).lookup n := by
  apply lookup_perm _ (baseEnv_keys_nodup hn t)
  unfold baseEnv
  refine List.Perm.cons _ ?_
  have r {α} (l l' : List α) (hp : l'.Perm l) : l'.reverse.Perm l.reverse :=
    (List.reverse_perm _).trans (hp.trans (List.reverse_perm _).symm)
  exact ((r _ _ h.data).append (r _ _ (plainOf_perm h.vars))).append (r _ _ (plainOf_perm h.pars))

/-! ### sortability under permutation -/

theorem Sortable_perm {av av' : List Name} {els els' : List Dep} (hp : els'.Perm els)
    (hav : ∀ r, r ∈ av' ↔ r ∈ av) (h : Sortable av els) : Sortable av' els' := by
  obtain ⟨rank, hr⟩ := h
  refine ⟨rank, fun d hd r hrq => ?_⟩
  rcases hr d (hp.mem_iff.mp hd) r hrq with h1 | ⟨p, hp', h2, h3⟩
  · exact Or.inl ((hav r).mpr h1)
  · exact Or.inr ⟨p, hp.mem_iff.mpr hp', h2, h3⟩

theorem sortable_of_cache {c : Content} (hn : WFnames c) {cache : Cache}
    (hc : createCache c = .ok cache) : Sortable c.available c.deps := by
  obtain ⟨order, _, _, _, _, _, h1, _⟩ := createCache_ok hc
  have hnames : (c.deps.map (·.name)).Nodup := by
    rw [deps_eq, depsOf_names]; exact hn.keysNodup
  exact (sortDeps_ok_sched c.available c.deps hnames order h1).2.2

theorem SameContent.sortable {c c' : Content} (h : SameContent c' c) (hn : WFnames c)
    (hs : Sortable c.available c.deps) : Sortable c'.available c'.deps := by
  refine Sortable_perm ?_ h.available_iff hs
  unfold Content.deps
  exact (h.toSort_perm hn).map _

/-- `OnlyParams` is a property of the graph alone -/
theorem OnlyParams.congr {c c' : Content}
    (hp : ∀ n, n ∈ omKeys c'.pars ↔ n ∈ omKeys c.pars)
    (hd : ∀ k, c'.derived.lookup k = c.derived.lookup k) {k : Name} (h : OnlyParams c k) :
    OnlyParams c' k := by
  induction h with
  | mk k d hk _ ih =>
    exact OnlyParams.mk k d (by rw [hd]; exact hk)
      (fun a ha hna => ih a ha (fun hm => hna ((hp a).mpr hm)))

theorem derived_keys_nodup {c : Content} (hn : WFnames c) : (omKeys c.derived).Nodup := by
  apply nodup_of_count
  intro k
  have := hn.count_le k
  omega

theorem SameContent.onlyParams_iff {c c' : Content} (h : SameContent c' c) (hn : WFnames c)
    (k : Name) : OnlyParams c' k ↔ OnlyParams c k := by
  have hd : ∀ k, c'.derived.lookup k = c.derived.lookup k :=
    fun k => lookup_perm h.derived (derived_keys_nodup hn) k
  have hp : ∀ n, n ∈ omKeys c'.pars ↔ n ∈ omKeys c.pars := fun n => (omKeys_perm h.pars).mem_iff
  exact ⟨OnlyParams.congr (fun n => (hp n).symm) (fun k => (hd k).symm),
         OnlyParams.congr hp hd⟩

/-! ### the theorem -/

/-- the time-zero values of the parameter table -/
theorem allPars_vals {c : Content} (hn : WFnames c) {cache : Cache}
    (hc : createCache c = .ok cache) {dep : Env}
    (he : evalInOrder c.toSort cache.order
      (baseEnv (plainOf c.pars) (plainOf c.vars) c.data 0) = .ok dep) :
    ∀ kv ∈ cache.allPars, dep.lookup kv.1 = some kv.2 := by
  obtain ⟨_, _, _, hik, _, _, _, _⟩ := createCache_consistent (WFc_of_names c hn) hc
  obtain ⟨env, hee⟩ := getArgsEnv_total hn hc cache.init hik 0
  obtain ⟨dep', hev, _, _, _, hvals⟩ := allPars_frozen hn hc cache.init hik 0 hee
  rw [he] at hev; cases hev
  intro kv hkv
  exact (hvals kv.1 kv.2 hkv).2

/-- **values do not depend on declaration order.**  If a well-named content builds its cache, so
    does every re-declaration of it in another order, and the two caches bind every variable to
    the same initial value and every parameter / assignment-defined parameter / derived parameter to
    the same value; the time-zero environments agree on *every* name. -/
theorem createCache_perm_invariant {c c' : Content} (hn : WFnames c) (hsame : SameContent c' c)
    {cache : Cache} (hc : createCache c = .ok cache) :
    ∃ cache', createCache c' = .ok cache' ∧
      (∀ k, cache'.init.lookup k = cache.init.lookup k) ∧
      (∀ k, cache'.allPars.lookup k = cache.allPars.lookup k) ∧
      (∀ k, k ∈ cache'.dynOrder ↔ k ∈ cache.dynOrder) ∧
      ∃ dep dep',
        evalInOrder c.toSort cache.order
          (baseEnv (plainOf c.pars) (plainOf c.vars) c.data 0) = .ok dep ∧
        evalInOrder c'.toSort cache'.order
          (baseEnv (plainOf c'.pars) (plainOf c'.vars) c'.data 0) = .ok dep' ∧
        ∀ n, dep'.lookup n = dep.lookup n := by
  have hn' := hsame.wf hn
  obtain ⟨cache', hc'⟩ := createCache_total c' hn' (hsame.sortable hn (sortable_of_cache hn hc))
  obtain ⟨dep, _, _, hik, hiv, hev, hperm, _⟩ := createCache_consistent (WFc_of_names c hn) hc
  obtain ⟨dep', _, _, hik', hiv', hev', hperm', _⟩ :=
    createCache_consistent (WFc_of_names c' hn') hc'
  have hall := createCache_env_unique (hsame.toSort_lookup hn) (hsame.baseEnv_lookup hn 0)
    hsame.available_iff (WFc_of_names c hn) (WFc_of_names c' hn') hc hc' hev hev'
  have hkeysI : omKeys cache.init = omKeys c.vars := hik
  have hkeysI' : omKeys cache'.init = omKeys c'.vars := hik'
  have hordIff : ∀ k, k ∈ cache'.order ↔ k ∈ cache.order := by
    intro k
    rw [hperm'.mem_iff, hperm.mem_iff]
    exact (omKeys_perm (hsame.toSort_perm hn)).mem_iff
  refine ⟨cache', hc', ?_, ?_, ?_, dep, dep', hev, hev', hall⟩
  · refine lookup_eq_of_vals (f := fun n => dep.lookup n) (f' := fun n => dep'.lookup n)
      hiv hiv' hall ?_
    intro k
    rw [hkeysI, hkeysI']
    exact (omKeys_perm hsame.vars).mem_iff
  · refine lookup_eq_of_vals (f := fun n => dep.lookup n) (f' := fun n => dep'.lookup n)
      (allPars_vals hn hc hev) (allPars_vals hn' hc' hev') hall ?_
    intro k
    rw [allPars_keys_exact hn' hc', allPars_keys_exact hn hc, hsame.onlyParams_iff hn,
      (omKeys_perm hsame.pars).mem_iff, (omKeys_perm hsame.derived).mem_iff]
  · intro k
    constructor
    · intro hk
      have hO' : k ∈ cache'.order := by
        obtain ⟨order, _, _, _, _, _, _, _, _, _, _, hcache⟩ := createCache_ok hc'
        obtain ⟨S, D, A, heq, _, hD, _⟩ :=
          classify_spec c' order [] [] (omKeys c'.pars) (fun a ha => Or.inl ha)
        have : cache'.dynOrder = D := by rw [hcache, heq]; simp
        rw [this] at hk
        rw [hcache]; exact hD.subset hk
      have hO := (hordIff k).mp hO'
      rw [dynOrder_spec hn' hc' hO'] at hk
      rw [dynOrder_spec hn hc hO]
      rcases hk with h | ⟨h1, h2⟩
      · left
        rw [isRS_iff] at h ⊢
        rcases h with h | h
        · exact Or.inl ((omKeys_perm hsame.rxns).mem_iff.mp h)
        · exact Or.inr ((omKeys_perm hsame.surs).mem_iff.mp h)
      · exact Or.inr ⟨(omKeys_perm hsame.derived).mem_iff.mp h1,
          fun ho => h2 ((hsame.onlyParams_iff hn k).mpr ho)⟩
    · intro hk
      have hO : k ∈ cache.order := by
        obtain ⟨order, _, _, _, _, _, _, _, _, _, _, hcache⟩ := createCache_ok hc
        obtain ⟨S, D, A, heq, _, hD, _⟩ :=
          classify_spec c order [] [] (omKeys c.pars) (fun a ha => Or.inl ha)
        have : cache.dynOrder = D := by rw [hcache, heq]; simp
        rw [this] at hk
        rw [hcache]; exact hD.subset hk
      have hO' := (hordIff k).mpr hO
      rw [dynOrder_spec hn hc hO] at hk
      rw [dynOrder_spec hn' hc' hO']
      rcases hk with h | ⟨h1, h2⟩
      · left
        rw [isRS_iff] at h ⊢
        rcases h with h | h
        · exact Or.inl ((omKeys_perm hsame.rxns).mem_iff.mpr h)
        · exact Or.inr ((omKeys_perm hsame.surs).mem_iff.mpr h)
      · exact Or.inr ⟨(omKeys_perm hsame.derived).mem_iff.mpr h1,
          fun ho => h2 ((hsame.onlyParams_iff hn k).mp ho)⟩

/-! ### rejection does not depend on declaration order either -/

/-- `_create_cache` fails exactly when `_sort_dependencies` does, with the same error -/
theorem createCache_error_iff {c : Content} (hn : WFnames c) (e : Err) :
    createCache c = .error e ↔ sortDeps c.available c.deps = .error e := by
  constructor
  · intro h
    cases hs : sortDeps c.available c.deps with
    | ok o =>
      exfalso
      have hnames : (c.deps.map (·.name)).Nodup := by
        rw [deps_eq, depsOf_names]; exact hn.keysNodup
      obtain ⟨cache, hc⟩ := createCache_total c hn
        (sortDeps_ok_sched c.available c.deps hnames o hs).2.2
      rw [hc] at h; cases h
    | error e' =>
      unfold createCache at h
      simp only [hs, bind, Except.bind] at h
      cases h; rfl
  · intro h
    unfold createCache
    simp only [h, bind, Except.bind]

/-- some component requires a name nothing provides -/
def Incomplete (av : List Name) (els : List Dep) : Prop :=
  ∃ d ∈ els, ∃ r ∈ d.required, r ∉ allAvailable av els

theorem Incomplete_perm {av av' : List Name} {els els' : List Dep} (hp : els'.Perm els)
    (hav : ∀ r, r ∈ av' ↔ r ∈ av) (h : Incomplete av els) : Incomplete av' els' := by
  obtain ⟨d, hd, r, hr, hnot⟩ := h
  refine ⟨d, hp.mem_iff.mpr hd, r, hr, fun hm => hnot ?_⟩
  unfold allAvailable at hm ⊢
  rcases List.mem_append.mp hm with h1 | h1
  · exact List.mem_append_left _ ((hav r).mp h1)
  · exact List.mem_append_right _ ((hp.flatMap_right _).mem_iff.mp h1)

/-- the verdict of `_sort_dependencies` as a function of the graph alone -/
theorem sortDeps_verdict (av : List Name) (els : List Dep) (hnd : (els.map (·.name)).Nodup) :
    (Sortable av els → ∃ o, sortDeps av els = .ok o) ∧
    (Incomplete av els → ∃ m, sortDeps av els = .error (.missing m)) ∧
    (¬ Incomplete av els → ¬ Sortable av els → ∃ u, sortDeps av els = .error (.circular u)) := by
  refine ⟨sortDeps_total av els hnd, ?_, ?_⟩
  · intro hinc
    have hne : ¬ (∀ d ∈ els, ∀ r ∈ d.required, r ∈ allAvailable av els) := by
      obtain ⟨d, hd, r, hr, hnot⟩ := hinc
      exact fun hall => hnot (hall d hd r hr)
    cases hs : sortDeps av els with
    | ok o => exact absurd (sortable_complete (sortDeps_ok_sched av els hnd o hs).2.2) hne
    | error e =>
      unfold sortDeps at hs
      cases hchk : checkSortable av els with
      | ok u => exact absurd ((checkSortable_ok_iff av els).mp hchk) hne
      | error e' =>
        simp only [hchk, bind, Except.bind] at hs
        cases hs
        unfold checkSortable at hchk
        simp only at hchk
        by_cases hemp : (notSolvable av els).isEmpty = true
        · rw [if_pos hemp] at hchk; cases hchk
        · rw [if_neg hemp] at hchk; cases hchk; exact ⟨_, rfl⟩
  · intro hcomp hns
    have hall : ∀ d ∈ els, ∀ r ∈ d.required, r ∈ allAvailable av els := by
      intro d hd r hr
      apply Classical.byContradiction
      intro hnot
      exact hcomp ⟨d, hd, r, hr, hnot⟩
    cases hs : sortDeps av els with
    | ok o => exact absurd (sortDeps_ok_sched av els hnd o hs).2.2 hns
    | error e =>
      have hchk : checkSortable av els = .ok () := (checkSortable_ok_iff av els).mpr hall
      unfold sortDeps at hs
      simp only [hchk, bind, Except.bind] at hs
      obtain ⟨u, hu⟩ := sortLoop_error_circular els _ av els none [] _ hs
      exact ⟨u, by rw [hu]⟩

/-- what kind of answer `_create_cache` gives -/
inductive Outcome where
  | values | missing | circular | other
deriving DecidableEq, Repr

def outcome {α} : Except Err α → Outcome
  | .ok _ => .values
  | .error (.missing _) => .missing
  | .error (.circular _) => .circular
  | .error _ => .other

theorem outcome_perm_invariant {c c' : Content} (hn : WFnames c) (hsame : SameContent c' c) :
    outcome (createCache c') = outcome (createCache c) := by
  have hn' := hsame.wf hn
  have hnd : (c.deps.map (·.name)).Nodup := by rw [deps_eq, depsOf_names]; exact hn.keysNodup
  have hnd' : (c'.deps.map (·.name)).Nodup := by rw [deps_eq, depsOf_names]; exact hn'.keysNodup
  have hdeps : c'.deps.Perm c.deps := by unfold Content.deps; exact (hsame.toSort_perm hn).map _
  obtain ⟨v1, v2, v3⟩ := sortDeps_verdict c.available c.deps hnd
  obtain ⟨w1, w2, w3⟩ := sortDeps_verdict c'.available c'.deps hnd'
  by_cases hs : Sortable c.available c.deps
  · obtain ⟨cache, hc⟩ := createCache_total c hn hs
    obtain ⟨cache', hc'⟩ := createCache_total c' hn' (hsame.sortable hn hs)
    rw [hc, hc']; rfl
  · have hs' : ¬ Sortable c'.available c'.deps := fun h =>
      hs (Sortable_perm hdeps.symm (fun r => (hsame.available_iff r).symm) h)
    by_cases hi : Incomplete c.available c.deps
    · obtain ⟨m, hm⟩ := v2 hi
      obtain ⟨m', hm'⟩ := w2 (Incomplete_perm hdeps hsame.available_iff hi)
      rw [(createCache_error_iff hn _).mpr hm, (createCache_error_iff hn' _).mpr hm']; rfl
    · have hi' : ¬ Incomplete c'.available c'.deps := fun h =>
        hi (Incomplete_perm hdeps.symm (fun r => (hsame.available_iff r).symm) h)
      obtain ⟨u, hu⟩ := v3 hi hs
      obtain ⟨u', hu'⟩ := w3 hi' hs'
      rw [(createCache_error_iff hn _).mpr hu, (createCache_error_iff hn' _).mpr hu']; rfl

end Mxl
