/-
Helper lemmas for C04: `linspace`, strictly increasing lists, the solver wrapper.
Core Lean only.
-/
import MxlVerif.Model.C04
namespace Mxl.C04

/-! ### the facts read from the current source (Generated/C04Facts.lean) on which the proofs rest.
Each is `rfl` against the generated definition: an edit of the corresponding comparison operator, flag,
statement order or default in simulator.py / int_scipy.py makes the lemma — and every theorem of
Props/C04.lean and Props/C14.lean behind it — fail to check. -/

/-- every section of the source has the shape translate/c04.py reads -/
theorem gen_supported : Gen.unsupported = [] := rfl

@[simp] theorem gen_simulateRefusal (a b : Rat) : Gen.simulateRefusal.eval a b = decide (a ≤ b) := rfl
@[simp] theorem gen_timeCourseRefusal (a b : Rat) : Gen.timeCourseRefusal.eval a b = decide (a ≤ b) := rfl
@[simp] theorem gen_timeCourseKeep (a b : Rat) : Gen.timeCourseKeep.eval a b = decide (b ≤ a) := rfl
@[simp] theorem gen_prependCmp (a b : Rat) : Gen.prependCmp.eval a b = (a != b) := rfl
@[simp] theorem gen_simulateSkipfirst : Gen.simulateSkipfirst = true := rfl
@[simp] theorem gen_timeCourseSkipfirst : Gen.timeCourseSkipfirst = true := rfl
@[simp] theorem gen_steadySkipfirst : Gen.steadySkipfirst = false := rfl
@[simp] theorem gen_simulateChecksBeforeShift : Gen.simulateChecksBeforeShift = true := rfl
@[simp] theorem gen_timeCourseChecksBeforeShift : Gen.timeCourseChecksBeforeShift = true := rfl
@[simp] theorem gen_updVarsKeepsAtSameTime : Gen.updVarsKeepsAtSameTime = true := rfl
@[simp] theorem gen_clearResetsShift : Gen.clearResetsShift = true := rfl
@[simp] theorem gen_clearResetsErrors : Gen.clearResetsErrors = true := rfl
@[simp] theorem gen_steadyResets : Gen.steadyResets = false := rfl
@[simp] theorem gen_steadyStartsAtT0 : Gen.steadyStartsAtT0 = true := rfl
@[simp] theorem gen_steadyAdvances : Gen.steadyAdvances = true := rfl
theorem gen_stepsPlus : Gen.stepsPlus = 1 := rfl
theorem gen_defaultPoints_ge : 2 ≤ Gen.defaultPoints := by decide
theorem gen_stepSize_pos : 0 < Gen.stepSize := by decide

theorem nPoints_some (k : Nat) : nPoints (some k) = k + 1 := rfl
theorem nPoints_none_ge : 2 ≤ nPoints none := gen_defaultPoints_ge

/-- the steady-state loop always advances the clock -/
theorem steadyDur_pos (k : Nat) : 0 < steadyDur k := by
  unfold steadyDur
  have h1 : (0 : Rat) < (Gen.stepSize : Rat) := Rat.natCast_pos.mpr gen_stepSize_pos
  have h2 : (0 : Rat) ≤ (k : Rat) := Rat.natCast_nonneg
  exact Rat.mul_pos h1 (by grind)

/-- `Scipy.integrate_to_steady_state` with the facts of the current source: continue from (`t0`, `y0`) for
    `steadyDur k` and stay there -/
theorem integrateToSteadyState_eq {σ} (S : Sys σ) (p : Pars) (ig : Integ σ) (res : Option Nat) :
    integrateToSteadyState S p ig res =
      match steadyIter res with
      | none => (ig, none)
      | some k => ({ ig with t0 := ig.t0 + steadyDur k, y0 := S.flow p (steadyDur k) ig.y0 },
                   some (ig.t0 + steadyDur k, S.flow p (steadyDur k) ig.y0)) := by
  unfold integrateToSteadyState
  simp only [gen_steadyResets, gen_steadyStartsAtT0, gen_steadyAdvances, Bool.false_eq_true, if_false, if_true]
  cases steadyIter res with
  | none => rfl
  | some k =>
    have : ig.t0 + steadyDur k - ig.t0 = steadyDur k := by grind
    simp only [this]

/-! ### strictly increasing lists -/

theorem strictInc_iff (l : List Rat) : strictInc l = true ↔ l.Pairwise (· < ·) := by
  induction l with
  | nil => simp [strictInc]
  | cons a t ih =>
    cases t with
    | nil => simp [strictInc]
    | cons b rest =>
      simp only [strictInc, Bool.and_eq_true, decide_eq_true_eq, ih]
      constructor
      · rintro ⟨hab, hp⟩
        refine List.pairwise_cons.mpr ⟨?_, hp⟩
        intro x hx
        rcases List.mem_cons.mp hx with rfl | hx
        · exact hab
        · have := (List.pairwise_cons.mp hp).1 x hx; grind
      · intro h
        have h' := List.pairwise_cons.mp h
        exact ⟨h'.1 b (by simp), h'.2⟩

theorem strictInc_false_iff (l : List Rat) : strictInc l = false ↔ ¬ l.Pairwise (· < ·) := by
  rw [← strictInc_iff]; cases strictInc l <;> simp

theorem pairwise_map_add (l : List Rat) (d : Rat) :
    (l.map (· + d)).Pairwise (· < ·) ↔ l.Pairwise (· < ·) := by
  rw [List.pairwise_map]
  constructor <;> intro h <;> exact h.imp (by intro a b hab; grind)

/-- in a strictly increasing list `a :: l`, everything is between `a` and the last element -/
theorem pairwise_bounds (a : Rat) (l : List Rat) (h : (a :: l).Pairwise (· < ·)) :
    ∀ x ∈ a :: l, a ≤ x ∧ x ≤ lastD (a :: l) a := by
  induction l generalizing a with
  | nil => intro x hx; simp at hx; subst hx; simp [lastD]
  | cons b rest ih =>
    have h' := List.pairwise_cons.mp h
    have hab : a < b := h'.1 b (by simp)
    have hl : lastD (a :: b :: rest) a = lastD (b :: rest) b := by
      unfold lastD
      rw [List.getLast?_cons_cons]
      cases hr : (b :: rest).getLast? with
      | none => simp at hr
      | some v => rfl
    intro x hx
    rcases List.mem_cons.mp hx with rfl | hx
    · refine ⟨Rat.le_refl, ?_⟩
      rw [hl]
      have := (ih b h'.2 b (by simp)).2
      grind
    · have := ih b h'.2 x hx
      rw [hl]
      exact ⟨by grind, this.2⟩

/-! ### `linspace` -/

theorem linspace_length (a b : Rat) (n : Nat) : (linspace a b n).length = n := by
  simp [linspace]

theorem linspace_cons (a b : Rat) (n : Nat) :
    ∃ rest, linspace a b (n + 1) = a :: rest ∧ rest.length = n := by
  refine ⟨((List.range n).map Nat.succ).map
      (fun (i : Nat) => a + (i : Rat) * ((b - a) / (((n + 1 : Nat) : Rat) - 1))), ?_, by simp⟩
  unfold linspace
  rw [List.range_succ_eq_map, List.map_cons]
  congr 1
  have : ((0 : Nat) : Rat) = 0 := rfl
  rw [this]; grind

theorem linspace_getLast (a b : Rat) (n : Nat) (hn : 2 ≤ n) : (linspace a b n).getLast? = some b := by
  obtain ⟨m, rfl⟩ : ∃ m, n = m + 1 := ⟨n - 1, by omega⟩
  unfold linspace
  rw [List.range_succ, List.map_append, List.map_singleton, List.getLast?_append]
  simp only [List.getLast?_singleton, Option.some_or]
  congr 1
  have h1 : (((m + 1 : Nat) : Rat) - 1) = (m : Rat) := by
    have : ((m + 1 : Nat) : Rat) = (m : Rat) + 1 := by push_cast; rfl
    rw [this]; grind
  have h2 : (m : Rat) ≠ 0 := by
    have : (0 : Rat) < (m : Rat) := Rat.natCast_pos.mpr (by omega)
    grind
  rw [h1]
  grind

theorem linspace_pairwise (a b : Rat) (n : Nat) (h : a < b) : (linspace a b n).Pairwise (· < ·) := by
  unfold linspace
  rw [List.pairwise_map]
  by_cases hn : 2 ≤ n
  · have hpos : (0 : Rat) < (n : Rat) - 1 := by
      have : ((2 : Nat) : Rat) ≤ (n : Rat) := by exact_mod_cast hn
      grind
    have hs : (0 : Rat) < (b - a) / ((n : Rat) - 1) := by
      rw [Rat.div_def]
      exact Rat.mul_pos (by grind) (Rat.inv_pos.mpr hpos)
    refine (List.pairwise_lt_range (n := n)).imp ?_
    intro i j hij
    have hc : (i : Rat) < (j : Rat) := Rat.natCast_lt_natCast.mpr hij
    have := Rat.mul_lt_mul_of_pos_right hc hs
    grind
  · have : n = 0 ∨ n = 1 := by omega
    rcases this with rfl | rfl <;> simp

theorem linspace_shift (a b d : Rat) (n : Nat) :
    (linspace a b n).map (· + d) = linspace (a + d) (b + d) n := by
  unfold linspace
  rw [List.map_map]
  apply List.map_congr_left
  intro i _
  simp only [Function.comp]
  grind

theorem linspace_shift_sub (a b d : Rat) (n : Nat) :
    (linspace a b n).map (· - d) = linspace (a - d) (b - d) n := by
  unfold linspace
  rw [List.map_map]
  apply List.map_congr_left
  intro i _
  simp only [Function.comp]
  grind

/-! ### the solver wrapper -/

theorem unshift_eq (sh : Option Rat) (t : Rat) : unshift sh t = t - sh.getD 0 := by
  cases sh <;> simp [unshift] <;> grind

theorem shiftRows_eq {σ} (sh : Option Rat) (rows : List (Rat × σ)) :
    shiftRows sh rows = rows.map (fun r => (r.1 + sh.getD 0, r.2)) := by
  cases sh with
  | none =>
    simp only [shiftRows, Option.getD_none]
    have : (fun r : Rat × σ => (r.1 + 0, r.2)) = id := by
      funext r; simp [Rat.add_zero]
    rw [this, List.map_id]
  | some d => simp [shiftRows]

theorem lastD_gt (t0 : Rat) (rest : List Rat) (hne : rest ≠ [])
    (hp : (t0 :: rest).Pairwise (· < ·)) : t0 < lastD (t0 :: rest) t0 := by
  cases rest with
  | nil => exact absurd rfl hne
  | cons b r =>
    have h1 : t0 < b := (List.pairwise_cons.mp hp).1 b (by simp)
    have h2 := (pairwise_bounds t0 (b :: r) hp b (by simp)).2
    grind

theorem solveIvp_ok {σ} (S : Sys σ) (p : Pars) (y0 : σ) (t0 : Rat) (rest : List Rat) (hne : rest ≠ [])
    (hp : (t0 :: rest).Pairwise (· < ·)) :
    solveIvp S p y0 (t0 :: rest) = .ok ((t0 :: rest).map fun t => (t, S.flow p (t - t0) y0)) := by
  have hlt := lastD_gt t0 rest hne hp
  have hb := pairwise_bounds t0 rest hp
  have hle : t0 ≤ lastD (t0 :: rest) t0 := by grind
  have hinc := (strictInc_iff _).mpr hp
  have hany1 : (t0 :: rest).any (· < t0) = false := by
    rw [List.any_eq_false]; intro x hx; have := (hb x hx).1; simp; grind
  have hany2 : (t0 :: rest).any (lastD (t0 :: rest) t0 < ·) = false := by
    rw [List.any_eq_false]; intro x hx; have := (hb x hx).2; simp; grind
  have hne' : (lastD (t0 :: rest) t0 == t0) = false := by
    simp; grind
  have hnlt : ¬ lastD (t0 :: rest) t0 < t0 := by grind
  simp only [solveIvp, hle, if_true, hany1, hany2, hinc, hne', hlt, hnlt, Bool.or_self,
    Bool.not_true, Bool.and_false, decide_false, Bool.false_and, Bool.false_eq_true, if_false]

theorem solveIvp_single {σ} (S : Sys σ) (p : Pars) (y0 : σ) (t0 : Rat) :
    solveIvp S p y0 [t0] = .error .indexError := by
  simp [solveIvp, lastD, strictInc, strictDec]

theorem solveIvp_unsorted {σ} (S : Sys σ) (p : Pars) (y0 : σ) (t0 : Rat) (rest : List Rat)
    (hlt : t0 < lastD (t0 :: rest) t0) (hp : ¬ (t0 :: rest).Pairwise (· < ·)) :
    solveIvp S p y0 (t0 :: rest) = .error .valueError := by
  have hinc := (strictInc_false_iff _).mpr hp
  have hle : t0 ≤ lastD (t0 :: rest) t0 := by grind
  simp only [solveIvp, hle, if_true, hinc, hlt, decide_true, Bool.not_false, Bool.and_self,
    Bool.true_or, Bool.or_true, if_true]
  split <;> rfl

theorem pairwise_map_sub (l : List Rat) (d : Rat) :
    (l.map (· - d)).Pairwise (· < ·) ↔ l.Pairwise (· < ·) := by
  rw [List.pairwise_map]
  constructor <;> intro h <;> exact h.imp (by intro a b hab; grind)

theorem unshift_fun (sh : Option Rat) : unshift sh = (· - sh.getD 0) := by
  funext t; exact unshift_eq sh t

/-- `Scipy.integrate_time_course` seen in absolute time: on a strictly increasing absolute grid
    `now :: g'` (`now` = integrator time + shift) handed over either with or without its first
    point, the rows are the flow sampled on the grid, and the integrator ends on the last point. -/
theorem itc_ok {σ} (S : Sys σ) (p : Pars) (ig : Integ σ) (sh : Option Rat) (g' pts : List Rat)
    (hne : g' ≠ [])
    (hp : ((ig.t0 + sh.getD 0) :: g').Pairwise (· < ·))
    (hpts : pts = ((ig.t0 + sh.getD 0) :: g').map (unshift sh) ∨ pts = g'.map (unshift sh)) :
    ∃ ig' rows last, integrateTimeCourse S p ig pts = .ok (ig', rows) ∧
      g'.getLast? = some last ∧
      shiftRows sh rows = ((ig.t0 + sh.getD 0) :: g').map
        (fun t => (t, S.flow p (t - (ig.t0 + sh.getD 0)) ig.y0)) ∧
      ig'.t0 + sh.getD 0 = last ∧
      ig'.y0 = S.flow p (last - (ig.t0 + sh.getD 0)) ig.y0 ∧
      ig'.y0orig = ig.y0orig := by
  generalize hd : sh.getD 0 = d at *
  have hu : unshift sh = (· - d) := by rw [unshift_fun, hd]
  rw [hu] at hpts
  have e0 : ig.t0 + d - d = ig.t0 := by grind
  obtain ⟨last, hlast⟩ : ∃ last, g'.getLast? = some last := by
    cases h : g'.getLast? with
    | none => exact absurd (List.getLast?_eq_none_iff.mp h) hne
    | some v => exact ⟨v, rfl⟩
  -- the relative grid
  have hrel : (ig.t0 :: g'.map (· - d)).Pairwise (· < ·) := by
    have := (pairwise_map_sub ((ig.t0 + d) :: g') d).mpr hp
    simpa [e0] using this
  have hne' : g'.map (· - d) ≠ [] := by simpa using hne
  have hsolve := solveIvp_ok S p ig.y0 ig.t0 (g'.map (· - d)) hne' hrel
  -- both ways of handing the points over lead to the same solver call
  have hcall : integrateTimeCourse S p ig pts =
      (match solveIvp S p ig.y0 (ig.t0 :: g'.map (· - d)) with
       | .error e => .error e
       | .ok rows => match rows.getLast? with
         | none => .error .indexError
         | some r => .ok ({ ig with t0 := r.1, y0 := r.2 }, rows)) := by
    rcases hpts with h | h
    · subst h
      simp only [List.map_cons, e0, integrateTimeCourse, gen_prependCmp, bne_self_eq_false, Bool.false_eq_true, if_false]
      rfl
    · subst h
      cases g' with
      | nil => exact absurd rfl hne
      | cons b r =>
        have hb : ig.t0 + d < b := (List.pairwise_cons.mp hp).1 b (by simp)
        have hbne : (b - d != ig.t0) = true := by simp; grind
        simp only [List.map_cons, integrateTimeCourse, gen_prependCmp, hbne, if_true]
        rfl
  rw [hsolve] at hcall
  have hlastrow : (List.map (fun t => (t, S.flow p (t - ig.t0) ig.y0)) (ig.t0 :: g'.map (· - d))).getLast?
      = some (last - d, S.flow p (last - d - ig.t0) ig.y0) := by
    rw [List.getLast?_map]
    have : (ig.t0 :: g'.map (· - d)).getLast? = some (last - d) := by
      rw [List.getLast?_cons, List.getLast?_map, hlast]; rfl
    rw [this]; rfl
  simp only [hlastrow] at hcall
  refine ⟨_, _, last, hcall, hlast, ?_, ?_, ?_, rfl⟩
  · rw [shiftRows_eq, hd, List.map_map]
    have : (ig.t0 :: g'.map (· - d)) = ((ig.t0 + d) :: g').map (· - d) := by simp [e0]
    rw [this, List.map_map]
    apply List.map_congr_left
    intro t _
    simp only [Function.comp]
    have e1 : t - d + d = t := by grind
    have e2 : t - d - ig.t0 = t - (ig.t0 + d) := by grind
    rw [e1, e2]
  · show last - d + d = last
    grind
  · show S.flow p (last - d - ig.t0) ig.y0 = _
    have : last - d - ig.t0 = last - (ig.t0 + d) := by grind
    rw [this]

theorem itc_single {σ} (S : Sys σ) (p : Pars) (ig : Integ σ) :
    integrateTimeCourse S p ig [ig.t0] = .error .indexError := by
  simp [integrateTimeCourse, solveIvp_single]

/-- the same call on a grid that is not strictly increasing is refused by the solver's
    validation of `t_eval` -/
theorem itc_unsorted {σ} (S : Sys σ) (p : Pars) (ig : Integ σ) (sh : Option Rat) (g' pts : List Rat)
    (last : Rat) (hlast : g'.getLast? = some last) (hgt : ig.t0 + sh.getD 0 < last)
    (hp : ¬ ((ig.t0 + sh.getD 0) :: g').Pairwise (· < ·))
    (hpts : pts = ((ig.t0 + sh.getD 0) :: g').map (unshift sh) ∨
      (pts = g'.map (unshift sh) ∧ g'.head? ≠ some (ig.t0 + sh.getD 0))) :
    integrateTimeCourse S p ig pts = .error .valueError := by
  generalize hd : sh.getD 0 = d at *
  have hu : unshift sh = (· - d) := by rw [unshift_fun, hd]
  rw [hu] at hpts
  have e0 : ig.t0 + d - d = ig.t0 := by grind
  have hne : g' ≠ [] := by intro h; subst h; simp at hlast
  have hrel : ¬ (ig.t0 :: g'.map (· - d)).Pairwise (· < ·) := by
    intro h
    apply hp
    have := (pairwise_map_sub ((ig.t0 + d) :: g') d).mp (by simpa [e0] using h)
    exact this
  have hl : lastD (ig.t0 :: g'.map (· - d)) ig.t0 = last - d := by
    unfold lastD
    rw [List.getLast?_cons, List.getLast?_map, hlast]; rfl
  have hsolve := solveIvp_unsorted S p ig.y0 ig.t0 (g'.map (· - d)) (by rw [hl]; grind) hrel
  rcases hpts with h | ⟨h, hh⟩
  · subst h
    simp only [List.map_cons, e0, integrateTimeCourse, gen_prependCmp, bne_self_eq_false, Bool.false_eq_true, if_false]
    rw [hsolve]
  · subst h
    cases g' with
    | nil => exact absurd rfl hne
    | cons b r =>
      have hbne : (b - d != ig.t0) = true := by
        simp at hh ⊢; intro h; apply hh; grind
      simp only [List.map_cons, integrateTimeCourse, gen_prependCmp, hbne, if_true]
      simp only [List.map_cons] at hsolve
      rw [hsolve]

end Mxl.C04
