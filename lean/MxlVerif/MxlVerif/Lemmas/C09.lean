/- helper lemmas for Props/C09 (core Lean only) -/
import MxlVerif.Model.C09Workers
namespace Mxl.C09

theorem set_append_length {α} (h : List α) (c c2 : α) : (h ++ [c]).set h.length c2 = h ++ [c2] := by
  induction h with
  | nil => rfl
  | cons x xs ih => simp [ih]

theorem read_ok_lt {h : Heap} {i : Nat} {c : Content} (hr : h.read i = .ok c) : i < h.length ∧ h[i]? = some c := by
  unfold Heap.read at hr
  split at hr
  · rename_i c' hc
    cases hr
    exact ⟨(List.getElem?_eq_some_iff.mp hc).1, hc⟩
  · cases hr

theorem read_append {h : Heap} {i : Nat} {c : Content} (hr : h.read i = .ok c) (t : Heap) :
    (h ++ t).read i = .ok c := by
  obtain ⟨hlt, hc⟩ := read_ok_lt hr
  unfold Heap.read
  rw [List.getElem?_append_left hlt, hc]

theorem mkDefault_ok {c : Content} {idx : List Rat} {p : Pickled} (h : mkDefault c idx = .ok p) :
    p.content = c ∧ p.nan = true := by
  unfold mkDefault at h
  split at h
  · cases h; exact ⟨rfl, rfl⟩
  · cases h

/-- what the independent run of a row yields, placed on a heap at a fresh cell -/
def placeOne (h : Heap) (p : Pickled) : Heap × Sim := (h ++ [p.content], { cell := h.length, segs := p.segs, nan := p.nan })

theorem rowTask_copy (w : Worker) (h : Heap) (cell : Nat) (row : Row) (c : Content)
    (hc : h.read cell = .ok c) :
    rowTask true w h cell row =
      match rowPure w c row with
      | .error e => .error e
      | .ok p => .ok (placeOne h p) := by
  unfold rowTask rowPure placeOne
  rw [hc]
  simp only [if_true]
  cases applyRow c row with
  | error e => rfl
  | ok c1 =>
    simp only
    cases w.run c1 with
    | error e => rfl
    | ok r =>
      obtain ⟨c2, res⟩ := r
      cases res with
      | some segs => simp
      | none =>
        simp only
        cases hd : mkDefault c2 w.dfltIndex with
        | error e => rfl
        | ok p =>
          obtain ⟨h1, h2⟩ := mkDefault_ok hd
          simp [h1, h2]


/-! ### the scan as "independent rows, placed on the heap" -/

/-- every row run independently on the caller's content (spec side, no heap) -/
def pureRows (w : Worker) (c : Content) : List (Label × Row) → Except Err (List (Label × Pickled))
  | [] => .ok []
  | lr :: rest =>
    match rowPure w c lr.2 with
    | .error e => .error e
    | .ok p =>
      match pureRows w c rest with
      | .error e => .error e
      | .ok ps => .ok ((lr.1, p) :: ps)

def placeFrom (n : Nat) : List (Label × Pickled) → List (Label × Sim)
  | [] => []
  | lp :: rest => (lp.1, { cell := n, segs := lp.2.segs, nan := lp.2.nan }) :: placeFrom (n + 1) rest

def placeAll (h : Heap) (ps : List (Label × Pickled)) : Heap × List (Label × Sim) :=
  (h ++ ps.map (·.2.content), placeFrom h.length ps)

theorem seqScan_char (w : Worker) (c : Content) (cell : Nat) :
    ∀ (rows : List (Label × Row)) (h : Heap), h.read cell = .ok c →
      seqScan w h cell rows =
        match pureRows w c rows with
        | .error e => .error e
        | .ok ps => .ok (placeAll h ps) := by
  intro rows
  induction rows with
  | nil => intro h _; simp [seqScan, seqScanWith, pureRows, placeAll, placeFrom]
  | cons lr rest ih =>
    intro h hc
    unfold seqScan at ih ⊢
    unfold seqScanWith pureRows
    rw [rowTask_copy w h cell lr.2 c hc]
    cases rowPure w c lr.2 with
    | error e => rfl
    | ok p =>
      simp only [placeOne]
      rw [ih (h ++ [p.content]) (read_append hc _)]
      cases pureRows w c rest with
      | error e => rfl
      | ok ps => simp [placeAll, placeFrom]

theorem childTask_copy (w : Worker) (c : Content) (row : Row) :
    childTask true w c row = rowPure w c row := by
  unfold childTask
  rw [rowTask_copy w [c] 0 row c (by rfl)]
  cases rowPure w c row with
  | error e => rfl
  | ok p => simp [placeOne, Heap.read]

theorem collect_char :
    ∀ (xs : List (Label × Row)) (f : Row → Except Err Pickled) (h : Heap),
      collect h (xs.map fun lr => (lr.1, f lr.2)) =
        match (xs.mapM fun lr => match f lr.2 with | .error e => Except.error e | .ok p => .ok (lr.1, p)) with
        | .error e => .error e
        | .ok ps => .ok (placeAll h ps) := by
  intro xs f
  induction xs with
  | nil => intro h; simp [collect, placeAll, placeFrom, pure, Except.pure]
  | cons lr rest ih =>
    intro h
    simp only [List.map_cons, collect, List.mapM_cons]
    cases f lr.2 with
    | error e => rfl
    | ok p =>
      simp only [bind, Except.bind]
      rw [ih (h ++ [p.content])]
      cases (rest.mapM fun lr => match f lr.2 with | .error e => Except.error e | .ok p => .ok (lr.1, p)) with
      | error e => rfl
      | ok ps => simp [placeAll, placeFrom, pure, Except.pure]

theorem pureRows_mapM (w : Worker) (c : Content) (rows : List (Label × Row)) :
    pureRows w c rows =
      rows.mapM fun lr => match rowPure w c lr.2 with | .error e => Except.error e | .ok p => .ok (lr.1, p) := by
  induction rows with
  | nil => rfl
  | cons lr rest ih =>
    simp only [pureRows, List.mapM_cons, ih]
    cases rowPure w c lr.2 with
    | error e => rfl
    | ok p =>
      simp only [bind, Except.bind]
      cases (rest.mapM fun lr => match rowPure w c lr.2 with | .error e => Except.error e | .ok p => .ok (lr.1, p)) with
      | error e => rfl
      | ok ps => rfl

/-! ### any schedule of the pool computes `map` -/

theorem lookup_mem {β} : ∀ (l : List (Nat × β)) (i : Nat) (v : β), l.lookup i = some v → (i, v) ∈ l := by
  intro l
  induction l with
  | nil => intro i v h; simp [List.lookup] at h
  | cons kv rest ih =>
    intro i v h
    obtain ⟨k, w⟩ := kv
    simp only [List.lookup] at h
    split at h
    · rename_i heq
      have : i = k := by simpa using heq
      cases h; subst this; simp
    · exact List.mem_cons_of_mem _ (ih i v h)

theorem lookup_some_of_mem {β} : ∀ (l : List (Nat × β)) (i : Nat) (v : β), (i, v) ∈ l → ∃ v', l.lookup i = some v' := by
  intro l
  induction l with
  | nil => intro i v h; cases h
  | cons kv rest ih =>
    intro i v h
    obtain ⟨k, w⟩ := kv
    simp only [List.lookup]
    by_cases hik : i = k
    · subst hik; simp
    · have : (i == k) = false := by simpa using hik
      rw [this]
      rcases List.mem_cons.mp h with h | h
      · cases h; exact absurd rfl hik
      · exact ih i v h

theorem mem_zip_range {α} (xs : List α) (i : Nat) (x : α) :
    (i, x) ∈ (List.range xs.length).zip xs ↔ xs[i]? = some x := by
  rw [List.mem_iff_getElem?]
  constructor
  · rintro ⟨k, hk⟩
    rw [List.getElem?_zip_eq_some] at hk
    obtain ⟨h1, h2⟩ := hk
    have : k = i := by
      have := List.getElem?_eq_some_iff.mp h1
      obtain ⟨_, h⟩ := this
      simpa using h
    subst this; exact h2
  · intro h
    refine ⟨i, ?_⟩
    rw [List.getElem?_zip_eq_some]
    have hlt := (List.getElem?_eq_some_iff.mp h).1
    exact ⟨by simp [hlt], h⟩

theorem range_filterMap_getElem {α β} (f : α → β) (xs : List α) :
    (List.range xs.length).filterMap (fun i => xs[i]?.map f) = xs.map f := by
  induction xs with
  | nil => rfl
  | cons x rest ih =>
    rw [List.length_cons, List.range_succ_eq_map]
    simp only [List.filterMap_cons, List.getElem?_cons_zero, Option.map_some, List.filterMap_map, List.map_cons]
    congr 1

theorem schedMap_eq_map {α β : Type} (assign : List Nat) (n : Nat) (hn : 0 < n) (f : α → β) (xs : List α) :
    schedMap assign n f xs = xs.map f := by
  unfold schedMap
  simp only
  generalize hall : ((List.range n).flatMap fun k =>
      (((List.range xs.length).zip xs).filter fun ix => (assign.getD ix.1 0) % n == k).map fun ix => (ix.1, f ix.2)) = all
  have hA : ∀ j v, (j, v) ∈ all → ∃ x, xs[j]? = some x ∧ v = f x := by
    intro j v hm
    rw [← hall] at hm
    simp only [List.mem_flatMap, List.mem_map, List.mem_filter] at hm
    obtain ⟨k, _, ix, ⟨hix, _⟩, he⟩ := hm
    obtain ⟨i, x⟩ := ix
    simp at he
    obtain ⟨h1, h2⟩ := he
    subst h1
    exact ⟨x, (mem_zip_range xs i x).mp hix, h2.symm⟩
  have hB : ∀ i x, xs[i]? = some x → (i, f x) ∈ all := by
    intro i x hx
    rw [← hall]
    simp only [List.mem_flatMap, List.mem_map, List.mem_filter]
    refine ⟨assign.getD i 0 % n, by simp [List.mem_range]; exact Nat.mod_lt _ hn, (i, x), ⟨(mem_zip_range xs i x).mpr hx, by simp⟩, rfl⟩
  have hL : ∀ i x, xs[i]? = some x → all.lookup i = some (f x) := by
    intro i x hx
    obtain ⟨v', hv'⟩ := lookup_some_of_mem all i (f x) (hB i x hx)
    obtain ⟨x', hx', hv⟩ := hA i v' (lookup_mem all i v' hv')
    rw [hx] at hx'; cases hx'
    rw [hv', hv]
  have hG : (fun i => all.lookup i) = fun i => xs[i]?.map f := by
    funext i
    cases hx : xs[i]? with
    | some x => simp [hL i x hx]
    | none =>
      cases hl : all.lookup i with
      | none => rfl
      | some v =>
        obtain ⟨x', hx', _⟩ := hA i v (lookup_mem all i v hl)
        rw [hx] at hx'; cases hx'
  rw [hG]
  exact range_filterMap_getElem f xs


end Mxl.C09
