/- helper lemmas for Props/C09 (core Lean only) -/
import MxlVerif.Model.C09Workers
namespace Mxl.C09

theorem set_append_length {α} (h : List α) (c c2 : α) : (h ++ [c]).set h.length c2 = h ++ [c2] := by
  induction h with
  | nil => rfl
  | cons x xs ih => simp [ih]

theorem read_ok_lt {h : Heap} {i : Nat} {c : Content} (hr : h.read i = .ok c) : i < h.length ∧ h[i]? = some c := by
  unfold Heap.read at hr
  split at hr
  · rename_i c' hc
    cases hr
    exact ⟨(List.getElem?_eq_some_iff.mp hc).1, hc⟩
  · cases hr

theorem read_append {h : Heap} {i : Nat} {c : Content} (hr : h.read i = .ok c) (t : Heap) :
    (h ++ t).read i = .ok c := by
  obtain ⟨hlt, hc⟩ := read_ok_lt hr
  unfold Heap.read
  rw [List.getElem?_append_left hlt, hc]

theorem mkDefault_ok {c : Content} {idx : List Rat} {p : Pickled} (h : mkDefault c idx = .ok p) :
    p.content = c ∧ p.nan = true := by
  unfold mkDefault at h
  split at h
  · cases h; exact ⟨rfl, rfl⟩
  · cases h

/-- what the independent run of a row yields, placed on a heap at a fresh cell -/
def placeOne (h : Heap) (p : Pickled) : Heap × Sim := (h ++ [p.content], { cell := h.length, segs := p.segs, nan := p.nan })

theorem rowTask_copy (w : Worker) (h : Heap) (cell : Nat) (row : Row) (c : Content)
    (hc : h.read cell = .ok c) :
    rowTask true w h cell row =
      match rowPure w c row with
      | .error e => .error e
      | .ok p => .ok (placeOne h p) := by
  unfold rowTask rowPure placeOne
  rw [hc]
  simp only [if_true]
  cases applyRow c row with
  | error e => rfl
  | ok c1 =>
    simp only
    cases w.run c1 with
    | error e => rfl
    | ok r =>
      obtain ⟨c2, res⟩ := r
      cases res with
      | some segs => simp
      | none =>
        simp only
        cases hd : mkDefault c2 w.dfltIndex with
        | error e => rfl
        | ok p =>
          obtain ⟨h1, h2⟩ := mkDefault_ok hd
          simp [h1, h2]


/-! ### the scan as "independent rows, placed on the heap" -/

/-- every row run independently on the caller's content (spec side, no heap) -/
def pureRows (w : Worker) (c : Content) : List (Label × Row) → Except Err (List (Label × Pickled))
  | [] => .ok []
  | lr :: rest =>
    match rowPure w c lr.2 with
    | .error e => .error e
    | .ok p =>
      match pureRows w c rest with
      | .error e => .error e
      | .ok ps => .ok ((lr.1, p) :: ps)

/-- re-checked against the source on every run: `_update_parameters_and_initial_conditions` starts with
    `model = deepcopy(model)` -/
theorem shippedCopyFirst_eq : shippedCopyFirst = true := by decide

theorem seqScan_char (w : Worker) (c : Content) (cell : Nat) :
    ∀ (rows : List (Label × Row)) (h : Heap), h.read cell = .ok c →
      seqScan w h cell rows =
        match pureRows w c rows with
        | .error e => .error e
        | .ok ps => .ok (placeAll h ps) := by
  intro rows
  induction rows with
  | nil => intro h _; simp [seqScan, seqScanWith, pureRows, placeAll, placeFrom]
  | cons lr rest ih =>
    intro h hc
    unfold seqScan at ih ⊢
    rw [shippedCopyFirst_eq] at ih ⊢
    unfold seqScanWith pureRows
    rw [rowTask_copy w h cell lr.2 c hc]
    cases rowPure w c lr.2 with
    | error e => rfl
    | ok p =>
      simp only [placeOne]
      rw [ih (h ++ [p.content]) (read_append hc _)]
      cases pureRows w c rest with
      | error e => rfl
      | ok ps => simp [placeAll, placeFrom]

theorem childTask_copy (w : Worker) (c : Content) (row : Row) :
    childTask true w c row = rowPure w c row := by
  unfold childTask
  rw [rowTask_copy w [c] 0 row c (by rfl)]
  cases rowPure w c row with
  | error e => rfl
  | ok p => simp [placeOne, Heap.read]

theorem collect_char :
    ∀ (xs : List (Label × Row)) (f : Row → Except Err Pickled) (h : Heap),
      collect h (xs.map fun lr => (lr.1, f lr.2)) =
        match (xs.mapM fun lr => match f lr.2 with | .error e => Except.error e | .ok p => .ok (lr.1, p)) with
        | .error e => .error e
        | .ok ps => .ok (placeAll h ps) := by
  intro xs f
  induction xs with
  | nil => intro h; simp [collect, placeAll, placeFrom, pure, Except.pure]
  | cons lr rest ih =>
    intro h
    simp only [List.map_cons, collect, List.mapM_cons]
    cases f lr.2 with
    | error e => rfl
    | ok p =>
      simp only [bind, Except.bind]
      rw [ih (h ++ [p.content])]
      cases (rest.mapM fun lr => match f lr.2 with | .error e => Except.error e | .ok p => .ok (lr.1, p)) with
      | error e => rfl
      | ok ps => simp [placeAll, placeFrom, pure, Except.pure]

theorem pureRows_mapM (w : Worker) (c : Content) (rows : List (Label × Row)) :
    pureRows w c rows =
      rows.mapM fun lr => match rowPure w c lr.2 with | .error e => Except.error e | .ok p => .ok (lr.1, p) := by
  induction rows with
  | nil => rfl
  | cons lr rest ih =>
    simp only [pureRows, List.mapM_cons, ih]
    cases rowPure w c lr.2 with
    | error e => rfl
    | ok p =>
      simp only [bind, Except.bind]
      cases (rest.mapM fun lr => match rowPure w c lr.2 with | .error e => Except.error e | .ok p => .ok (lr.1, p)) with
      | error e => rfl
      | ok ps => rfl

/-! ### any schedule of the pool computes `map` -/

theorem lookup_mem {β} : ∀ (l : List (Nat × β)) (i : Nat) (v : β), l.lookup i = some v → (i, v) ∈ l := by
  intro l
  induction l with
  | nil => intro i v h; simp [List.lookup] at h
  | cons kv rest ih =>
    intro i v h
    obtain ⟨k, w⟩ := kv
    simp only [List.lookup] at h
    split at h
    · rename_i heq
      have : i = k := by simpa using heq
      cases h; subst this; simp
    · exact List.mem_cons_of_mem _ (ih i v h)

theorem lookup_some_of_mem {β} : ∀ (l : List (Nat × β)) (i : Nat) (v : β), (i, v) ∈ l → ∃ v', l.lookup i = some v' := by
  intro l
  induction l with
  | nil => intro i v h; cases h
  | cons kv rest ih =>
    intro i v h
    obtain ⟨k, w⟩ := kv
    simp only [List.lookup]
    by_cases hik : i = k
    · subst hik; simp
    · have : (i == k) = false := by simpa using hik
      rw [this]
      rcases List.mem_cons.mp h with h | h
      · cases h; exact absurd rfl hik
      · exact ih i v h

theorem mem_zip_range {α} (xs : List α) (i : Nat) (x : α) :
    (i, x) ∈ (List.range xs.length).zip xs ↔ xs[i]? = some x := by
  rw [List.mem_iff_getElem?]
  constructor
  · rintro ⟨k, hk⟩
    rw [List.getElem?_zip_eq_some] at hk
    obtain ⟨h1, h2⟩ := hk
    have : k = i := by
      have := List.getElem?_eq_some_iff.mp h1
      obtain ⟨_, h⟩ := this
      simpa using h
    subst this; exact h2
  · intro h
    refine ⟨i, ?_⟩
    rw [List.getElem?_zip_eq_some]
    have hlt := (List.getElem?_eq_some_iff.mp h).1
    exact ⟨by simp [hlt], h⟩

theorem range_filterMap_getElem {α β} (f : α → β) (xs : List α) :
    (List.range xs.length).filterMap (fun i => xs[i]?.map f) = xs.map f := by
  induction xs with
  | nil => rfl
  | cons x rest ih =>
    rw [List.length_cons, List.range_succ_eq_map]
    simp only [List.filterMap_cons, List.getElem?_cons_zero, Option.map_some, List.filterMap_map, List.map_cons]
    congr 1

theorem schedMap_eq_map {α β : Type} (assign : List Nat) (n : Nat) (hn : 0 < n) (f : α → β) (xs : List α) :
    schedMap assign n f xs = xs.map f := by
  unfold schedMap
  simp only
  generalize hall : ((List.range n).flatMap fun k =>
      (((List.range xs.length).zip xs).filter fun ix => (assign.getD ix.1 0) % n == k).map fun ix => (ix.1, f ix.2)) = all
  have hA : ∀ j v, (j, v) ∈ all → ∃ x, xs[j]? = some x ∧ v = f x := by
    intro j v hm
    rw [← hall] at hm
    simp only [List.mem_flatMap, List.mem_map, List.mem_filter] at hm
    obtain ⟨k, _, ix, ⟨hix, _⟩, he⟩ := hm
    obtain ⟨i, x⟩ := ix
    simp at he
    obtain ⟨h1, h2⟩ := he
    subst h1
    exact ⟨x, (mem_zip_range xs i x).mp hix, h2.symm⟩
  have hB : ∀ i x, xs[i]? = some x → (i, f x) ∈ all := by
    intro i x hx
    rw [← hall]
    simp only [List.mem_flatMap, List.mem_map, List.mem_filter]
    refine ⟨assign.getD i 0 % n, by simp [List.mem_range]; exact Nat.mod_lt _ hn, (i, x), ⟨(mem_zip_range xs i x).mpr hx, by simp⟩, rfl⟩
  have hL : ∀ i x, xs[i]? = some x → all.lookup i = some (f x) := by
    intro i x hx
    obtain ⟨v', hv'⟩ := lookup_some_of_mem all i (f x) (hB i x hx)
    obtain ⟨x', hx', hv⟩ := hA i v' (lookup_mem all i v' hv')
    rw [hx] at hx'; cases hx'
    rw [hv', hv]
  have hG : (fun i => all.lookup i) = fun i => xs[i]?.map f := by
    funext i
    cases hx : xs[i]? with
    | some x => simp [hL i x hx]
    | none =>
      cases hl : all.lookup i with
      | none => rfl
      | some v =>
        obtain ⟨x', hx', _⟩ := hA i v (lookup_mem all i v hl)
        rw [hx] at hx'; cases hx'
  rw [hG]
  exact range_filterMap_getElem f xs


/-! ### lazy views read in any order -/

theorem nodup_getElem?_inj {α} : ∀ (l : List α) (i j : Nat) (a : α), l.Nodup → l[i]? = some a → l[j]? = some a → i = j := by
  intro l
  induction l with
  | nil => intro i j a _ h; simp at h
  | cons x xs ih =>
    intro i j a hnd hi hj
    rw [List.nodup_cons] at hnd
    cases i with
    | zero =>
      cases j with
      | zero => rfl
      | succ j =>
        simp at hi hj
        subst hi
        exact absurd (List.mem_of_getElem? hj) hnd.1
    | succ i =>
      cases j with
      | zero =>
        simp at hi hj
        subst hj
        exact absurd (List.mem_of_getElem? hi) hnd.1
      | succ j =>
        simp at hi hj
        rw [ih i j a hnd.2 hi hj]

theorem viewSim_spec {h : Heap} {s : Sim} {h' : Heap} {v : View} (hv : viewSim h s = .ok (h', v)) :
    ∃ c c', h[s.cell]? = some c ∧ viewPure { content := c, segs := s.segs, nan := s.nan } = .ok v ∧ h' = h.set s.cell c' := by
  unfold viewSim at hv
  cases hr : h.read s.cell with
  | error e => rw [hr] at hv; cases hv
  | ok c =>
    rw [hr] at hv
    simp only at hv
    unfold viewKeep at hv
    cases hs : viewSegs s.nan c s.segs with
    | error e => rw [hs] at hv; cases hv
    | ok r =>
      obtain ⟨c', rs⟩ := r
      rw [hs] at hv
      simp only at hv
      cases hv
      refine ⟨c, { c' with pars := c.pars }, (read_ok_lt hr).2, ?_, rfl⟩
      simp [viewPure, hs]

/-- what a recorded view must be: the pure view of what the result's cell held BEFORE any reading -/
def ViewOf (sims : List Sim) (h0 : Heap) (j : Nat) (v : View) : Prop :=
  ∃ s c, sims[j]? = some s ∧ h0[s.cell]? = some c ∧
    viewPure { content := c, segs := s.segs, nan := s.nan } = .ok v

theorem readViews_spec (sims : List Sim) (hnd : (sims.map (·.cell)).Nodup) (h0 : Heap) :
    ∀ (order : List Nat) (h : Heap) (memo : List (Nat × View)) (h' : Heap) (memo' : List (Nat × View)),
      (∀ j s, sims[j]? = some s → memo.lookup j = none → h[s.cell]? = h0[s.cell]?) →
      (∀ j v, (j, v) ∈ memo → ViewOf sims h0 j v) →
      readViews sims h memo order = .ok (h', memo') →
      (∀ j v, (j, v) ∈ memo' → ViewOf sims h0 j v) := by
  intro order
  induction order with
  | nil =>
    intro h memo h' memo' _ hm hr
    simp [readViews] at hr
    obtain ⟨_, rfl⟩ := hr
    exact hm
  | cons i rest ih =>
    intro h memo h' memo' hinv hm hr
    unfold readViews at hr
    cases hl : memo.lookup i with
    | some v0 =>
      rw [hl] at hr
      exact ih h memo h' memo' hinv hm hr
    | none =>
      rw [hl] at hr
      simp only at hr
      cases hsi : sims[i]? with
      | none => rw [hsi] at hr; cases hr
      | some s =>
        rw [hsi] at hr
        simp only at hr
        cases hv : viewSim h s with
        | error e => rw [hv] at hr; cases hr
        | ok r =>
          obtain ⟨h2, v⟩ := r
          rw [hv] at hr
          simp only at hr
          obtain ⟨c, c', hc, hpure, hset⟩ := viewSim_spec hv
          refine ih h2 (memo ++ [(i, v)]) h' memo' ?_ ?_ hr
          · intro j s' hj hlj
            rw [List.lookup_append] at hlj
            have hjn : memo.lookup j = none := by
              cases hm' : memo.lookup j with
              | none => rfl
              | some x => rw [hm'] at hlj; simp at hlj
            have hji : j ≠ i := by
              intro heq
              subst heq
              rw [hjn] at hlj
              simp [List.lookup] at hlj
            have hcell : s.cell ≠ s'.cell := by
              intro heq
              apply hji
              apply nodup_getElem?_inj (sims.map (·.cell)) j i s'.cell hnd
              · simp [hj]
              · simp [hsi, heq]
            rw [hset, List.getElem?_set_ne hcell]
            exact hinv j s' hj hjn
          · intro j w hjw
            rcases List.mem_append.mp hjw with hjw | hjw
            · exact hm j w hjw
            · simp at hjw
              obtain ⟨rfl, rfl⟩ := hjw
              refine ⟨s, c, hsi, ?_, hpure⟩
              rw [← hinv j s hsi hl]; exact hc


theorem viewSim_frame {h : Heap} {s : Sim} {h' : Heap} {v : View} (hv : viewSim h s = .ok (h', v))
    (k : Nat) (hk : k ≠ s.cell) : h'[k]? = h[k]? := by
  obtain ⟨c, c', _, _, hset⟩ := viewSim_spec hv
  rw [hset, List.getElem?_set_ne (Ne.symm hk)]

theorem readViews_frame (sims : List Sim) (k : Nat) (hk : ∀ s, s ∈ sims → k ≠ s.cell) :
    ∀ (order : List Nat) (h : Heap) (memo : List (Nat × View)) (h' : Heap) (memo' : List (Nat × View)),
      readViews sims h memo order = .ok (h', memo') → h'[k]? = h[k]? := by
  intro order
  induction order with
  | nil => intro h memo h' memo' hr; simp [readViews] at hr; rw [hr.1]
  | cons i rest ih =>
    intro h memo h' memo' hr
    unfold readViews at hr
    cases hl : memo.lookup i with
    | some v0 => rw [hl] at hr; exact ih h memo h' memo' hr
    | none =>
      rw [hl] at hr
      simp only at hr
      cases hsi : sims[i]? with
      | none => rw [hsi] at hr; cases hr
      | some s =>
        rw [hsi] at hr
        simp only at hr
        cases hv : viewSim h s with
        | error e => rw [hv] at hr; cases hr
        | ok r =>
          obtain ⟨h2, v⟩ := r
          rw [hv] at hr
          simp only at hr
          rw [ih h2 _ h' memo' hr]
          exact viewSim_frame hv k (hk s (List.mem_of_getElem? hsi))

theorem readViews_mono (sims : List Sim) :
    ∀ (order : List Nat) (h : Heap) (memo : List (Nat × View)) (h' : Heap) (memo' : List (Nat × View)),
      readViews sims h memo order = .ok (h', memo') →
      ∀ j v, memo.lookup j = some v → memo'.lookup j = some v := by
  intro order
  induction order with
  | nil => intro h memo h' memo' hr j v hj; simp [readViews] at hr; rw [← hr.2]; exact hj
  | cons i rest ih =>
    intro h memo h' memo' hr j v hj
    unfold readViews at hr
    cases hl : memo.lookup i with
    | some v0 => rw [hl] at hr; exact ih h memo h' memo' hr j v hj
    | none =>
      rw [hl] at hr
      simp only at hr
      cases hsi : sims[i]? with
      | none => rw [hsi] at hr; cases hr
      | some s =>
        rw [hsi] at hr
        simp only at hr
        cases hv : viewSim h s with
        | error e => rw [hv] at hr; cases hr
        | ok r =>
          obtain ⟨h2, w⟩ := r
          rw [hv] at hr
          simp only at hr
          apply ih h2 _ h' memo' hr j v
          rw [List.lookup_append, hj]; rfl

/-- every requested result has been read when the reading succeeds -/
theorem readViews_complete (sims : List Sim) :
    ∀ (order : List Nat) (h : Heap) (memo : List (Nat × View)) (h' : Heap) (memo' : List (Nat × View)),
      readViews sims h memo order = .ok (h', memo') →
      ∀ i, i ∈ order → ∃ v, memo'.lookup i = some v := by
  intro order
  induction order with
  | nil => intro h memo h' memo' _ i hi; cases hi
  | cons i0 rest ih =>
    intro h memo h' memo' hr i hi
    have hr0 := hr
    unfold readViews at hr
    cases hl : memo.lookup i0 with
    | some v0 =>
      rw [hl] at hr
      rcases List.mem_cons.mp hi with rfl | hi
      · exact ⟨v0, readViews_mono sims rest h memo h' memo' hr _ v0 hl⟩
      · exact ih h memo h' memo' hr i hi
    | none =>
      rw [hl] at hr
      simp only at hr
      cases hsi : sims[i0]? with
      | none => rw [hsi] at hr; cases hr
      | some s =>
        rw [hsi] at hr
        simp only at hr
        cases hv : viewSim h s with
        | error e => rw [hv] at hr; cases hr
        | ok r =>
          obtain ⟨h2, w⟩ := r
          rw [hv] at hr
          simp only at hr
          rcases List.mem_cons.mp hi with rfl | hi
          · refine ⟨w, readViews_mono sims rest h2 _ h' memo' hr _ w ?_⟩
            rw [List.lookup_append, hl]; simp [List.lookup]
          · exact ih h2 _ h' memo' hr i hi

/-! ### facts about `placeFrom` / `pureRows` -/

theorem placeFrom_getElem? : ∀ (ps : List (Label × Pickled)) (n i : Nat),
    (placeFrom n ps)[i]? = ps[i]?.map fun lp => (lp.1, ({ cell := n + i, segs := lp.2.segs, nan := lp.2.nan } : Sim)) := by
  intro ps
  induction ps with
  | nil => intro n i; simp [placeFrom]
  | cons lp rest ih =>
    intro n i
    cases i with
    | zero => simp [placeFrom]
    | succ i => simp [placeFrom, ih, Nat.add_assoc, Nat.add_comm 1 i]

theorem placeFrom_cells : ∀ (ps : List (Label × Pickled)) (n : Nat),
    (placeFrom n ps).map (·.2.cell) = List.range' n ps.length := by
  intro ps
  induction ps with
  | nil => intro n; simp [placeFrom]
  | cons lp rest ih => intro n; simp [placeFrom, ih, List.range'_succ]

theorem placeFrom_labels : ∀ (ps : List (Label × Pickled)) (n : Nat),
    (placeFrom n ps).map (·.1) = ps.map (·.1) := by
  intro ps
  induction ps with
  | nil => intro n; simp [placeFrom]
  | cons lp rest ih => intro n; simp [placeFrom, ih]

theorem pureRows_getElem? (w : Worker) (c : Content) :
    ∀ (rows : List (Label × Row)) (ps : List (Label × Pickled)), pureRows w c rows = .ok ps →
      ∀ (i : Nat) (lp : Label × Pickled), ps[i]? = some lp → ∃ lr : Label × Row, rows[i]? = some lr ∧ lr.1 = lp.1 ∧ rowPure w c lr.2 = .ok lp.2 := by
  intro rows
  induction rows with
  | nil => intro ps h i lp hi; simp [pureRows] at h; subst h; simp at hi
  | cons lr rest ih =>
    intro ps h i lp hi
    unfold pureRows at h
    cases hp : rowPure w c lr.2 with
    | error e => rw [hp] at h; cases h
    | ok p =>
      rw [hp] at h
      simp only at h
      cases hrest : pureRows w c rest with
      | error e => rw [hrest] at h; cases h
      | ok ps' =>
        rw [hrest] at h
        simp only at h
        cases h
        cases i with
        | zero => simp at hi; subst hi; exact ⟨lr, by simp, rfl, hp⟩
        | succ i =>
          simp at hi
          obtain ⟨lr', h1, h2, h3⟩ := ih ps' hrest i lp hi
          exact ⟨lr', by simpa using h1, h2, h3⟩

theorem pureRows_labels (w : Worker) (c : Content) :
    ∀ (rows : List (Label × Row)) (ps : List (Label × Pickled)), pureRows w c rows = .ok ps →
      ps.map (·.1) = rows.map (·.1) := by
  intro rows
  induction rows with
  | nil => intro ps h; simp [pureRows] at h; subst h; rfl
  | cons lr rest ih =>
    intro ps h
    unfold pureRows at h
    cases hp : rowPure w c lr.2 with
    | error e => rw [hp] at h; cases h
    | ok p =>
      rw [hp] at h
      simp only at h
      cases hrest : pureRows w c rest with
      | error e => rw [hrest] at h; cases h
      | ok ps' =>
        rw [hrest] at h
        simp only at h
        cases h
        simp [ih ps' hrest]

/-! ### `dict(res)` -/

theorem dictOf_go {β : Type} : ∀ (rest acc : List (Label × β)), ((acc ++ rest).map (·.1)).Nodup →
    rest.foldl (fun acc kv =>
      if (acc.map (·.1)).contains kv.1 then acc.map (fun e => if e.1 == kv.1 then (e.1, kv.2) else e)
      else acc ++ [kv]) acc = acc ++ rest := by
  intro rest
  induction rest with
  | nil => intro acc _; simp
  | cons kv rest ih =>
    intro acc hnd
    simp only [List.foldl_cons]
    have hnot : (acc.map (·.1)).contains kv.1 = false := by
      simp only [List.map_append, List.map_cons] at hnd
      have := (List.nodup_append.mp hnd).2.2
      simp only [List.contains_eq_mem, decide_eq_false_iff_not]
      intro hmem
      exact this _ hmem _ (List.mem_cons_self) rfl
    rw [hnot]
    simp only [Bool.false_eq_true, if_false]
    rw [ih (acc ++ [kv]) (by simpa using hnd)]
    simp


/-! ### time grids of the workers -/

theorem linspace_length (a b : Rat) (n : Nat) : (linspace a b n).length = n := by
  unfold linspace
  by_cases h1 : n ≤ 1
  · simp only [h1, if_true]
    by_cases h0 : n = 0
    · simp [h0]
    · simp [h0]; omega
  · simp [h1]

theorem protoIndex_length (steps : Nat) : ∀ (proto : Protocol) (t0 : Rat) (first : Bool),
    (protoIndex steps t0 first proto).length =
      proto.length * steps + (if first && !proto.isEmpty then 1 else 0) := by
  intro proto
  induction proto with
  | nil => intro t0 first; simp [protoIndex]
  | cons st rest ih =>
    intro t0 first
    simp only [protoIndex, List.length_append, ih, List.length_cons]
    cases first with
    | true => simp [linspace_length, Nat.add_mul]; omega
    | false => simp [linspace_length, Nat.add_mul]; omega

theorem eulerCourse_times (c : Content) : ∀ (ts : List Rat) (t0 : Rat) (y0 : List Rat) (rows : List (Rat × List Rat)),
    eulerCourse c t0 y0 ts = .ok rows → rows.map (·.1) = ts := by
  intro ts
  induction ts with
  | nil => intro t0 y0 rows h; simp [eulerCourse, pure, Except.pure] at h; subst h; rfl
  | cons t ts ih =>
    intro t0 y0 rows h
    simp only [eulerCourse, bind, Except.bind] at h
    cases hd : callRhs c t0 y0 with
    | error e => rw [hd] at h; cases h
    | ok d =>
      rw [hd] at h
      simp only at h
      cases hr : eulerCourse c t (axpy y0 d (t - t0)) ts with
      | error e => rw [hr] at h; cases h
      | ok rest =>
        rw [hr] at h
        simp only [pure, Except.pure] at h
        cases h
        simp [ih t _ rest hr]

theorem integrateTC_index (c : Content) (ig ig' : Integ) (tps : List Rat) (rows : List (Rat × List Rat))
    (h : integrateTC c ig tps = .ok (ig', some rows)) : rows.map (·.1) = tcGrid ig.t0 tps := by
  unfold integrateTC at h
  by_cases hf : ig.fail
  · simp [hf, pure, Except.pure] at h
  · simp only [hf] at h
    cases hg : tcGrid ig.t0 tps with
    | nil => rw [hg] at h; simp at h
    | cons t0 rest =>
      rw [hg] at h
      simp only [Bool.false_eq_true, if_false, bind, Except.bind] at h
      cases hr : eulerCourse c t0 ig.y0 rest with
      | error e => rw [hr] at h; cases h
      | ok rs =>
        rw [hr] at h
        simp only [pure, Except.pure] at h
        cases h
        simp [eulerCourse_times c rest t0 ig.y0 rs hr]

theorem simInit_t0 (cfg : EulerCfg) (c : Content) (ig : Integ) (h : simInit cfg c = .ok ig) : ig.t0 = 0 := by
  unfold simInit at h
  simp only [bind, Except.bind] at h
  cases h1 : createCache c with
  | error e => rw [h1] at h; cases h
  | ok cache =>
    rw [h1] at h
    simp only at h
    cases h2 : getRhsQ c (some cache.init) 0 with
    | error e => rw [h2] at h; cases h
    | ok _ =>
      rw [h2] at h
      simp only at h
      cases h3 : callRhs c 0 (cache.init.map (·.2)) with
      | error e => rw [h3] at h; cases h
      | ok d0 =>
        rw [h3] at h
        simp only [pure, Except.pure] at h
        cases h
        rfl

/-- the time index of a successful time-course worker result is `tcIndex`, and the model is left as it was -/
theorem tcRun_index (cfg : EulerCfg) (tps : List Rat) (c c' : Content) (segs : List Seg)
    (h : tcRun cfg tps c = .ok (c', some segs)) :
    (segs.flatMap (·.rows)).map (·.1) = tcIndex tps ∧ c' = c := by
  unfold tcRun at h
  simp only [bind, Except.bind] at h
  cases hi : simInit cfg c with
  | error e => rw [hi] at h; cases h
  | ok ig =>
    rw [hi] at h
    simp only at h
    cases hl : tps.getLast? with
    | none => rw [hl] at h; cases h
    | some last =>
      rw [hl] at h
      simp only at h
      by_cases hle : last ≤ 0
      · simp [hle] at h
      · simp only [hle, if_false] at h
        cases hr : integrateTC c ig (tps.filter fun t => decide (0 ≤ t)) with
        | error e => rw [hr] at h; cases h
        | ok r =>
          obtain ⟨ig', res⟩ := r
          rw [hr] at h
          simp only at h
          cases res with
          | none => simp [pure, Except.pure] at h
          | some rows =>
            simp only at h
            cases hs : snapshot c with
            | error e => rw [hs] at h; cases h
            | ok p =>
              rw [hs] at h
              simp only [pure, Except.pure] at h
              cases h
              have := integrateTC_index c ig ig' _ rows hr
              rw [simInit_t0 cfg c ig hi] at this
              simp [tcIndex, this]

theorem exc_bind_ok {ε α β} {x : Except ε α} {f : α → Except ε β} {b : β} (h : (x >>= f) = .ok b) :
    ∃ a, x = .ok a ∧ f a = .ok b := by
  cases x with
  | error e => cases h
  | ok a => exact ⟨a, rfl, h⟩

/-- the end of a steady-state run: the model is left alone; a success is ONE row with the model's
    own parameter snapshot, anything else is the failure that becomes the NaN placeholder -/
theorem ssFinish_spec (cfg : EulerCfg) (c c' : Content) (prev last : Rat × List Rat) (r : Option (List Seg))
    (h : ssFinish cfg c prev last = .ok (c', r)) :
    c' = c ∧ ∀ segs, r = some segs → ∃ p, snapshot c = .ok p ∧ segs = [{ rows := [last], pars := p }] := by
  unfold ssFinish at h
  split at h
  · cases hs : snapshot c with
    | error e => rw [hs] at h; cases h
    | ok p =>
      rw [hs] at h
      simp only [Except.ok.injEq, Prod.mk.injEq] at h
      obtain ⟨h1, h2⟩ := h
      refine ⟨h1.symm, ?_⟩
      intro segs hsegs
      rw [← h2] at hsegs
      cases hsegs
      exact ⟨p, rfl, rfl⟩
  · simp only [Except.ok.injEq, Prod.mk.injEq] at h
    refine ⟨h.1.symm, ?_⟩
    intro segs hsegs
    rw [← h.2] at hsegs
    cases hsegs

theorem ssRunCore_spec (cfg : EulerCfg) (c c' : Content) (r : Option (List Seg))
    (h : ssRunCore cfg c = .ok (c', r)) :
    c' = c ∧ ∀ segs, r = some segs → ∃ p last, snapshot c = .ok p ∧ segs = [{ rows := [last], pars := p }] := by
  unfold ssRunCore at h
  obtain ⟨ig, _, h⟩ := exc_bind_ok h
  by_cases hf : ig.fail = true
  · simp only [hf, if_true, pure, Except.pure, Except.ok.injEq, Prod.mk.injEq] at h
    refine ⟨h.1.symm, ?_⟩
    intro segs hs
    rw [← h.2] at hs
    cases hs
  · simp only [hf, Bool.false_eq_true, if_false] at h
    obtain ⟨prev, _, h⟩ := exc_bind_ok h
    obtain ⟨last, _, h⟩ := exc_bind_ok h
    obtain ⟨h1, h2⟩ := ssFinish_spec cfg c c' prev last r h
    refine ⟨h1, ?_⟩
    intro segs hs
    obtain ⟨p, hp, hseg⟩ := h2 segs hs
    exact ⟨p, last, hp, hseg⟩

theorem ssRun_spec (cfg : EulerCfg) (c c' : Content) (r : Option (List Seg))
    (h : ssRun cfg c = .ok (c', r)) :
    c' = c ∧ ∀ segs, r = some segs → ∃ p last, snapshot c = .ok p ∧ segs = [{ rows := [last], pars := p }] := by
  unfold ssRun at h
  split at h
  · cases h
  · split at h
    · cases h
    · cases h
    · exact ssRunCore_spec cfg c c' r h

/-- behind the `except ZeroDivisionError` guard: a run that returned either was turned into a failed result with the
    model untouched, or is the unguarded run's answer -/
theorem guardZeroDiv_ok {cfg : EulerCfg} {run : Content → Except Err (Content × Option (List Seg))} {c c' : Content}
    {r : Option (List Seg)} (h : guardZeroDiv cfg run c = .ok (c', r)) :
    (c' = c ∧ r = none ∧ zeroDivAt cfg c = .ok true) ∨ run c = .ok (c', r) := by
  unfold guardZeroDiv at h
  split at h
  · cases h
  · split at h
    · cases h
    · next hz =>
      simp only [show Generated.C09.workersCatchZeroDivision = true from by decide, if_true, Except.ok.injEq,
        Prod.mk.injEq] at h
      exact Or.inl ⟨h.1.symm, h.2.symm, hz⟩
    · exact Or.inr h

theorem guardZeroDiv_some {cfg : EulerCfg} {run : Content → Except Err (Content × Option (List Seg))} {c c' : Content}
    {segs : List Seg} (h : guardZeroDiv cfg run c = .ok (c', some segs)) : run c = .ok (c', some segs) := by
  rcases guardZeroDiv_ok h with ⟨_, h2, _⟩ | h
  · cases h2
  · exact h

theorem ssRun_shape (cfg : EulerCfg) (c c' : Content) (segs : List Seg)
    (h : ssRun cfg c = .ok (c', some segs)) :
    (segs.flatMap (·.rows)).length = 1 ∧ c' = c := by
  obtain ⟨h1, h2⟩ := ssRun_spec cfg c c' (some segs) h
  obtain ⟨p, last, _, hseg⟩ := h2 segs rfl
  subst hseg
  exact ⟨by simp, h1⟩

/-! ### the time index of a successful protocol run -/


def timesOf (segs : List Seg) : List Rat := (segs.flatMap (·.rows)).map (·.1)

theorem linspace_succ_head (a b : Rat) (n : Nat) (hn : 0 < n) : (linspace a b (n + 1)).head? = some a := by
  unfold linspace
  have h1 : ¬ (n + 1 ≤ 1) := by omega
  simp only [h1, if_false]
  rw [List.range_succ_eq_map]
  simp
  grind

theorem linspace_succ_last (a b : Rat) (n : Nat) (hn : 0 < n) (d : Rat) :
    (linspace a b (n + 1)).getLastD d = b := by
  unfold linspace
  have h1 : ¬ (n + 1 ≤ 1) := by omega
  simp only [h1, if_false]
  rw [List.range_succ, List.map_append]
  simp only [List.map_cons, List.map_nil, Nat.add_sub_cancel]
  rw [List.getLastD_eq_getLast?, List.getLast?_append]
  simp only [List.getLast?_singleton, Option.some_or, Option.getD_some]
  have hn' : ((n : Nat) : Rat) ≠ 0 := by
    intro h
    have : (n : Rat) = ((0 : Nat) : Rat) := by simpa using h
    have := Rat.natCast_inj.mp this
    omega
  grind




theorem getLastD_fst {β} : ∀ (l : List (Rat × β)) (x : Rat × β) (d : Rat),
    ((x :: l).getLastD x).1 = ((x :: l).map (·.1)).getLastD d := by
  intro l
  induction l with
  | nil => intro x d; simp [List.getLastD]
  | cons y ys ih =>
    intro x d
    have := ih y d
    simp only [List.getLastD, List.map_cons] at this ⊢
    exact this

theorem integrateTC_t0 (c : Content) (ig ig' : Integ) (tps : List Rat) (rows : List (Rat × List Rat))
    (h : integrateTC c ig tps = .ok (ig', some rows)) :
    ig'.t0 = (rows.map (·.1)).getLastD ig.t0 := by
  unfold integrateTC at h
  by_cases hf : ig.fail
  · simp [hf, pure, Except.pure] at h
  · simp only [hf] at h
    cases hg : tcGrid ig.t0 tps with
    | nil => rw [hg] at h; simp at h
    | cons t0 rest =>
      rw [hg] at h
      simp only [Bool.false_eq_true, if_false, bind, Except.bind] at h
      cases hr : eulerCourse c t0 ig.y0 rest with
      | error e => rw [hr] at h; cases h
      | ok rs =>
        rw [hr] at h
        simp only [pure, Except.pure, Except.ok.injEq, Prod.mk.injEq, Option.some.injEq] at h
        obtain ⟨h1, h2⟩ := h
        subst h1 h2
        exact getLastD_fst rs (t0, ig.y0) ig.t0




theorem timesOf_append (a b : List Seg) : timesOf (a ++ b) = timesOf a ++ timesOf b := by
  simp [timesOf]

/-- the time index of a successful protocol run is `protoIndex` -/
theorem simLoop_index (steps : Nat) (hs : 0 < steps) :
    ∀ (proto : Protocol) (c : Content) (ig : Integ) (segs : List Seg) (c' : Content) (out : List Seg),
      simLoop steps c ig segs proto = .ok (c', some out) →
      timesOf out = timesOf segs ++ protoIndex steps ig.t0 segs.isEmpty proto := by
  intro proto
  induction proto with
  | nil =>
    intro c ig segs c' out h
    simp only [simLoop] at h
    by_cases he : segs.isEmpty = true
    · simp [he] at h
    · simp only [he, Bool.false_eq_true, if_false, Except.ok.injEq, Prod.mk.injEq, Option.some.injEq] at h
      rw [← h.2]; simp [protoIndex]
  | cons step rest ih =>
    intro c ig segs c' out h
    unfold simLoop at h
    cases h1 : updatePars c step.2 with
    | error e => rw [h1] at h; cases h
    | ok c1 =>
      rw [h1] at h
      simp only at h
      by_cases hle : step.1 ≤ lastTime segs
      · simp [hle] at h
      · simp only [hle, if_false] at h
        cases h2 : integrateTC c1 ig (linspace ig.t0 step.1 (steps + 1)) with
        | error e => rw [h2] at h; cases h
        | ok r =>
          obtain ⟨ig', res⟩ := r
          rw [h2] at h
          cases res with
          | none =>
            simp only at h
            by_cases he : segs.isEmpty = true
            · simp [he] at h
            · simp only [he, Bool.false_eq_true, if_false] at h
              cases h3 : applyRemaining c1 rest with
              | error e => rw [h3] at h; cases h
              | ok c2 => rw [h3] at h; simp at h
          | some rows =>
            simp only at h
            cases h3 : snapshot c1 with
            | error e => rw [h3] at h; cases h
            | ok p =>
              rw [h3] at h
              simp only at h
              have hgrid : rows.map (·.1) = linspace ig.t0 step.1 (steps + 1) := by
                rw [integrateTC_index c1 ig ig' _ rows h2]
                simp [tcGrid, linspace_succ_head ig.t0 step.1 steps hs]
              have ht0 : ig'.t0 = step.1 := by
                rw [integrateTC_t0 c1 ig ig' _ rows h2, hgrid, linspace_succ_last ig.t0 step.1 steps hs]
              have hne : ∀ (sg : Seg), (segs ++ [sg]).isEmpty = false := by
                intro sg; cases segs <;> rfl
              have := ih c1 ig' _ c' out h
              rw [this, timesOf_append, ht0, hne]
              simp only [protoIndex, List.append_assoc]
              congr 1
              congr 1
              by_cases he : segs.isEmpty = true
              · simp [timesOf, he, hgrid]
              · simp [timesOf, he, ← hgrid]

theorem protoRun_index (cfg : EulerCfg) (proto : Protocol) (steps : Nat) (hs : 0 < steps) (c c' : Content)
    (segs : List Seg) (h : protoRun cfg proto steps c = .ok (c', some segs)) :
    timesOf segs = protoIndex steps 0 true proto := by
  unfold protoRun at h
  cases hi : simInit cfg c with
  | error e => rw [hi] at h; cases h
  | ok ig =>
    rw [hi] at h
    simp only at h
    have := simLoop_index steps hs proto c ig [] c' segs h
    rw [simInit_t0 cfg c ig hi] at this
    simpa [timesOf] using this



end Mxl.C09
